"""C02  Applying a concrete function type accepts exactly the subtypes of its input.

proof stage     coq/props/C02.v (apply_c ok <-> Sub x a, error family, Top, non-function)
correspondence  Type.apply of /repo vs apply_c on generated (f, x)
oracle          accept iff x.is_subtype(a) (tied to Sub by C01), result is b,
                rejection raises a TypeMismatch-family error
"""
from __future__ import annotations

import random

from . import common as C
from . import c01

HDR = """From Coq Require Import List Arith Bool.
Import ListNotations.
From TF Require Import Base.Hier Base.Ty Sub.Match.
Definition aobs H (p : ty * ty) : list nat := let (f, x) := p in
  match apply_c H f x with
  | AOk t => 0 :: ty_enc t
  | AErr ESubtypeMismatch => [1]
  | AErr ETypeMismatch => [2]
  | AErr EFunctionApplication => [3]
  end.
"""

ERR = {"SubtypeMismatch": 1, "TypeMismatch": 2, "FunctionApplicationError": 3}


def ty_enc(t):
    o, args = t
    r = [o, len(args)]
    for a in args:
        r += ty_enc(a)
    return r


def from_impl(h: C.Hierarchy, t):
    """transforge TypeOperation -> (op, args)"""
    import transforge.type as T
    t = t.follow()
    assert isinstance(t, T.TypeOperation), t
    inv = {id(op): i for i, op in h.ops.items()}
    return (inv[id(t.operator)], [from_impl(h, p) for p in t.params])


_SHARE = {"n": 0}


def impl_obs(h, f, x):
    import transforge.type as T
    # every other case shares equal subterms between the function type and the
    # argument (one object used in several places), the rest uses fresh objects
    _SHARE["n"] += 1
    memo = {} if _SHARE["n"] % 2 else None
    F, X = h.inst(f, memo), h.inst(x, memo)
    try:
        r = F.apply(X)
    except T.TypingError as e:
        return [ERR.get(type(e).__name__, 8)], type(e).__name__, isinstance(e, T.TypeMismatch)
    except Exception as e:  # not a declared error at all
        return [9], type(e).__name__, False
    return [0] + ty_enc(from_impl(h, r)), None, None


def gen_cases(rng, nh, n, depth):
    cases = []
    for _ in range(nh):
        h = C.gen_hierarchy(rng)
        items = []
        for _ in range(n):
            a = C.gen_ty(rng, h, depth)
            b = C.gen_ty(rng, h, depth - 1)
            r = rng.random()
            if r < 0.75:
                x = C.mutate_ty(rng, h, a, depth)
            else:
                x = C.gen_ty(rng, h, depth)
            r = rng.random()
            if r < 0.85:
                f = (3, [a, b])
            elif r < 0.9:
                f = (0, [])
            else:
                f = C.gen_ty(rng, h, depth)  # mostly non-functions
            items.append((f, x))
        cases.append((h, items))
    return cases


def exhaustive_cases(depth):
    cases = []
    for h in c01.FIXED_HIERS:
        ops = [0, 1, 3] + h.ids
        ts = C.enum_types(h, depth, ops)
        small = [t for t in ts if C.ty_size(t) <= (3 if depth == 1 else 4)]
        bs = [(5, []), (0, [])]
        items = [((3, [a, b]), x) for a in small for x in small for b in bs[:1]]
        items += [(f, small[0]) for f in small]
        cases.append((h, items))
    return cases


def main(tier: str, seed: int, replay: str | None = None) -> int:
    C.force_repo_on_path()
    rep = C.Report("C02", tier, seed)
    rep.proof_stage()
    rng = random.Random(seed)
    if tier == "quick":
        cases = gen_cases(rng, 30, 100, 3) + exhaustive_cases(1)
    else:
        cases = gen_cases(rng, 150, 300, 3) + exhaustive_cases(2)
    blocks = []
    for ci, (h, items) in enumerate(cases):
        h.build_staged(random.Random(7919 * ci + 13))
        blocks.append((f"Definition H_{ci} := {h.coq()}.\n"
            f"Eval vm_compute in map (aobs H_{ci}) " + C.coq_list(items,
                lambda p: f"({C.ty_coq(p[0])}, {C.ty_coq(p[1])})") + ".\n", 1))
    outs = C.coq_eval_blocks(f"C02_{tier}", HDR, blocks, nfiles=4)
    n = 0
    dis = 0
    distinct = set()
    dist = {"ok": 0, "SubtypeMismatch": 0, "TypeMismatch": 0, "FunctionApplicationError": 0, "top": 0}
    samples = []
    for (h, items), vals in zip(cases, outs):
        model = vals[0]
        for (f, x), mo in zip(items, model):
            io, ename, fam = impl_obs(h, f, x)
            n += 1
            if io[0] == 0:
                dist["top" if f[0] == 0 else "ok"] += 1
            elif ename in dist:
                dist[ename] += 1
            if f[0] == 3 and (f[1][0][1] or x[1]):
                distinct.add((repr(h.to_json()), repr(f), repr(x)))
            if len(samples) < 3 and f[0] == 3 and x[1] and io[0] == 0:
                samples.append({"hierarchy": h.to_json(), "f": C.ty_str(f, h.names()),
                    "x": C.ty_str(x, h.names()), "impl": io, "model": mo})
            payload = {"hierarchy": h.to_json(), "f": f, "x": x,
                "f_text": C.ty_str(f, h.names()), "x_text": C.ty_str(x, h.names()),
                "impl": io, "impl_exception": ename, "model": mo,
                "encoding": "0::type = result, 1 SubtypeMismatch, 2 TypeMismatch, 3 FunctionApplicationError, 8 other TypingError, 9 undeclared exception"}
            if f[0] == 3:
                # oracle straight from the property text
                X, A = h.inst(x), h.inst(f[1][0])
                sub = X.is_subtype(A)
                ok = io[0] == 0
                if bool(sub) != ok:
                    rep.violation(f"iff_{n}", dict(payload, kind="oracle",
                        what="apply succeeds but argument is not a subtype of the input, or the converse"))
                elif ok and io[1:] != ty_enc(f[1][1]):
                    rep.violation(f"result_{n}", dict(payload, kind="oracle",
                        what="apply returned a type other than the declared output"))
                elif not ok and not fam:
                    rep.violation(f"errfam_{n}", dict(payload, kind="oracle",
                        what="rejection did not raise a type-mismatch error"))
            elif f[0] == 0:
                if io != [0, 0, 0]:
                    rep.violation(f"top_{n}", dict(payload, kind="oracle", what="applying Top did not yield Top"))
            else:
                if io[0] == 0 or not fam:
                    rep.violation(f"nonfun_{n}", dict(payload, kind="oracle",
                        what="applying a concrete non-function type is not a (type-mismatch family) error"))
            if io != mo:
                dis += 1
                if dis <= 5:
                    # exact error class / result differs from the proved model
                    concrete = (io[0] == 0) != (mo[0] == 0)
                    rep.violation(f"disagree_{n}", dict(payload, kind="correspondence",
                        what="Type.apply differs from the model apply_c (K_C02)"),
                        has_input=concrete)
    rep.coverage.update({
        "evaluations": n, "distinct_nontrivial": len(distinct), "disagreements": dis,
        "rule": "random hierarchies as in C01; (a ** b).apply(x) with x derived from a by moving leaves along "
                "their chains (75%) or independent; 5% Top, 10% arbitrary concrete f; plus all (a, x) over three "
                f"fixed hierarchies to depth {1 if tier == 'quick' else 2} (size-bounded); non-trivial = function type whose input or argument is compound",
        "samples": samples, "outcome_distribution": dist, "exhaustive": False})
    rep.assumptions = ["wf_hier as in C01", "model/implementation agreement is tested, not proved"]
    return rep.finish(C.TRUSTED)
