"""C19 -- generators: languages (as JSON specs), vocabulary / expression / workflow
cases, with_* switch combinations.  Pure Python, no transforge import: the same
spec is rebuilt in every interpreter.

harness-side types:  "T3"  |  ("F", t)  |  ("K", t, u)  |  ("fn", [params], res)
Constraint alternatives are always written as lists (ordered), never as set
literals."""
from __future__ import annotations

import random


class L:
    """harness-side view of a generated language"""

    def __init__(self, spec, meta):
        self.spec = spec
        self.parents = {b: p for b, p in spec["bases"]}
        self.names = [b for b, _ in spec["bases"]]
        self.has_f = any(n == "F" for n, _ in spec["compounds"])
        self.kvar = next((v for n, v in spec["compounds"] if n == "K"), None)
        self.meta = meta        # op name -> dict(kind=..., params=[...], res=..., bound=...)

    def anc(self, b):
        out = [b]
        while self.parents.get(b) is not None:
            b = self.parents[b]
            out.append(b)
        return out

    def sub(self, s, t) -> bool:
        if isinstance(s, tuple) or isinstance(t, tuple):
            if not (isinstance(s, tuple) and isinstance(t, tuple) and s[0] == t[0]):
                return False
            if s[0] == "F":
                return self.sub(s[1], t[1])
            if s[0] == "K":
                ok1 = self.sub(s[1], t[1])
                ok2 = self.sub(s[2], t[2]) if self.kvar[1] else self.sub(t[2], s[2])
                return ok1 and ok2
            return False
        return t in self.anc(s)

    def below(self, b):
        return [c for c in self.names if b in self.anc(c)]


def ttext(t) -> str:
    if isinstance(t, tuple):
        if t[0] == "F":
            return f"F({ttext(t[1])})"
        if t[0] == "K":
            return f"K({ttext(t[1])}, {ttext(t[2])})"
        ps = [("(" + ttext(p) + ")") if isinstance(p, tuple) and p[0] == "fn" else ttext(p)
              for p in t[1]]
        return " ** ".join(ps + [ttext(t[2])])
    return t


def gen_language(rng: random.Random) -> L:
    n = rng.randint(2, 6)
    names = [f"T{i}" for i in range(n)]
    bases, depth = [], {}
    for i, b in enumerate(names):
        cands = [c for c in names[:i] if depth[c] < 3]
        if cands and rng.random() < 0.75:
            p = rng.choice(cands)
            depth[b] = depth[p] + 1
        else:
            p = None
            depth[b] = 0
        bases.append([b, p])
    compounds = []
    has_f = rng.random() < 0.6
    if has_f:
        compounds.append(["F", [True]])
    has_k = rng.random() < 0.3
    if has_k:
        compounds.append(["K", [True, rng.random() < 0.5]])
    spec = {"bases": bases, "compounds": compounds, "ops": [], "canon": None}
    lang = L(spec, {})
    roots = [b for b, p in bases if p is None]

    def rb():
        return rng.choice(names)

    def rt():
        r = rng.random()
        if has_f and r < 0.2:
            return ("F", rb())
        if has_k and r < 0.27:
            return ("K", rb(), rb())
        return rb()

    ops, meta = spec["ops"], lang.meta

    def add(kind, ty, body=None, doc=None, **kw):
        name = f"{kind}{len(ops)}"
        ops.append([name, ty, body, doc])
        meta[name] = dict(kind=kind, **kw)
        return name

    def doc():
        return rng.choice([None, None, "an operator", "does \"things\"\nin two lines"])

    # concrete first-order operators; make sure every root has an endomorphism
    endo = {}
    for r in roots:
        endo[r] = add("m", f"{r} ** {r}", doc=doc(), params=[r], res=r)
    for _ in range(rng.randint(2, 4)):
        ar = rng.choice([1, 1, 2, 2, 3])
        ps, res = [rt() for _ in range(ar)], rt()
        add("m", ttext(("fn", ps, res)), doc=doc(), params=ps, res=res)
    # constants (not functions: instantiated as sources)
    if rng.random() < 0.4:
        c = rb()
        add("k", c, params=[], res=c)
    # polymorphic, one constraint
    for _ in range(rng.randint(1, 2)):
        bd = rng.choice(roots + [rb()])
        add("i", f"lambda x: (x ** x)[x <= {bd}]", params=["x"], res="x", bound=bd)
    if rng.random() < 0.7:
        bd = rng.choice(roots + [rb()])
        add("j", f"lambda x: (x ** x ** x)[x <= {bd}]", params=["x", "x"], res="x", bound=bd)
    if has_f:
        bd = rng.choice(roots)
        add("w", f"lambda x: (x ** F(x))[x <= {bd}]", params=["x"], res=("F", "x"), bound=bd)
        if rng.random() < 0.7:
            add("u", f"lambda x: (F(x) ** x)[x <= {bd}]", params=[("F", "x")], res="x", bound=bd)
    # several constraints / several bounded variables / wildcards: what the printed
    # signatures (ns:signature literals) iterate over
    if rng.random() < 0.8:
        a, b = rng.choice(roots), rng.choice(roots)
        add("p", f"lambda x, y: (x ** y ** x)[x <= {a}, y <= {b}]",
            params=["x", "y"], res="x", bound=a, bound2=b)
    if rng.random() < 0.6:
        a, b, c = rb(), rb(), rb()
        alts1 = f"[{a}, {b}" + (f", F({c})" if has_f else "") + "]"
        alts2 = f"[{b}, {c}" + (", F(x)" if has_f else "") + "]"
        add("e", f"lambda x, y, z: (x ** y ** z)[x << {alts1}, y << {alts2}, z <= {rng.choice(roots)}]",
            params=None, res=None)
    if has_f and rng.random() < 0.5:
        add("q", "lambda x: x ** F(_)", params=None, res=None)
    # higher-order
    for _ in range(rng.randint(1, 3)):
        nf = rng.choice([1, 2, 2, 3])
        fps = []
        firsts = [m for m in meta.values() if m["kind"] == "m" and m["params"]]
        for _ in range(nf):
            if firsts and rng.random() < 0.75:
                # a parameter some declared operator can be passed for
                m = rng.choice(firsts)
                fps.append(("fn", list(m["params"]), m["res"]))
            else:
                far = rng.choice([1, 1, 2])
                fps.append(("fn", [rb() for _ in range(far)], rb()))
        ds = [rb() for _ in range(rng.choice([0, 1, 1, 2]))]
        ps = fps + ds
        if rng.random() < 0.4:
            rng.shuffle(ps)
        res = rb()
        add("h", ttext(("fn", ps, res)), doc=doc(), params=ps, res=res)
    # one that surely accepts an endomorphism
    r0 = rng.choice(roots)
    if rng.random() < 0.6:
        # a function-typed parameter that comes late: its internal node must receive all
        # the earlier inputs (graph.py:376, 395-397)
        add("h", f"{r0} ** {r0} ** {r0} ** ({r0} ** {r0}) ** {r0}",
            params=[r0, r0, r0, ("fn", [r0], r0)], res=r0)
    hname = add("h", f"({r0} ** {r0}) ** {r0} ** {r0}", params=[("fn", [r0], r0), r0], res=r0)
    # composite operators (abstractions after .primitive())
    e0 = endo[r0]
    if rng.random() < 0.8:
        add("c", f"{r0} ** {r0}", body=f"lambda a: {e0}({e0}(a))", params=[r0], res=r0)
    if rng.random() < 0.5:
        add("c", f"{r0} ** {r0}", body=f"lambda a: {hname}({e0}, a)", params=[r0], res=r0)
    if rng.random() < 0.3:
        add("c", f"{r0} ** {r0}", body="lambda a: a", params=[r0], res=r0)
    # the canonical set: default (all base types), or a listed one
    r = rng.random()
    if r < 0.55:
        canon = [b for b in names if rng.random() < 0.8] or [names[0]]
        if has_f:
            canon += [f"F({b})" for b in rng.sample(names, rng.randint(0, min(2, n)))]
            if rng.random() < 0.2:
                canon.append(f"F(F({rb()}))")
        if has_k:
            canon += [f"K({rb()}, {rb()})" for _ in range(rng.randint(0, 2))]
        if rng.random() < 0.35:
            canon.append("Top")
        if rng.random() < 0.25:
            canon.append("Bottom")
        rng.shuffle(canon)
        spec["canon"] = canon
    return lang


# --------------------------------------------------------------------------
# with_* switches

SWITCHES = ["with_operators", "with_types", "with_supertypes", "with_intermediate_types",
    "with_output", "with_inputs", "with_workflow_origin", "with_membership",
    "with_membership_supertypes", "with_type_parameters", "with_labels", "with_classes",
    "with_transitive_closure", "with_noncanonical_types", "with_supertype_classes",
    "with_dependencies"]


def gen_flags(rng: random.Random, vocab: bool) -> dict:
    r = rng.random()
    if r < 0.3:
        flags = {}                                        # the defaults: everything on
    elif r < 0.45:
        flags = {"minimal": True, "with_operators": True, "with_dependencies": True,
                 "with_labels": True, "with_types": True, "with_noncanonical_types": True}
    else:
        flags = {"minimal": rng.random() < 0.5}
        for s in SWITCHES:
            if rng.random() < 0.45:
                flags[s] = rng.random() < 0.7
    if vocab:
        flags["with_canonical_types"] = True              # add_taxonomy asserts it
    elif rng.random() < 0.15:
        flags["with_canonical_types"] = True
    return flags


# --------------------------------------------------------------------------
# type-directed expressions (mostly well-typed)

class ExprGen:
    def __init__(self, rng, lang: L, leaves, holes=None):
        """leaves: list of (text, type) usable as data (numbered inputs);
        holes: if a list, new numbered inputs are invented where data is needed and their
        required types are appended to it (workflow tools are generated output-first)"""
        self.rng, self.lang, self.leaves = rng, lang, leaves
        self.used = set()
        self.holes = holes

    def data(self, want, depth):
        """an expression whose type is a subtype of `want`"""
        rng, lang = self.rng, self.lang
        fits = [(txt, t) for txt, t in self.leaves if t is None or lang.sub(t, want)]
        fresh = [f for f in fits if f[0] not in self.used]
        if self.holes is not None and (depth <= 0 or rng.random() < 0.3):
            same = [i + 1 for i, t in enumerate(self.holes) if t == want]
            if same and rng.random() < 0.3:
                return str(rng.choice(same))             # the same input once more
            if len(self.holes) < 4 and rng.random() < 0.85:
                self.holes.append(want)
                return str(len(self.holes))
            return self.leaf(want)
        if depth <= 0 or rng.random() < (0.6 if fresh else 0.2):
            if fits and rng.random() < 0.8:
                txt, _ = rng.choice(fresh or fits)      # inputs not mentioned yet first
                self.used.add(txt)
                return txt
            return self.leaf(want)
        d = depth - 1
        cands = []
        for name, m in lang.meta.items():
            k = m["kind"]
            if k in ("m", "h", "c") and m["params"] and lang.sub(m["res"], want):
                if self.feasible(m) or rng.random() < 0.03:
                    cands.append(name)
            elif k in ("i", "j", "p") and not isinstance(want, tuple) \
                    and (lang.sub(want, m["bound"]) or lang.sub(m["bound"], want)):
                cands.append(name)
            elif k == "w" and isinstance(want, tuple) and want[0] == "F" and not isinstance(want[1], tuple) \
                    and lang.sub(want[1], m["bound"]):
                cands.append(name)
            elif k == "u" and not isinstance(want, tuple) and lang.sub(want, m["bound"]):
                cands.append(name)
            elif k == "k" and lang.sub(m["res"], want):
                cands.append(name)
        if not cands:
            return self.leaf(want)
        ho = [c for c in cands if lang.meta[c]["kind"] == "h"]
        name = rng.choice(ho) if ho and rng.random() < 0.45 else rng.choice(cands)
        m = lang.meta[name]
        k = m["kind"]
        if k == "k":
            return name
        if k in ("m", "h", "c"):
            args = [self.arg(p, d) for p in m["params"]]
        elif k in ("i", "j"):
            t = want if lang.sub(want, m["bound"]) else m["bound"]
            args = [self.data(t, d) for _ in m["params"]]
        elif k == "p":
            t = want if lang.sub(want, m["bound"]) else m["bound"]
            args = [self.data(t, d), self.data(m["bound2"], d)]
        elif k == "w":
            args = [self.data(want[1], d)]
        else:   # u
            args = [self.data(("F", want), d)]
        return "(" + " ".join([name] + args) + ")"

    def leaf(self, want):
        rng, lang = self.rng, self.lang
        if rng.random() < 0.07:
            return "-"                          # untyped anonymous source: unresolved variables
        if isinstance(want, tuple):
            return f"(- : {ttext(want)})"
        return f"(- : {rng.choice(lang.below(want))})"

    def arg(self, p, depth):
        if isinstance(p, tuple) and p[0] == "fn":
            return self.fun(p, depth)
        return self.data(p, depth)

    def fun_cands(self, want):
        lang = self.lang
        ps, res = want[1], want[2]
        cands = []
        for name, m in lang.meta.items():
            if m["kind"] not in ("m", "c", "h") or not m["params"]:
                continue
            mp = m["params"]
            if len(mp) < len(ps) or not lang.sub(m["res"], res):
                continue
            tail = mp[len(mp) - len(ps):]
            if any(isinstance(t, tuple) and t[0] == "fn" for t in tail):
                continue
            if all(lang.sub(a, b) for a, b in zip(ps, tail)):
                cands.append((name, mp[:len(mp) - len(ps)]))
        for name, m in lang.meta.items():
            if m["kind"] == "i" and len(ps) == 1 and lang.sub(ps[0], m["bound"]) and lang.sub(ps[0], res):
                cands.append((name, []))
        return cands

    def feasible(self, m) -> bool:
        """every function-typed parameter can be supplied by a bare operator"""
        return all(any(not pre for _, pre in self.fun_cands(p))
                   for p in m["params"] if isinstance(p, tuple) and p[0] == "fn")

    def fun(self, want, depth):
        """an expression of function type: params >= wanted params, result <= wanted result"""
        rng, lang = self.rng, self.lang
        cands = self.fun_cands(want)
        if not cands:
            return rng.choice(list(lang.meta))        # probably ill-typed: a rejection
        full = [c for c in cands if not c[1]]
        if full and (depth <= 0 or rng.random() < 0.6):
            return rng.choice(full)[0]
        cands = [c for c in cands if all(not (isinstance(t, tuple) and t[0] == "fn") or
                                         (depth > 0 and any(not pre for _, pre in self.fun_cands(t)))
                                         for t in c[1])]
        if not cands:
            return rng.choice(full)[0] if full else rng.choice(list(lang.meta))
        name, pre = rng.choice(cands)
        if not pre:
            return name
        return "(" + " ".join([name] + [self.arg(p, depth - 1) for p in pre]) + ")"


def strip(s: str) -> str:
    if s.startswith("(") and s.endswith(")"):
        n = 0
        for i, ch in enumerate(s):
            n += ch == "("
            n -= ch == ")"
            if n == 0 and i < len(s) - 1:
                return s
        return s[1:-1]
    return s


def mutilate(rng, lang: L, text: str) -> str:
    """the malformed stream: swap one operator for another, drop a parenthesis or add a
    dangling annotation (the outcome, usually an exception, must be the same everywhere)"""
    import re
    r = rng.random()
    names = list(lang.meta)
    toks = [m for m in re.finditer(r"(?<![\w.])[a-z]\d+(?![\w])", text)]
    if r < 0.7 and toks:
        m = rng.choice(toks)
        return text[:m.start()] + rng.choice(names) + text[m.end():]
    if r < 0.85 and ")" in text:
        k = text.rindex(")")
        return text[:k] + text[k + 1:]
    return text + " : " + rng.choice(lang.names)


def rand_type(rng, lang: L):
    r = rng.random()
    if lang.has_f and r < 0.15:
        return ("F", rng.choice(lang.names))
    return rng.choice(lang.names)


def gen_expr_case(rng, lang: L) -> dict:
    k = rng.randint(0, 3)
    types = [rand_type(rng, lang) if rng.random() < 0.85 else None for _ in range(k)]
    annotated = set()
    exprs = []
    for _ in range(1 if rng.random() < 0.7 else rng.randint(2, 3)):
        leaves = []
        for i, t in enumerate(types):
            num = str(i + 1)
            if t is not None and num not in annotated:
                leaves.append((f"({num} : {ttext(t)})", t))
            else:
                leaves.append((num, t))
        g = ExprGen(rng, lang, leaves)
        text = strip(g.data(rand_type(rng, lang), rng.randint(1, 4)))
        for txt in g.used:
            if ":" in txt:
                annotated.add(txt[1:].split(" ")[0])
        if rng.random() < 0.06:
            text = mutilate(rng, lang, text)
        exprs.append(text)
    return {"kind": "expr", "n_inputs": k, "exprs": exprs, "primitive": rng.random() < 0.8,
            "flags": gen_flags(rng, False)}


def gen_workflow_case(rng, lang: L) -> dict:
    """Generated output-first: the final tool's expression invents the inputs it needs
    (with the types it needs them at); each input is fed by a source - possibly one that
    another tool uses as well - or by a further tool generated the same way."""
    import re
    numre = r"(?<![\w.])(\d+)(?![\w])"
    for _ in range(40):
        budget = [rng.choice([0, 1, 2, 2, 3, 4, 5])]
        tools = []
        sources = {}            # name -> declared type | None

        def source_for(t):
            fitting = [n for n, st in sources.items() if st is not None and lang.sub(st, t)]
            if fitting and rng.random() < 0.7:
                return rng.choice(fitting)               # shared between tools
            name = f"s{len(sources)}"
            if isinstance(t, tuple):
                sources[name] = t
            else:
                sources[name] = rng.choice(lang.below(t))
            return name

        def make_tool(want, level):
            idx = len(tools)
            name = f"t{idx}"
            tools.append(None)
            for _try in range(8):
                holes = []
                g = ExprGen(rng, lang, [], holes)
                text = strip(g.data(want, rng.randint(1, 3)))
                if holes and not re.fullmatch(r"\(?\d+( : .+)?\)?", text):
                    break
            else:
                return None
            inputs = []
            for k, ht in enumerate(holes):
                if budget[0] > 0 and level < 4 and rng.random() < 0.6:
                    budget[0] -= 1
                    sub = make_tool(ht, level + 1)
                    if sub is None:
                        return None
                    inputs.append(sub)
                else:
                    src = source_for(ht)
                    inputs.append(src)
                    # only explicit annotations type a source; some uses stay bare
                    if rng.random() < 0.7:
                        ann = f"({k + 1} : {ttext(sources[src])})"
                        text = re.sub(r"(?<![\w.])%d(?![\w])" % (k + 1), lambda m: ann, text, count=1)
            tools[idx] = [name, text, inputs]
            return name

        if make_tool(rand_type(rng, lang), 0) is None or any(t is None for t in tools):
            continue
        used_src = sorted({x for _, _, ins in tools for x in ins if x.startswith("s")})
        if not used_src:
            continue
        flags = gen_flags(rng, False)
        extra = []
        if flags.get("with_inputs", not flags.get("minimal", False)) and rng.random() < 0.15:
            # (a declared source that no tool uses only gets a node when with_inputs is on)
            extra = [f"s{len(sources)}"]
        if rng.random() < 0.06:
            k = rng.randrange(len(tools))
            tools[k] = [tools[k][0], mutilate(rng, lang, tools[k][1]), tools[k][2]]
        if rng.random() < 0.05:
            # malformed: a second final application (Workflow.target must refuse, whichever
            # of the two its set iteration meets first)
            leaf = rng.choice([t for t in tools if all(i.startswith("s") for i in t[2])] or tools)
            tools.append([f"t{len(tools)}", leaf[1], list(leaf[2])])
        order = list(range(len(tools)))
        rng.shuffle(order)                               # the dict's own order is arbitrary too
        return {"kind": "workflow", "sources": used_src + extra, "tools": [tools[i] for i in order],
                "passthrough": rng.random() < 0.6, "with_vocab": False, "flags": flags}
    return None


def gen_vocab_case(rng, lang: L) -> dict:
    return {"kind": "vocab", "flags": gen_flags(rng, True)}


# languages that are always run first: the probes of DESIGN.md and what reading the code
# suggests (several constraints on one signature, unresolved variables in labels,
# sources typed from several tools)
def fixed_languages():
    spec = {"bases": [["A", None], ["B", "A"], ["C", None], ["D", None]],
            "compounds": [["F", [True]], ["G", [True, True]]],
            "ops": [
                ["pair2", "lambda x, y: (x ** y ** G(x, y))[x << [A, C], y << [C, D]]", None, None],
                # a signature without schematic variables that mentions `_`: each use has its own variable
                ["make", "lambda: A ** F(_)", None, None],
                ["pairF", "lambda x: F(x) ** x ** x", None, None],
                ["f", "A ** A", None, "doc"],
                ["g", "A ** A ** A", None, None],
                ["h", "(A ** A) ** A ** A", None, None],
                ["m", "(A ** A) ** (A ** A) ** A ** A", None, None],
                ["late", "A ** A ** A ** (A ** A) ** A", None, None],
                ["fc", "C ** A", None, None],
                ["fd", "D ** A", None, None],
                ["idx", "lambda x: (x ** x)[x <= A]", None, None],
                ["two", "lambda x, y: (x ** y ** F(x))[x <= A, y <= C]", None, None],
                ["three", "lambda x, y, z: (x ** y ** z)[x <= A, y <= C, z << [A, C, D], y << [C, D]]", None, None],
                ["mut", "lambda x, y: (x ** y)[x << [A, F(y)], y << [C, F(x)]]", None, None],
                ["wild", "lambda x: x ** F(_)", None, None],
                ["cmp", "A ** A", "lambda a: f(f(a))", None],
            ],
            "canon": ["A", "B", "C", "D", "F(A)", "Top"]}
    meta = {"f": dict(kind="m", params=["A"], res="A"), "g": dict(kind="m", params=["A", "A"], res="A"),
            "h": dict(kind="h", params=[("fn", ["A"], "A"), "A"], res="A"),
            "m": dict(kind="h", params=[("fn", ["A"], "A"), ("fn", ["A"], "A"), "A"], res="A"),
            "late": dict(kind="h", params=["A", "A", "A", ("fn", ["A"], "A")], res="A"),
            "fc": dict(kind="m", params=["C"], res="A"), "fd": dict(kind="m", params=["D"], res="A"),
            "idx": dict(kind="i", params=["x"], res="x", bound="A"),
            "two": dict(kind="e", params=None, res=None), "three": dict(kind="e", params=None, res=None),
            "mut": dict(kind="e", params=None, res=None), "wild": dict(kind="q", params=None, res=None), "pair2": dict(kind="e", params=None, res=None),
            "make": dict(kind="q", params=None, res=None), "pairF": dict(kind="e", params=None, res=None),
            "cmp": dict(kind="c", params=["A"], res="A")}
    lang = L(spec, meta)
    full = {}
    mini = {"minimal": True, "with_operators": True, "with_dependencies": True, "with_labels": True,
            "with_types": True, "with_noncanonical_types": True}
    cases = [
        {"kind": "vocab", "flags": {"with_canonical_types": True}},
        {"kind": "vocab", "flags": {"with_canonical_types": True, "with_transitive_closure": False,
                                    "with_supertype_classes": True}},
        {"kind": "expr", "n_inputs": 0, "exprs": ["h f (-: A)"], "primitive": True, "flags": full},
        {"kind": "expr", "n_inputs": 1, "exprs": ["m f (g 1) (idx (1: B))", "g 1 (cmp 1)"], "primitive": True, "flags": full},
        {"kind": "expr", "n_inputs": 2, "exprs": ["two 1 2", "three 1 2", "idx -", "wild (1: B)"], "primitive": True, "flags": mini},
        {"kind": "expr", "n_inputs": 1, "exprs": ["g (f 1) (g (f 1) (-: A))"], "primitive": True, "flags": mini},
        # the wildcard of `make` is inferred differently by an unrelated expression in between
        {"kind": "expr", "n_inputs": 0, "exprs": ["make (-: A)"], "primitive": True, "flags": mini},
        {"kind": "expr", "n_inputs": 0, "exprs": ["pairF (make (-: A)) (-: C)", "pairF (make (-: B)) (-: D)"],
         "primitive": True, "flags": mini},
        {"kind": "expr", "n_inputs": 0, "exprs": ["make (-: B)"], "primitive": False, "flags": full},
        # two unresolved variables, each with its own pending constraint, in one label
        {"kind": "expr", "n_inputs": 2, "exprs": ["pair2 1 2"], "primitive": True, "flags": mini},
        {"kind": "expr", "n_inputs": 2, "exprs": ["pair2 2 1", "pair2 1 2"], "primitive": False, "flags": mini},
        {"kind": "expr", "n_inputs": 2, "exprs": ["late 1 (f 2) (- : A) f", "late (g 1 2) 1 (f 1) (h (late 1 2 1 f))"],
         "primitive": True, "flags": mini},
        {"kind": "workflow", "sources": ["s0", "s1"], "passthrough": True, "with_vocab": False, "flags": full,
         "tools": [["t0", "f (1: A)", ["s0"]], ["t1", "g 1 (f 2)", ["t0", "s1"]], ["t2", "g 1 2", ["t1", "t0"]]]},
        {"kind": "workflow", "sources": ["s0", "s1"], "passthrough": False, "with_vocab": False, "flags": full,
         "tools": [["t0", "h f (1: A)", ["s0"]], ["t1", "h (g 1) 2", ["t0", "s1"]]]},
        # one source used by several tools, annotated in some and not in others
        {"kind": "workflow", "sources": ["s0"], "passthrough": True, "with_vocab": False, "flags": full,
         "tools": [["t0", "f (1: B)", ["s0"]], ["t1", "idx 1", ["s0"]], ["t2", "g 1 2", ["t0", "t1"]]]},
        {"kind": "workflow", "sources": ["s0"], "passthrough": False, "with_vocab": False, "flags": mini,
         "tools": [["t0", "idx 1", ["s0"]], ["t1", "f (1: B)", ["s0"]], ["t2", "idx 1", ["s0"]],
                   ["t3", "g 1 (g 2 3)", ["t0", "t1", "t2"]]]},
        # ... without annotation, with a supertype, with a subtype: Workflow.source_types of the
        # pinned tree makes the source's type depend on the order tool_outputs is iterated in
        {"kind": "workflow", "sources": ["s0"], "passthrough": True, "with_vocab": False, "flags": full,
         "tools": [["t0", "f 1", ["s0"]], ["t1", "f (1: A)", ["s0"]], ["t2", "f (1: B)", ["s0"]],
                   ["t3", "g 1 (g 2 3)", ["t0", "t1", "t2"]]]},
        {"kind": "workflow", "sources": ["s0", "s1"], "passthrough": False, "with_vocab": False, "flags": mini,
         "tools": [["t0", "g 1 2", ["s0", "s1"]], ["t1", "idx (1: B)", ["s0"]], ["t2", "g (1: A) (2: B)", ["s0", "s1"]],
                   ["t3", "m f (g 1) (g 2 3)", ["t0", "t1", "t2"]]]},
    ]
    return [(lang, cases)]
