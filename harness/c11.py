"""C11  A task query matches exactly the workflows that contain the described flow.

proof stage     coq/props/C11.v, coq/props/C11_mono.v
correspondence  TransformationQuery(...).sparql() of /repo, read back into a list of
                conjuncts, vs the Gallina generator Query/Gen.v on the same task (up to
                renaming of variables); verdicts of rdflib on the generated query, of
                rdflib and of an independent matcher on the query flattened to a plain
                basic graph pattern (whole and per component), and of the proved
                decision procedure Bgp.matcho on the model's conjuncts over the same graph
oracle          `assignable`: the property's sentence evaluated by brute force on the
                implementation's graph, independent of the generated patterns; plus
                self-match, monotonicity, absence and vocabulary checks
"""
from __future__ import annotations

import functools
import itertools
import json
import random
import re
import time
from collections import Counter

from . import common as C

PID = "C11"
NS = "https://example.com/c11#"
SIG_MEMBERSHIP = "graph-emits-containsOperator-query-and-vocabulary-use-containsOperation"
SIG_BAG = "type-prefilter-reduced-by-pinned-Bag.add(C20)"
SIG_SUPER = "graph-misses-a-canonical-supertype(C07/C10)"
MAX_NODES = 14


# --------------------------------------------------------------------------
# languages

class Lang11:
    """A generated language: base-type forest, compound type operators, a set of
    canonical types, first-order operators with concrete signatures and a few
    operators taking a function."""

    def __init__(self, h: C.Hierarchy, canon_req: list, top: bool, fops: list[dict]):
        self.h = h
        self.canon_req = canon_req      # requested canonical types (trees)
        self.top = top
        self.fops = fops                # {name, params: [ty], result: ty, fparam: None | (a, b)}

    def to_json(self):
        return {"hierarchy": self.h.to_json(), "canon_req": self.canon_req, "top": self.top,
                "operators": self.fops}

    @staticmethod
    def from_json(d) -> "Lang11":
        def tt(x):
            return (x[0], [tt(a) for a in x[1]])
        fops = []
        for o in d["operators"]:
            fops.append({"name": o["name"], "params": [tt(p) for p in o["params"]],
                "result": tt(o["result"]),
                "fparam": None if o["fparam"] is None else (tt(o["fparam"][0]), tt(o["fparam"][1]))})
        return Lang11(C.Hierarchy.from_json(d["hierarchy"]), [tt(x) for x in d["canon_req"]],
            d["top"], fops)

    def build(self):
        import transforge.type as T
        from transforge.expr import Operator
        from transforge.lang import Language
        ops = self.h.build()
        self.inv = {id(op): i for i, op in ops.items()}
        scope = {ops[i].name: ops[i] for i in self.h.ids}
        self.pyops = []
        for o in self.fops:
            t = self.h.inst(o["result"])
            for p in reversed(o["params"]):
                t = self.h.inst(p) ** t
            if o["fparam"] is not None:
                a, b = o["fparam"]
                t = (self.h.inst(a) ** self.h.inst(b)) ** t
            op = Operator(type=t, name=o["name"])
            self.pyops.append(op)
            scope[o["name"]] = op
        canon = set()
        if self.top:
            canon.add(T.Top)
        for t in self.canon_req:
            canon.add(self.h.inst(t) if t[1] else ops[t[0]])
        self.lang = Language(scope, namespace=NS, canon=canon)
        self.canon = [self.tree(t) for t in self.lang.canon]
        self.canon.sort(key=repr)
        self.uri2ty = {self.lang.uri(self.h.inst(t)): t for t in self.canon}
        self.ty2uri = {repr(t): u for u, t in self.uri2ty.items()}
        self.uri2op = {self.lang.uri(op): i for i, op in enumerate(self.pyops)}
        self.op2uri = {i: u for u, i in self.uri2op.items()}
        self.names = self.h.names()
        return self.lang

    def tree(self, t):
        """transforge TypeOperation -> (op, args)"""
        t = t.follow()
        return (self.inv[id(t.operator)], [self.tree(p) for p in t.params])

    def sub(self, a, b) -> bool:
        return bool(self.h.inst(a).is_subtype(self.h.inst(b)))

    def is_canon(self, t) -> bool:
        return repr(t) in self.ty2uri

    def tstr(self, t, wild=False) -> str:
        o, args = t
        if o == 0 and wild:
            return "_"
        n = self.names[o]
        return n + ("(" + ", ".join(self.tstr(a, wild) for a in args) + ")" if args else "")


def gen_language(rng: random.Random) -> Lang11:
    nbase = rng.randint(2, 6)
    parents, depth = {}, {}
    for i in range(5, 5 + nbase):
        cands = [j for j in range(5, i) if depth[j] < 3]
        if cands and rng.random() < 0.65:
            p = rng.choice(cands)
            parents[i] = p
            depth[i] = depth[p] + 1
        else:
            depth[i] = 0
    variances = {}
    for k in range(rng.choice([0, 1, 1, 2])):
        variances[5 + nbase + k] = [rng.random() < 0.75 for _ in range(rng.choice([1, 1, 2]))]
    h = C.Hierarchy(parents, variances, nbase)
    bases = [(i, []) for i in range(5, 5 + nbase)]
    top = rng.random() < 0.8
    canon_req = list(bases)
    leafpool = bases + ([(0, [])] if top else [])
    comps = []
    for k, vs in variances.items():
        for _ in range(rng.randint(1, 3)):
            t = (k, [rng.choice(leafpool) for _ in vs])
            if rng.random() < 0.15 and len(vs) == 1 and comps:
                t = (k, [rng.choice(comps)])
            if t not in comps:
                comps.append(t)
    canon_req += comps
    pool = bases + comps + comps
    fops = []
    for j in range(rng.randint(3, 6)):
        fops.append({"name": f"f{j}", "params": [rng.choice(pool) for _ in range(rng.choice([1, 1, 2, 2, 3]))],
            "result": rng.choice(pool), "fparam": None})
    for j in range(rng.choice([0, 0, 1, 2])):
        fops.append({"name": f"h{j}", "params": [rng.choice(pool) for _ in range(rng.choice([0, 1, 1, 2]))],
            "result": rng.choice(pool), "fparam": (rng.choice(pool), rng.choice(pool))})
    return Lang11(h, canon_req, top, fops)


# --------------------------------------------------------------------------
# workflows: expression trees  ('src', k) | ('app', opidx, [args]) | ('fn', opidx)

class Wf:
    pass


def _gen_tree(rng, L: Lang11, target, depth, sources: list):
    cands = [i for i, o in enumerate(L.fops) if L.sub(o["result"], target)]
    if depth <= 0 or not cands or rng.random() < 0.22:
        same = [k for k, t in enumerate(sources) if L.sub(t, target)]
        if same and rng.random() < 0.3:
            return ("src", rng.choice(same))
        subs = [t for t in L.canon if t[0] != 1 and L.sub(t, target)]
        t = target if (rng.random() < 0.5 or not subs) else rng.choice(subs)
        sources.append(t)
        return ("src", len(sources) - 1)
    i = rng.choice(cands)
    o = L.fops[i]
    args = []
    if o["fparam"] is not None:
        a, b = o["fparam"]
        fs = [j for j, g in enumerate(L.fops) if g["fparam"] is None and len(g["params"]) == 1
              and L.sub(a, g["params"][0]) and L.sub(g["result"], b)]
        if not fs:
            return _gen_tree(rng, L, target, 0, sources)
        args.append(("fn", rng.choice(fs)))
    for p in o["params"]:
        args.append(_gen_tree(rng, L, p, depth - 1, sources))
    return ("app", i, args)


def _render(L: Lang11, e, inputs: dict, annotate: dict | None = None, top=True) -> str:
    """inputs: subtree-id / source key -> argument number"""
    if not top and id(e) in inputs:
        return str(inputs[id(e)])
    if e[0] == "src":
        k = inputs[("src", e[1])]
        if annotate is not None and ("src", e[1]) in annotate:
            return f"({k} : {annotate[('src', e[1])]})"
        return str(k)
    if e[0] == "fn":
        return L.fops[e[1]]["name"]
    return "(" + " ".join([L.fops[e[1]]["name"]] + [_render(L, a, inputs, annotate, False) for a in e[2]]) + ")"


def _subtrees(e):
    if e[0] == "app":
        yield e
        for a in e[2]:
            yield from _subtrees(a)


def _sources_of(e, stop=()):
    if e[0] == "src":
        yield e[1]
    elif e[0] == "app":
        for a in e[2]:
            if id(a) in stop:
                continue
            yield from _sources_of(a, stop)


def gen_workflow(rng: random.Random, L: Lang11, idx: int, kind: str | None = None):
    """Generate an expression over L and the recipe to turn it into a transformation
    graph: with add_expr (as tests/test_query.py does) or with add_workflow over several
    tool applications.  Returns a built Wf (W.graph is None when the library rejects it)."""
    for _attempt in range(6):
        sources: list = []
        target = L.fops[rng.randrange(len(L.fops))]["result"]
        tree = _gen_tree(rng, L, target, rng.choice([1, 2, 2, 3, 3, 4]), sources)
        if tree[0] == "app":
            break
    else:
        return None
    kind = kind or rng.choice(["expr", "expr", "workflow"])
    if kind == "expr":
        used = sorted(set(_sources_of(tree)))
        inputs = {("src", k): n + 1 for n, k in enumerate(used)}
        recipe = {"kind": "expr", "text": _render(L, tree, inputs),
                  "sources": [sources[k] for k in used]}
    else:
        # cut some proper subtrees out as separate tool applications
        subs = [s for s in _subtrees(tree) if s is not tree]
        cuts = [s for s in subs if rng.random() < 0.4][:3]
        cut_ids = {id(s) for s in cuts}
        res = {id(s): f"r{n}" for n, s in enumerate(cuts)}
        res[id(tree)] = "out"
        apps = {}
        for s in cuts + [tree]:
            inner = cut_ids - {id(s)}
            ins: list = []
            inputs: dict = {}
            annotate = {}

            def walk(e, top=True):
                if e[0] == "src":
                    if ("src", e[1]) not in inputs:
                        ins.append(f"s{e[1]}")
                        inputs[("src", e[1])] = len(ins)
                        annotate[("src", e[1])] = L.tstr(sources[e[1]])
                elif e[0] == "app":
                    if not top and id(e) in inner:
                        if id(e) not in inputs:
                            ins.append(res[id(e)])
                            inputs[id(e)] = len(ins)
                        return
                    for a in e[2]:
                        walk(a, False)
            walk(s)
            apps[res[id(s)]] = [_render(L, s, inputs, annotate), ins]
        recipe = {"kind": "workflow", "apps": apps}
    return build_workflow(L, recipe, idx)


def build_workflow(L: Lang11, recipe: dict, idx: int):
    from rdflib import URIRef
    from rdflib.namespace import RDF
    from transforge.expr import Source
    from transforge.graph import TransformationGraph
    from transforge.namespace import TF
    from transforge.workflow import WorkflowDict
    root = URIRef(f"{NS}wf{idx}")
    W = Wf()
    W.kind, W.root, W.recipe, W.idx = recipe["kind"], root, recipe, idx
    g = TransformationGraph(L.lang)
    try:
        if W.kind == "expr":
            srcs = [(t[0], [x for x in t[1]]) for t in map(_tt, recipe["sources"])]
            e = L.lang.parse_expr(recipe["text"], *[Source(L.h.inst(t)) for t in srcs])
            out = g.add_expr(e, root)
            g.add((root, RDF.type, TF.Transformation))
            g.add((root, TF.output, out))
            W.text = recipe["text"] + "  with " + ", ".join(
                f"{n + 1} : {L.tstr(t)}" for n, t in enumerate(srcs))
        else:
            def u(name):
                return URIRef(f"{NS}wf{idx}_{name}")
            apps = {u(r): (text, [u(i) for i in ins]) for r, (text, ins) in recipe["apps"].items()}
            used = {u(i) for _, ins in recipe["apps"].values() for i in ins if i.startswith("s")}
            g.add_workflow(WorkflowDict(root, apps, sources=used))
            W.text = "; ".join(f"{r} = {text} <- {ins}" for r, (text, ins) in recipe["apps"].items())
    except Exception as e:  # generator produced something the library rejects
        W.error = f"{type(e).__name__}: {e}"
        W.graph = None
        W.text = json.dumps(recipe)
        return W
    W.error = None
    W.graph = g
    index_graph(L, W)
    if len(W.nodes) > MAX_NODES:
        W.error = "TooLarge: more than %d concept nodes" % MAX_NODES
        W.graph = None
        return W
    repair_supertypes(L, W)
    return W


def repair_supertypes(L: Lang11, W) -> None:
    """C07/C10 (not C11) state that a node carries ALL canonical supertypes of its type and
    that containsType is closed under them.  Where the implementation's graph misses some,
    that is reported once per workflow under its own signature, and the remaining checks run
    on the graph with the missing triples added (W.graph_orig keeps the original)."""
    from rdflib import Graph
    from transforge.namespace import TF
    missing = []
    for n in W.nodes:
        if n in W.type and L.is_canon(W.type[n]):
            have = {repr(s) for s in W.sups[n]}
            for s_ in canon_supers(L, W.type[n], strict=False):
                if repr(s_) not in have:
                    missing.append((n, s_))
    W.missing = missing
    W.graph_orig = None
    if not missing:
        return
    W.graph_orig = Graph()
    for t in W.graph:
        W.graph_orig.add(t)
    for n, s_ in missing:
        W.graph.add((n, TF.subtypeOf, L.ty2uri[repr(s_)]))
    for n in W.nodes:
        for o in list(W.graph.objects(n, TF.subtypeOf)):
            W.graph.add((W.root, TF.containsType, o))
    index_graph(L, W)


def _tt(x):
    return (x[0], [_tt(a) for a in x[1]])


def index_graph(L: Lang11, W) -> None:
    """Read the facts the property talks about off the implementation's graph."""
    from transforge.namespace import TF
    g, root = W.graph, W.root
    FROM = TF["from"]
    nodes = []

    def add(n):
        if n not in nodes:
            nodes.append(n)
    for o in g.objects(root, TF.output):
        add(o)
    frontier = list(nodes)
    while frontier:
        n = frontier.pop(0)
        for m in sorted(g.objects(n, FROM), key=str):
            if m not in nodes:
                add(m)
                frontier.append(m)
    for s, o in sorted(g.subject_objects(FROM), key=lambda so: (str(so[0]), str(so[1]))):
        add(s)
        add(o)
    for o in sorted(g.objects(root, TF.input), key=str):
        add(o)
    for s in sorted(set(g.subjects(TF.via)) | set(g.subjects(TF.type)), key=str):
        add(s)
    # BNode labels are random: number nodes by a structural walk (first by
    # reachability from the output, above) so that replays are stable enough
    W.nodes = nodes
    W.num = {n: i for i, n in enumerate(nodes)}
    W.outputs = list(g.objects(root, TF.output))
    W.inputs = list(g.objects(root, TF.input))
    W.froms = {n: list(g.objects(n, FROM)) for n in nodes}
    W.consumers = {n: list(g.subjects(FROM, n)) for n in nodes}
    W.op = {}
    W.type = {}
    for n in nodes:
        v = [L.uri2op[o] for o in g.objects(n, TF.via) if o in L.uri2op]
        if v:
            W.op[n] = v[0] if len(v) == 1 else tuple(sorted(v))
        t = [L.uri2ty[o] for o in g.objects(n, TF.type) if o in L.uri2ty]
        if t:
            W.type[n] = t[0]
    W.sups = {n: [L.uri2ty[o] for o in g.objects(n, TF.subtypeOf) if o in L.uri2ty] for n in nodes}
    # dependencies recomputed as the transitive closure of from (not read from tf:depends)
    deps = {}
    for n in nodes:
        seen, todo = [], list(W.froms[n])
        while todo:
            m = todo.pop()
            if m not in seen:
                seen.append(m)
                todo += W.froms[m]
        deps[n] = seen
    W.deps = deps
    W.dep_triples = {(s, o) for s, o in g.subject_objects(TF.depends)}
    W.all_ops = sorted({L.uri2op[o] for o in g.objects(None, TF.via) if o in L.uri2op})


# --------------------------------------------------------------------------
# tasks: {"steps": {sid: {"types": [ty], "ops": [opidx], "from": [sid], "input": bool}},
#         "outs": [sid], "origin": {sid: node number} }

def _step_info(rng, L: Lang11, W, n, mode=None):
    """What a task step may say about workflow node n without losing the match."""
    types, ops = [], []
    mode = mode or rng.choice(["both", "both", "type", "type", "op", "none"])
    if mode in ("both", "type") and W.sups[n]:
        r = rng.random()
        if r < 0.5 and n in W.type:
            types = [W.type[n]]
        else:
            types = [rng.choice(W.sups[n])]
        if rng.random() < 0.12:      # alternatives
            extra = rng.choice(L.canon)
            if extra not in types and extra[0] != 1:
                types.append(extra)
    if mode in ("both", "op") and n in W.op and not isinstance(W.op[n], tuple):
        ops = [W.op[n]]
        if rng.random() < 0.15:
            extra = rng.randrange(len(L.fops))
            if extra not in ops:
                ops.append(extra)
    return types, ops


def derive_task(rng: random.Random, L: Lang11, W, penultimate=True, dag=None, max_steps=7):
    """Sub-sample a task from W's own graph: every step comes from a concept node, every
    from-edge of the task follows the node's dependencies."""
    dag = rng.random() < 0.45 if dag is None else dag
    steps, origin, memo = {}, {}, {}
    cnt = itertools.count()

    def mk(n, depth, parent_bare):
        if dag and n in memo and rng.random() < 0.8:
            return memo[n]
        sid = next(cnt)
        types, ops = _step_info(rng, L, W, n)
        steps[sid] = {"types": types, "ops": ops, "from": [], "input": False}
        origin[sid] = W.num[n]
        memo[n] = sid
        if n in W.inputs and rng.random() < 0.5:
            steps[sid]["input"] = True
        if depth > 0 and W.deps[n]:
            k = rng.choice([1, 1, 1, 2, 2, 3])
            direct = W.froms[n]
            for _ in range(k):
                if len(steps) >= max_steps:
                    break
                m = rng.choice(direct) if (direct and rng.random() < 0.6) else rng.choice(W.deps[n])
                c = mk(m, depth - 1, False)
                if c not in steps[sid]["from"] and c != sid:
                    steps[sid]["from"].append(c)
        return sid

    out = W.outputs[0]
    start = out
    if penultimate and W.froms[out] and rng.random() < 0.2:
        start = rng.choice(W.froms[out])
    o = mk(start, rng.choice([0, 1, 1, 2, 2, 3, 3]), False)
    T = {"steps": steps, "outs": [o], "origin": origin}
    if dag:
        # share steps: a step may precede several others as long as its node is a
        # dependency of theirs (DAG-shaped tasks)
        ids = list(steps)
        want, tries = rng.choice([1, 1, 2, 3]), 0
        while want and tries < 12:
            tries += 1
            p, c = rng.choice(ids), rng.choice(ids)
            if p == c or c in steps[p]["from"] or c == o:
                continue
            if W.nodes[origin[c]] in W.deps[W.nodes[origin[p]]]:
                steps[p]["from"].append(c)
                if not acyclic(T):
                    steps[p]["from"].pop()
                else:
                    want -= 1
    return T if acyclic(T) else derive_task(rng, L, W, penultimate, False, max_steps)


def acyclic(T) -> bool:
    state = {}

    def visit(s):
        if state.get(s) == 1:
            return False
        if state.get(s) == 2:
            return True
        state[s] = 1
        ok = all(visit(c) for c in T["steps"][s]["from"])
        state[s] = 2
        return ok
    return all(visit(o) for o in T["outs"])


def is_tree(T) -> bool:
    if not acyclic(T):
        return False
    seen = Counter()

    def visit(s):
        seen[s] += 1
        for c in T["steps"][s]["from"]:
            visit(c)
    for o in T["outs"]:
        visit(o)
    return all(v == 1 for v in seen.values())


def reachable(T) -> list:
    seen = []

    def visit(s):
        if s not in seen:
            seen.append(s)
            for c in T["steps"][s]["from"]:
                visit(c)
    for o in T["outs"]:
        visit(o)
    return seen


def copy_task(T):
    return {"steps": {s: {"types": list(d["types"]), "ops": list(d["ops"]), "from": list(d["from"]),
                          "input": d["input"]} for s, d in T["steps"].items()},
            "outs": list(T["outs"]), "origin": dict(T.get("origin", {}))}


def task_text(L: Lang11, T) -> str:
    def st(s, seen):
        d = T["steps"][s]
        items = [L.tstr(t) for t in d["types"]] + [L.fops[o]["name"] for o in d["ops"]]
        if d["input"]:
            items.append("<input>")
        if s in seen:
            return f"#{s}"
        seen = seen | {s}
        items += [st(c, seen) for c in d["from"]]
        return f"#{s}[" + ", ".join(items) + "]"
    return " & ".join(st(o, frozenset()) for o in T["outs"])


# --------------------------------------------------------------------------
# writing a task down: URIs, nested lists, string shortcuts

def _wild_type(L: Lang11, t, wild: bool):
    """transforge type for tree t; with wild, Top is written as the wildcard `_`."""
    import transforge.type as T
    o, args = t
    if o == 0 and wild:
        return T._
    if not args:
        return L.h.ops[o]() if o != 0 else T.Top()
    return L.h.ops[o](*(_wild_type(L, a, wild) for a in args))


def write_graph(L: Lang11, T, style: str):
    """style 'uri': tf:type / tf:via with URIs; 'short': lang:type "F(A, _)" / lang:via "f"."""
    from rdflib import BNode, Literal
    from rdflib.namespace import RDF
    from transforge.graph import TransformationGraph
    from transforge.namespace import TF
    ns = L.lang.namespace
    g = TransformationGraph(L.lang)
    root = BNode()
    g.add((root, RDF.type, TF.Task))
    node = {s: BNode() for s in T["steps"]}
    for s, d in T["steps"].items():
        for t in d["types"]:
            if style == "short":
                g.add((node[s], ns.type, Literal(L.tstr(t, wild=True))))
            else:
                g.add((node[s], TF.type, L.ty2uri[repr(t)]))
        for o in d["ops"]:
            if style == "short":
                g.add((node[s], ns.via, Literal(L.fops[o]["name"])))
            else:
                g.add((node[s], TF.via, L.op2uri[o]))
        for c in d["from"]:
            g.add((node[s], TF["from"], node[c]))
        if d["input"]:
            g.add((root, TF.input, node[s]))
    for o in T["outs"]:
        g.add((root, TF.output, node[o]))
    return g, root


def write_list(L: Lang11, T, wild: bool):
    """The nested-list form for TransformationQuery.from_list (trees with one output and
    no input marks only)."""
    def aspects(s):
        d = T["steps"][s]
        r = [_wild_type(L, t, wild) for t in d["types"]]
        r += [L.pyops[o] for o in d["ops"]]
        r += [aspects(c) for c in d["from"]]
        return r
    return aspects(T["outs"][0])


def listable(T) -> bool:
    return len(T["outs"]) == 1 and is_tree(T) and not any(d["input"] for d in T["steps"].values())


SWITCHES = ["by_io", "by_types", "by_operators", "by_chronology", "by_penultimate_output",
            "by_second_input", "unfold_tree"]
DEFAULT_SW = {"by_io": True, "by_types": True, "by_operators": True, "by_chronology": True,
              "by_penultimate_output": True, "by_second_input": False, "unfold_tree": False}


def make_query(L: Lang11, T, style: str, sw: dict):
    from transforge.query import TransformationQuery
    if style in ("list", "listwild"):
        return TransformationQuery.from_list(L.lang, write_list(L, T, style == "listwild"), **sw)
    g, root = write_graph(L, T, style)
    return TransformationQuery(L.lang, g, **sw)


# --------------------------------------------------------------------------
# reading the generated SPARQL text back

TOKEN = re.compile(r"""\s*(?:(<[^>]*>)|(\?[A-Za-z0-9_]+)|([A-Za-z]*:[A-Za-z0-9_\-]*)|([A-Za-z]+)|([{}.()/^?*]))""")
TFNS = "https://github.com/quangis/transforge#"
PREFIXES = {"": TFNS, "rdfs": "http://www.w3.org/2000/01/rdf-schema#",
            "rdf": "http://www.w3.org/1999/02/22-rdf-syntax-ns#"}
RDF_TYPE = "http://www.w3.org/1999/02/22-rdf-syntax-ns#type"


class QueryReadError(Exception):
    pass


def tokenize(text: str):
    pos, out = 0, []
    while pos < len(text):
        if text[pos:].strip() == "":
            break
        m = TOKEN.match(text, pos)
        if not m:
            raise QueryReadError(f"cannot tokenize at {text[pos:pos + 40]!r}")
        iri, var, pname, word, punct = m.groups()
        if iri:
            out.append(("iri", iri[1:-1]))
        elif var:
            out.append(("var", var[1:]))
        elif pname:
            out.append(("pname", pname))
        elif word:
            out.append(("word", word))
        else:
            out.append(("p", punct))
        pos = m.end()
    return out


def read_query(text: str):
    """Parse the fragment query.py emits.  Returns (base, tree) where tree is a list of
    elements: ('tp', s, path, o) | ('union', [group, ...]) | ('graph', var, group)
    | ('select', group) | ('group', group);  terms are ('var', n) | ('iri', full);
    paths are ('lnk', p) | ('opt', p) | ('seqopt', p, q) | ('seqinvopt', p, q)."""
    toks = tokenize(text)
    i = 0
    base = ""
    prefixes = dict(PREFIXES)

    def peek(k=0):
        return toks[i + k] if i + k < len(toks) else ("eof", "")

    def take(kind=None, val=None):
        nonlocal i
        t = peek()
        if (kind and t[0] != kind) or (val is not None and t[1] != val):
            raise QueryReadError(f"expected {kind} {val}, got {t} at token {i}")
        i += 1
        return t

    def iri_of(t):
        if t[0] == "iri":
            u = t[1]
            if "://" not in u:
                u = base + u
            return u
        if t[0] == "pname":
            pre, loc = t[1].split(":", 1)
            if pre not in prefixes:
                raise QueryReadError(f"unknown prefix {pre}")
            return prefixes[pre] + loc
        if t == ("word", "a"):
            return RDF_TYPE
        raise QueryReadError(f"not an IRI: {t}")

    def term():
        t = take()
        if t[0] == "var":
            return ("var", t[1])
        return ("iri", iri_of(t))

    def path():
        p = iri_of(take())
        if peek() == ("p", "?"):
            take()
            return ("opt", p)
        if peek() == ("p", "/"):
            take()
            inv = False
            if peek() == ("p", "^"):
                take()
                inv = True
            q = iri_of(take())
            take("p", "?")
            return ("seqinvopt", p, q) if inv else ("seqopt", p, q)
        return ("lnk", p)

    def group():
        take("p", "{")
        if peek()[0] == "word" and peek()[1].upper() == "SELECT":
            el = [("select", select())]
            take("p", "}")
            return el
        els = []
        while peek() != ("p", "}"):
            t = peek()
            if t[0] == "word" and t[1].upper() == "GRAPH":
                take()
                v = term()
                els.append(("graph", v, group()))
            elif t == ("p", "{"):
                gs = [group()]
                while peek()[0] == "word" and peek()[1].upper() == "UNION":
                    take()
                    gs.append(group())
                els.append(("union", gs) if len(gs) > 1 else ("group", gs[0]))
            elif t[0] == "word" and t[1].upper() in ("FILTER", "OPTIONAL", "MINUS", "BIND", "VALUES"):
                raise QueryReadError(f"outside the modelled fragment: {t[1]}")
            else:
                s = term()
                pa = path()
                o = term()
                els.append(("tp", s, pa, o))
                if peek() == ("p", "."):
                    take()
        take("p", "}")
        return els

    def select():
        take("word")
        while peek() != ("word", "WHERE") and peek()[0] != "eof" and peek() != ("p", "{"):
            take()
        if peek() == ("word", "WHERE"):
            take()
        g = group()
        while peek()[0] == "word" and peek()[1].upper() in ("GROUP", "BY"):
            take()
            if peek()[0] == "var":
                take()
        return g

    while peek()[0] == "word" and peek()[1].upper() in ("BASE", "PREFIX"):
        w = take()[1].upper()
        if w == "BASE":
            base = take("iri")[1]
        else:
            pn = take("pname")[1]
            prefixes[pn[:-1]] = take("iri")[1]
    tree = select()
    if peek()[0] != "eof":
        raise QueryReadError(f"trailing tokens: {toks[i:i + 5]}")
    return base, tree


def flatten(tree):
    """The query as a plain basic graph pattern: GRAPH and sub-SELECT wrappers are
    dissolved.  Returns (prefilter conjuncts, flow conjuncts, graph variable); a
    conjunct is ('tp', s, path, o) or ('alt', [(s, path, o), ...])."""
    pre, flow = [], []
    gvar = [None]

    def conj(el):
        if el[0] == "tp":
            return [("tp",) + el[1:]]
        if el[0] == "union":
            alts = []
            for g in el[1]:
                if len(g) != 1 or g[0][0] != "tp":
                    raise QueryReadError("UNION of something else than single triple patterns")
                alts.append(g[0][1:])
            return [("alt", alts)]
        raise QueryReadError(f"unexpected element {el[0]}")

    def walk(els, into):
        for el in els:
            if el[0] == "graph":
                gvar[0] = el[1]
                walk(el[2], into)
            elif el[0] == "select":
                walk(el[1], pre)
            elif el[0] == "group":
                walk(el[1], into)
            else:
                into.extend(conj(el))
    walk(tree, flow)
    return pre, flow, gvar[0]


# --------------------------------------------------------------------------
# conjuncts in a common vocabulary (implementation text and model output)

PRED_NAMES = ["rdf:type", "output", "input", "from", "depends", "via", "subtypeOf",
              "containsType", "containsOperation", "containsOperator"]
PRED_URI = {RDF_TYPE: 0}
for _i, _n in enumerate(PRED_NAMES):
    if _i:
        PRED_URI[TFNS + _n] = _i


def norm_conjuncts(L: Lang11, conjs, gvar):
    """Implementation conjuncts -> tuples over ('v', name) | ('wf',) | ('transformation',) |
    ('ty', repr) | ('op', i) | ('iri', u); predicates by number (or the full IRI)."""
    from rdflib import URIRef

    def term(t):
        if t[0] == "var":
            return ("wf",) if gvar is not None and t == gvar else ("v", t[1])
        u = URIRef(t[1])
        if t[1] == TFNS + "Transformation":
            return ("transformation",)
        if u in L.uri2ty:
            return ("ty", repr(L.uri2ty[u]))
        if u in L.uri2op:
            return ("op", L.uri2op[u])
        return ("iri", t[1])

    def path(p):
        return (p[0],) + tuple(PRED_URI.get(x, x) for x in p[1:])

    def tp(t):
        return (term(t[0]), path(t[1]), term(t[2]))
    out = []
    for c in conjs:
        if c[0] == "tp":
            out.append(("tp", tp(c[1:])))
        else:
            out.append(("alt", frozenset(tp(a) for a in c[1])))
    return out


def decode_model(rows):
    """rows of numbers (see HDR) -> conjuncts in the same vocabulary."""
    def dec_ty(xs, i):
        o, n = xs[i], xs[i + 1]
        i += 2
        args = []
        for _ in range(n):
            a, i = dec_ty(xs, i)
            args.append(a)
        return (o, args), i

    def dec_term(xs, i):
        if xs[i] == 0:
            return ("v", xs[i + 1]), i + 2
        k = xs[i + 1]
        i += 2
        if k == 0:
            return ("wf",), i
        if k == 1:
            return ("transformation",), i
        if k == 2:
            return ("node", xs[i]), i + 1
        if k == 3:
            t, i = dec_ty(xs, i)
            return ("ty", repr(t)), i
        if k == 4:
            return ("op", xs[i]), i + 1
        return ("other", xs[i]), i + 1

    def dec_path(xs, i):
        k = xs[i]
        if k == 0:
            return ("lnk", xs[i + 1]), i + 2
        if k == 1:
            return ("opt", xs[i + 1]), i + 2
        return (("seqopt" if k == 2 else "seqinvopt"), xs[i + 1], xs[i + 2]), i + 3

    def dec_tp(xs, i):
        s, i = dec_term(xs, i)
        p, i = dec_path(xs, i)
        o, i = dec_term(xs, i)
        return (s, p, o), i
    out = []
    for xs in rows:
        if xs[0] == 0:
            t, i = dec_tp(xs, 1)
            assert i == len(xs)
            out.append(("tp", t))
        else:
            n, i, alts = xs[1], 2, []
            for _ in range(n):
                t, i = dec_tp(xs, i)
                alts.append(t)
            assert i == len(xs)
            out.append(("alt", frozenset(alts)))
    return out


def _vars_of(c):
    tps = [c[1]] if c[0] == "tp" else list(c[1])
    r = []
    for s, _, o in tps:
        for t in (s, o):
            if t[0] == "v" and t[1] not in r:
                r.append(t[1])
    return r


def _rename(c, m):
    def term(t):
        return ("v", m[t[1]]) if t[0] == "v" else t
    if c[0] == "tp":
        s, p, o = c[1]
        return ("tp", (term(s), p, term(o)))
    return ("alt", frozenset((term(s), p, term(o)) for s, p, o in c[1]))


def _shape(c):
    def term(t):
        return ("v",) if t[0] == "v" else t
    if c[0] == "tp":
        s, p, o = c[1]
        return ("tp", term(s), p, term(o))
    return ("alt", tuple(sorted(repr((term(s), p, term(o))) for s, p, o in c[1])))


def iso_conjuncts(P, Q) -> bool:
    """Are the two conjunct SETS equal up to a bijective renaming of variables?"""
    P, Q = set(P), set(Q)
    if len(P) != len(Q):
        return False
    if Counter(map(_shape, P)) != Counter(map(_shape, Q)):
        return False
    pv = sorted({v for c in P for v in _vars_of(c)}, key=str)
    qv = sorted({v for c in Q for v in _vars_of(c)}, key=str)
    if len(pv) != len(qv):
        return False
    # order conjuncts so that each introduces few new variables
    todo = sorted(P, key=lambda c: (len(_vars_of(c)), repr(_shape(c))))
    byshape = {}
    for c in Q:
        byshape.setdefault(_shape(c), []).append(c)

    def go(k, m, used):
        if k == len(todo):
            return len(m) == len(pv)
        c = todo[k]
        for d in byshape.get(_shape(c), ()):
            if d in used:
                continue
            cv, dv = _vars_of(c), _vars_of(d)
            # try to extend m so that rename(c) == d (alt sets: try permutations of new vars)
            new = [v for v in cv if v not in m]
            free = [w for w in dv if w not in m.values()]
            if len(new) > len(free):
                continue
            for perm in itertools.permutations(free, len(new)):
                m2 = dict(m)
                m2.update(zip(new, perm))
                if _rename(c, m2) == d:
                    if go(k + 1, m2, used | {d}):
                        return True
        return False
    return go(0, {}, frozenset())


# --------------------------------------------------------------------------
# an independent matcher for the flattened query over the rdflib graph

def _pairs(g, gnodes, path):
    from rdflib import URIRef
    kind = path[0]
    p = URIRef(path[1])
    if kind == "lnk":
        return list(g.subject_objects(p))
    if kind == "opt":
        return [(n, n) for n in gnodes] + list(g.subject_objects(p))
    q = URIRef(path[2])
    out = []
    for a, m in g.subject_objects(p):
        out.append((a, m))
        if kind == "seqopt":
            out += [(a, b) for b in g.objects(m, q)]
        else:
            out += [(a, b) for b in g.subjects(q, m)]
    return out


def bgp_match(g, root, conjs, gvar) -> bool:
    """Standard set semantics: is there an assignment of graph terms to the variables
    satisfying every conjunct?  ?workflow (the GRAPH variable) is the graph's name."""
    from rdflib import URIRef
    gnodes = set(g.subjects()) | set(g.objects())
    cache = {}

    def pairs(path):
        if path not in cache:
            cache[path] = _pairs(g, gnodes, path)
        return cache[path]

    def bind(env, t, val):
        if t[0] == "iri":
            return env if URIRef(t[1]) == val else None
        if t[1] in env:
            return env if env[t[1]] == val else None
        e = dict(env)
        e[t[1]] = val
        return e

    def exts(env, c):
        tps = [c[1:]] if c[0] == "tp" else c[1]
        for s, p, o in tps:
            for a, b in pairs(p):
                e = bind(env, s, a)
                if e is not None:
                    e = bind(e, o, b)
                    if e is not None:
                        yield e

    def cvars(c):
        tps = [c[1:]] if c[0] == "tp" else c[1]
        return [t[1] for s_, _, o in tps for t in (s_, o) if t[0] == "var"]

    env0 = {gvar[1]: root} if gvar is not None else {}
    # cheapest-first order: fewest unbound variables, connected conjuncts preferred
    rest, order, bound = list(conjs), [], set(env0)
    while rest:
        def score(c):
            vs = cvars(c)
            unb = sum(1 for v in vs if v not in bound)
            return 0 if unb == 0 else 2 * unb + (0 if any(v in bound for v in vs) else 1)
        best = min(range(len(rest)), key=lambda i: (score(rest[i]), i))
        c = rest.pop(best)
        order.append(c)
        bound.update(cvars(c))

    def go(k, env):
        if k == len(order):
            return True
        return any(go(k + 1, e) for e in exts(env, order[k]))
    return go(0, env0)


def sparql_of(conjs, gvar) -> str:
    """The conjuncts as one plain group graph pattern, for rdflib."""
    def term(t):
        return f"?{t[1]}" if t[0] == "var" else f"<{t[1]}>"

    def path(p):
        if p[0] == "lnk":
            return f"<{p[1]}>"
        if p[0] == "opt":
            return f"<{p[1]}>?"
        if p[0] == "seqopt":
            return f"<{p[1]}>/<{p[2]}>?"
        return f"<{p[1]}>/^<{p[2]}>?"

    def tp(s, p, o):
        return f"{term(s)} {path(p)} {term(o)} ."
    lines = []
    for c in conjs:
        if c[0] == "tp":
            lines.append(tp(*c[1:]))
        else:
            lines.append(" UNION ".join("{ " + tp(*a) + " }" for a in c[1]))
    gv = term(gvar) if gvar is not None else "?workflow"
    return f"SELECT DISTINCT {gv} WHERE {{ GRAPH {gv} {{\n" + "\n".join(lines) + "\n} }"


# --------------------------------------------------------------------------
# the property's sentence, by brute force on the implementation's graph

def unfold_steps(T, unfold: bool):
    """Steps to assign: the task's step nodes reachable from its outputs, or with
    unfold_tree one copy per path.  Returns (steps, links, outs): steps = {key: step id}."""
    steps, links, outs = {}, [], []
    if not unfold:
        for s in reachable(T):
            steps[s] = s
        for s in steps:
            for c in T["steps"][s]["from"]:
                links.append((s, c))
        return steps, links, list(T["outs"])

    def visit(s, path):
        key = path + (s,)
        steps[key] = s
        for i, c in enumerate(T["steps"][s]["from"]):
            links.append((key, visit(c, key + (i,))))
        return key
    for i, o in enumerate(T["outs"]):
        outs.append(visit(o, (("o", i),)))
    return steps, links, outs


def assignable(L: Lang11, W, T, sw: dict, strict_types=False):
    """Can the task's steps be assigned to concept nodes of W such that the task output
    is W's output (or a direct input of it), each step's operator is the node's, each
    step's type is a canonical supertype of the node's type, and each precedes-link
    follows the node's dependencies?  Returns an assignment or None."""
    steps, links, outs = unfold_steps(T, sw.get("unfold_tree", False))
    chron = sw.get("by_chronology", True)
    S = T["steps"]
    out_nodes = set(W.outputs)
    if sw.get("by_penultimate_output", True):
        for o in W.outputs:
            out_nodes.update(W.froms[o])
    in_nodes = set(W.inputs)
    if sw.get("by_second_input", False):
        for i in W.inputs:
            in_nodes.update(W.consumers[i])

    def type_ok(d, n):
        if not d["types"]:
            return True
        if strict_types:
            if n not in W.type:
                return False
            return any(L.is_canon(t) and L.sub(W.type[n], t) for t in d["types"])
        return any(t in W.sups[n] for t in d["types"])

    def op_ok(d, n):
        if not d["ops"]:
            return True
        v = W.op.get(n)
        vs = set(v) if isinstance(v, tuple) else {v}
        return any(o in vs for o in d["ops"])

    def same_step_allowed(p, c):
        dp, dc = S[steps[p]], S[steps[c]]
        return not dp["ops"] and (not dp["types"] or (bool(dc["ops"]) and not dc["types"]))

    cand = {}
    for k, s in steps.items():
        d = S[s]
        # a step named as an output is one step of the task, wherever it occurs: with unfold_tree
        # each of its occurrences stands at the output (the generated query and its model say so too)
        is_out = k in outs or s in T["outs"]
        is_in = sw.get("by_io", True) and d["input"]
        if not chron and not is_out and not is_in:
            continue            # unconstrained without chronology
        ns = []
        for n in W.nodes:
            if is_out and n not in out_nodes:
                continue
            if is_in and n not in in_nodes:
                continue
            if not type_ok(d, n):
                continue
            if chron and not op_ok(d, n):
                continue
            ns.append(n)
        cand[k] = ns
    keys = list(cand)
    if not chron:
        # steps are independent; the pre-filter's meaning remains
        if any(not cand[k] for k in keys):
            return None
        if sw.get("by_operators", True):
            for s in set(steps.values()):
                if len(S[s]["ops"]) == 1 and S[s]["ops"][0] not in W.all_ops:
                    return None
        if sw.get("by_types", True):
            present = set()
            for n in W.nodes:
                present.update(map(repr, W.sups[n]))
                if n in W.type:
                    present.add(repr(W.type[n]))
            for s in set(steps.values()):
                if S[s]["types"] and not any(repr(t) in present for t in S[s]["types"]):
                    return None
        return {str(k): W.num[cand[k][0]] for k in keys}
    parents = {}
    for p, c in links:
        parents.setdefault(c, []).append(p)

    def go(i, asg):
        if i == len(keys):
            return dict(asg)
        k = keys[i]
        for n in cand[k]:
            ok = True
            for p in parents.get(k, ()):
                if p in asg:
                    m = asg[p]
                    if not (n in W.deps[m] or (m == n and same_step_allowed(p, k))):
                        ok = False
                        break
            if ok:
                for (p, c) in links:
                    if p == k and c in asg:
                        m = asg[c]
                        if not (m in W.deps[n] or (m == n and same_step_allowed(k, c))):
                            ok = False
                            break
            if ok:
                asg[k] = n
                r = go(i + 1, asg)
                if r is not None:
                    return r
                del asg[k]
        return None
    r = go(0, {})
    return None if r is None else {str(k): W.num[n] for k, n in r.items()}


# --------------------------------------------------------------------------
# Coq side

HDR = """From Coq Require Import List Arith Bool.
Import ListNotations.
From TF Require Import Base.Hier Base.Ty Bag.Union Bag.Bag Bag.BagTy Query.Bgp Query.Gen Query.Check.
Definition epred (p : pred) : nat :=
  match p with PRdfType => 0 | POutput => 1 | PInput => 2 | PFrom => 3 | PDepends => 4
  | PVia => 5 | PSubtypeOf => 6 | PContainsType => 7 | PContainsOperation => 8
  | PContainsOperator => 9 | POther k => 10 + k end.
Definition econst (c : const) : list nat :=
  match c with CWf => [0] | CTransformation => [1] | CNode n => [2; n] | CTy t => 3 :: ty_enc t
  | COp o => [4; o] | COther k => [5; k] end.
Definition eterm (t : term) : list nat := match t with V v => [0; v] | K c => 1 :: econst c end.
Definition epath (pa : path) : list nat :=
  match pa with Lnk p => [0; epred p] | Opt p => [1; epred p]
  | SeqOpt p q => [2; epred p; epred q] | SeqInvOpt p q => [3; epred p; epred q] end.
Definition etp (t : tpat) : list nat := let '(s, pa, o) := t in eterm s ++ epath pa ++ eterm o.
Definition epat (p : pat) : list nat :=
  match p with Tp t => 0 :: etp t | Alt ts => 1 :: length ts :: flat_map etp ts end.
Definition b2n (b : bool) : nat := if b then 1 else 0.
Definition pre_part (H : hier) (sw : switches) (sk : skel) : list pat :=
  root_pat :: (if by_operators sw then gen_operators sk else [])
           ++ (if by_types sw then gen_types H sk else []).
Definition flow_part (H : hier) (sw : switches) (sk : skel) : list pat :=
  gen_outputs H sw sk ++ (if by_io sw then gen_inputs H sw sk else [])
  ++ (if by_chronology sw then gen_chronology H sk else []).
Definition completeb (sk : skel) : bool :=
  forallb (fun v => memn v (chron_order sk)) (seq 0 (sk_n sk)).
(* rows: [status; chronology visits every variable; #conjuncts; #graphs],
   per graph [pre-filter; flow] (no variable is shared, so all = both), the conjuncts, the type clauses of the pinned Bag *)
Definition obs (H : hier) (Gs : list graph) (sw : switches) (unfold : bool) (T : task)
    : list (list nat) :=
  match skeleton 64 T unfold with
  | Ok sk =>
      let q := gen H sw sk in
      [0; b2n (completeb sk); length q; length Gs]
      :: map (fun G => [b2n (matcho G (pre_part H sw sk)); b2n (matcho G (flow_part H sw sk))]) Gs
      ++ map epat q
      ++ map epat (gen_clauses (ty_bag_of_pinned H (sk_ty sk)))
  | Cycle => [[1]]
  | OutOfFuel => [[2]]
  end.
"""


def ty_coq(t) -> str:
    return C.ty_coq(t)


def graph_coq(L: Lang11, W) -> str:
    from rdflib import URIRef
    from transforge.namespace import TF
    g = W.graph
    other = {}

    def const(x):
        if x == W.root:
            return "CWf"
        if x == TF.Transformation:
            return "CTransformation"
        if x in W.num:
            return f"CNode {W.num[x]}"
        if x in L.uri2ty:
            return f"CTy {ty_coq(L.uri2ty[x])}"
        if x in L.uri2op:
            return f"COp {L.uri2op[x]}"
        if x not in other:
            other[x] = len(other)
        return f"COther {other[x]}"
    preds = ["PRdfType", "POutput", "PInput", "PFrom", "PDepends", "PVia", "PSubtypeOf",
             "PContainsType", "PContainsOperation", "PContainsOperator"]
    items = []
    for s, p, o in sorted(g, key=lambda t: (str(t[1]), W.num.get(t[0], -1), str(t[2]))):
        k = PRED_URI.get(str(p))
        if k is None:
            continue
        items.append(f"({const(s)}, {preds[k]}, {const(o)})")
    return "[" + ";\n  ".join(items) + "]"


def task_coq(T) -> str:
    def b(x):
        return "true" if x else "false"
    nodes = []
    for s, d in T["steps"].items():
        nodes.append(f"({s}, mkTnode {C.coq_list(d['types'], ty_coq)} {C.coq_list(d['ops'])} "
                     f"{C.coq_list(d['from'])} {b(d['input'])})")
    return f"(mkTask [{'; '.join(nodes)}] {C.coq_list(T['outs'])})"


def sw_coq(sw: dict) -> str:
    def b(k):
        return "true" if sw.get(k, DEFAULT_SW[k]) else "false"
    return (f"(mkSw {b('by_io')} {b('by_types')} {b('by_operators')} {b('by_chronology')} "
            f"{b('by_penultimate_output')} {b('by_second_input')})")


# --------------------------------------------------------------------------
# task variants

def canon_supers(L: Lang11, t, strict=True):
    return [s for s in L.canon if L.sub(t, s) and (not strict or s != t)]


def generalise(rng, L: Lang11, T):
    """A task that asks for less: one type replaced by a canonical supertype (Top is what
    a wildcard stands for), or a non-output step dropped (its sub-steps re-attached to
    the steps that preceded... followed it)."""
    T2 = copy_task(T)
    S = T2["steps"]
    live = reachable(T2)
    choices = []
    typed = [(s, i) for s in live for i, t in enumerate(S[s]["types"]) if canon_supers(L, t)]
    if typed:
        choices += ["type_up", "type_up"]
    leaves = [s for s in live if not S[s]["from"] and s not in T2["outs"]]
    inner = [s for s in live if S[s]["from"] and s not in T2["outs"]]
    if leaves:
        choices += ["drop_leaf", "drop_leaf"]
    if inner:
        choices.append("drop_inner")
    if not choices:
        return None, None
    what = rng.choice(choices)
    if what == "type_up":
        s, i = rng.choice(typed)
        S[s]["types"][i] = rng.choice(canon_supers(L, S[s]["types"][i]))
        S[s]["types"] = [t for j, t in enumerate(S[s]["types"]) if t not in S[s]["types"][:j]]
    else:
        s = rng.choice(leaves if what == "drop_leaf" else inner)
        kids = S[s]["from"]
        for p in live:
            if s in S[p]["from"]:
                new = []
                for c in S[p]["from"]:
                    for c2 in (kids if c == s else [c]):
                        if c2 not in new and c2 != p:
                            new.append(c2)
                S[p]["from"] = new
        del S[s]
        T2["origin"].pop(s, None)
    if not acyclic(T2):
        return None, None
    return T2, what


def corrupt(rng, L: Lang11, W, T):
    """A task that (probably) no longer describes W: the verdict is decided by the oracle,
    not assumed."""
    T2 = copy_task(T)
    S = T2["steps"]
    live = reachable(T2)
    what = rng.choice(["type_other", "type_other", "op_other", "op_other", "swap", "foreign_child",
                       "cycle", "extra_output", "output_inner", "output_inner"])
    if what == "output_inner":
        # a step that feeds another step is ALSO named as an output of the task
        inner = [c for p_ in live for c in S[p_]["from"] if c not in T2["outs"]]
        if not inner:
            return None, None
        T2["outs"].append(rng.choice(inner))
        return T2, what
    if what == "type_other":
        typed = [s for s in live if S[s]["types"]]
        if not typed:
            return None, None
        s = rng.choice(typed)
        t = S[s]["types"][0]
        cands = [c for c in L.canon if c != t and not L.sub(t, c)] or [c for c in L.canon if c != t]
        if not cands:
            return None, None
        S[s]["types"] = [rng.choice(cands)]
    elif what == "op_other":
        s = rng.choice(live)
        cur = S[s]["ops"]
        cands = [i for i in range(len(L.fops)) if i not in cur]
        if not cands:
            return None, None
        S[s]["ops"] = [rng.choice(cands)]
    elif what == "swap":
        links = [(p, c) for p in live for c in S[p]["from"] if p not in T2["outs"] or True]
        links = [(p, c) for p, c in links if c not in T2["outs"]]
        if not links:
            return None, None
        p, c = rng.choice(links)
        S[p]["types"], S[c]["types"] = S[c]["types"], S[p]["types"]
        S[p]["ops"], S[c]["ops"] = S[c]["ops"], S[p]["ops"]
    elif what == "foreign_child":
        s = rng.choice(live)
        n = W.nodes[T2["origin"].get(s, 0)] if T2["origin"].get(s, 0) < len(W.nodes) else W.nodes[0]
        foreign = [m for m in W.nodes if m not in W.deps[n] and m != n and (m in W.type or m in W.op)]
        if not foreign:
            return None, None
        m = rng.choice(foreign)
        sid = max(S) + 1
        types, ops = _step_info(rng, L, W, m, mode=rng.choice(["both", "type", "op"]))
        S[sid] = {"types": types, "ops": ops, "from": [], "input": False}
        S[s]["from"].append(sid)
    elif what == "cycle":
        links = [(p, c) for p in live for c in S[p]["from"]]
        if not links:
            return None, None
        p, c = rng.choice(links)
        if p not in S[c]["from"]:
            S[c]["from"].append(p)
    else:  # a second output step
        sid = max(S) + 1
        n = rng.choice(W.nodes)
        types, ops = _step_info(rng, L, W, n, mode=rng.choice(["both", "type", "op"]))
        S[sid] = {"types": types, "ops": ops, "from": [], "input": False}
        T2["outs"].append(sid)
    return T2, what


def make_absent(rng, L: Lang11, Ws, T):
    """Require an operator or a type that occurs in none of the workflows."""
    T2 = copy_task(T)
    S = T2["steps"]
    live = reachable(T2)
    used_ops = set()
    present = set()
    for W in Ws:
        used_ops.update(W.all_ops)
        for n in W.nodes:
            present.update(map(repr, W.sups[n]))
            if n in W.type:
                present.add(repr(W.type[n]))
    absent_ops = [i for i in range(len(L.fops)) if i not in used_ops]
    absent_tys = [t for t in L.canon if repr(t) not in present]
    s = rng.choice(live)
    if absent_ops and (not absent_tys or rng.random() < 0.6):
        S[s]["ops"] = [rng.choice(absent_ops)]
        return T2, "absent_op"
    if absent_tys:
        S[s]["types"] = [rng.choice(absent_tys)]
        return T2, "absent_type"
    return None, None


def gen_switches(rng) -> dict:
    sw = {}
    r = rng.random()
    if r < 0.55:
        pass
    else:
        for k in rng.sample(SWITCHES[:6], rng.choice([1, 1, 2, 3])):
            sw[k] = not DEFAULT_SW[k]
    if rng.random() < 0.25:
        sw["unfold_tree"] = True
    return sw


def gen_cases(rng, L: Lang11, Ws: list, per_wf: int):
    cases = []
    for hi, W in enumerate(Ws):
        for _ in range(per_wf):
            sw = gen_switches(rng)
            pen = sw.get("by_penultimate_output", True)
            T = derive_task(rng, L, W, penultimate=pen)
            base = {"task": T, "sw": sw, "kind": "derived", "home": hi, "parent": None}
            cases.append(base)
            bi = len(cases) - 1
            r = rng.random()
            if r < 0.45:
                T2, what = generalise(rng, L, T)
                if T2:
                    cases.append({"task": T2, "sw": sw, "kind": "general:" + what, "home": hi, "parent": bi})
                    if rng.random() < 0.4:
                        T3, what3 = generalise(rng, L, T2)
                        if T3:
                            cases.append({"task": T3, "sw": sw, "kind": "general:" + what3, "home": hi,
                                          "parent": len(cases) - 1})
            elif r < 0.8:
                T2, what = corrupt(rng, L, W, T)
                if T2:
                    cases.append({"task": T2, "sw": sw, "kind": "corrupt:" + what, "home": hi, "parent": None})
                    if rng.random() < 0.3 and acyclic(T2):
                        T3, what3 = generalise(rng, L, T2)
                        if T3:
                            cases.append({"task": T3, "sw": sw, "kind": "general:" + what3, "home": hi,
                                          "parent": len(cases) - 1})
            else:
                T2, what = make_absent(rng, L, Ws, T)
                if T2:
                    cases.append({"task": T2, "sw": sw, "kind": what, "home": hi, "parent": None})
    return cases


# --------------------------------------------------------------------------
# running the implementation

COMPONENTS = ["all", "pre", "flow", "out", "in", "rest"]


def split_flow(flow, gvar):
    out, inp, rest = [], [], []
    for c in flow:
        if c[0] == "tp" and c[1] == gvar and c[2][1].endswith("#output"):
            out.append(c)
        elif c[0] == "tp" and c[1] == gvar and c[2][1].endswith("#input"):
            inp.append(c)
        else:
            rest.append(c)
    return out, inp, rest


class _Timeout(Exception):
    pass


def timed_query(ds, text: str, limit: int = 3):
    """rdflib's evaluation strategy is exponential on some of these queries; a query that
    takes too long is skipped for the rdflib verdicts (counted), never guessed."""
    import signal

    def handler(signum, frame):
        raise _Timeout()
    old = signal.signal(signal.SIGALRM, handler)
    signal.alarm(limit)
    try:
        return list(ds.query(text))
    except _Timeout:
        return None
    finally:
        signal.alarm(0)
        signal.signal(signal.SIGALRM, old)


def task_from_query(L: Lang11, q):
    """The task as the TransformationQuery object holds it (after from_list /
    parse_shortcuts), objects in the order its store lists them: this is the input of
    the model (the store's order decides variable numbering and Bag insertion order)."""
    from transforge.namespace import TF
    g, root = q.graph, q.root
    FROM = TF["from"]
    outs = list(g.objects(root, TF.output))
    ids = {}
    todo = list(outs)
    while todo:
        n = todo.pop(0)
        if n in ids:
            continue
        ids[n] = len(ids)
        todo += list(g.objects(n, FROM))
    steps = {}
    for n, i in ids.items():
        tys, ops, unknown = [], [], []
        for o in g.objects(n, TF.type):
            (tys if o in L.uri2ty else unknown).append(L.uri2ty.get(o, str(o)))
        for o in g.objects(n, TF.via):
            (ops if o in L.uri2op else unknown).append(L.uri2op.get(o, str(o)))
        steps[i] = {"types": tys, "ops": ops, "from": [ids[o] for o in g.objects(n, FROM)],
                    "input": (root, TF.input, n) in g, "unknown": unknown}
    return {"steps": steps, "outs": [ids[o] for o in outs]}


def task_conjuncts(T):
    """A task graph as a set of facts over variables (for comparison up to renaming)."""
    live = reachable(T)
    out = []
    for s in live:
        d = T["steps"][s]
        for t in d["types"]:
            out.append(("tp", (("v", s), ("lnk", "type"), ("ty", repr(t)))))
        for o in d["ops"]:
            out.append(("tp", (("v", s), ("lnk", "via"), ("op", o))))
        for c in d["from"]:
            out.append(("tp", (("v", s), ("lnk", "from"), ("v", c))))
        if d["input"]:
            out.append(("tp", (("wf",), ("lnk", "input"), ("v", s))))
        for u in d.get("unknown", ()):
            out.append(("tp", (("v", s), ("lnk", "unknown"), ("iri", u))))
    for o in T["outs"]:
        out.append(("tp", (("wf",), ("lnk", "output"), ("v", o))))
    return out


def same_task(T, Tq) -> bool:
    a, b = task_conjuncts(T), task_conjuncts(Tq)
    if len(reachable(T)) != len(reachable(Tq)):
        return False
    return iso_conjuncts(a, b)


def observe_impl(L: Lang11, Ws, ds, case, with_rdflib_components: bool, alt_style: str | None):
    """Everything the implementation says about one case."""
    from transforge.graph import CyclicTransformationGraphError
    T, sw = case["task"], case["sw"]
    ob = {"error": None}
    try:
        q = make_query(L, T, "uri", sw)
        text = q.sparql()
    except CyclicTransformationGraphError:
        ob["error"] = "Cycle"
        return ob
    except Exception as e:
        ob["error"] = f"{type(e).__name__}: {e}"
        return ob
    ob["sparql"] = text
    ob["tq"] = task_from_query(L, q)
    try:
        base, tree = read_query(text)
        pre, flow, gvar = flatten(tree)
    except QueryReadError as e:
        ob["error"] = f"unreadable query: {e}"
        return ob
    ob["pre"], ob["flow"], ob["gvar"] = pre, flow, gvar
    ob["conj"] = norm_conjuncts(L, pre + flow, gvar)
    ob["preds"] = {x for c in pre + flow for tp in ([c[1:]] if c[0] == "tp" else c[1]) for x in tp[1][1:]}
    roots = {W.root: i for i, W in enumerate(Ws)}
    # the query as deployed, on rdflib
    t_q = time.time()
    rows = timed_query(ds, text)
    if time.time() - t_q > 0.5:
        with_rdflib_components = False
    if rows is None:
        ob["impl"] = None
    else:
        got = {r.workflow for r in rows}
        ob["impl"] = [W.root in got for W in Ws]
        ob["impl_extra"] = [str(x) for x in got if x not in roots]
    # the same conjuncts as a plain basic graph pattern: own matcher, every component
    out, inp, rest = split_flow(flow, gvar)
    comps = {"all": pre + flow, "pre": pre, "flow": flow, "out": out, "in": inp, "rest": rest}
    ob["own"] = {k: [bgp_match(W.graph, W.root, v, gvar) for W in Ws] for k, v in comps.items()}
    # ... and rdflib on the plain pattern
    ob["flat"] = {}
    for k in (COMPONENTS if with_rdflib_components else ["all"]):
        if not comps[k]:
            continue
        rows = timed_query(ds, sparql_of(comps[k], gvar)) if ob["impl"] is not None else None
        if rows is not None:
            res = {r[0] for r in rows}
            ob["flat"][k] = [W.root in res for W in Ws]
    # another way of writing the same task
    if alt_style:
        try:
            q2 = make_query(L, T, alt_style, sw)
            t2 = q2.sparql()
            b2, tree2 = read_query(t2)
            pre2, flow2, gvar2 = flatten(tree2)
            ob["alt"] = {"style": alt_style, "conj": norm_conjuncts(L, pre2 + flow2, gvar2), "sparql": t2,
                         "tq": task_from_query(L, q2),
                         "own": [bgp_match(W.graph, W.root, pre2 + flow2, gvar2) for W in Ws]}
            rows2 = timed_query(ds, t2) if ob["impl"] is not None else None
            ob["alt"]["impl"] = None if rows2 is None else [W.root in {r.workflow for r in rows2} for W in Ws]
        except Exception as e:
            ob["alt"] = {"style": alt_style, "error": f"{type(e).__name__}: {e}"}
    return ob


def super_witness(L: Lang11, W):
    """A task that asks exactly for the supertype the unrepaired graph does not record."""
    orig = Wf()
    orig.graph, orig.root = W.graph_orig, W.root
    index_graph(L, orig)
    n, s_ = W.missing[0]
    k = W.num[n]
    n0 = orig.nodes[k] if k < len(orig.nodes) else n
    ops = [W.op[n]] if (n in W.op and not isinstance(W.op[n], tuple)) else []
    if n in W.outputs:
        T = {"steps": {0: {"types": [s_], "ops": ops, "from": [], "input": False}}, "outs": [0], "origin": {}}
    else:
        T = {"steps": {0: {"types": [], "ops": [], "from": [1], "input": False},
                       1: {"types": [s_], "ops": ops, "from": [], "input": False}}, "outs": [0], "origin": {}}
    q = make_query(L, T, "uri", {})
    base, tree = read_query(q.sparql())
    pre, flow, gvar = flatten(tree)
    own = bgp_match(orig.graph, orig.root, pre + flow, gvar)
    strict = assignable(L, orig, T, {}, strict_types=True) is not None
    return T, own, strict


def graph_invariants(L: Lang11, W) -> list[str]:
    """The hypotheses of the C11 theorems about a workflow graph (facts C07/C09/C12 state)."""
    from rdflib.namespace import RDF
    from transforge.namespace import TF
    g = W.graph
    bad = []
    if (W.root, RDF.type, TF.Transformation) not in g:
        bad.append("root-not-Transformation")
    cop = set(g.objects(W.root, TF.containsOperation))
    for n, o in g.subject_objects(TF.via):
        if o not in cop:
            bad.append("via-not-in-containsOperation")
            break
    cty = set(g.objects(W.root, TF.containsType))
    for n, o in g.subject_objects(TF.subtypeOf):
        if o not in cty:
            bad.append("subtypeOf-not-in-containsType")
            break
    for n in W.nodes:
        if n in W.type and L.is_canon(W.type[n]):
            want = {repr(s) for s in canon_supers(L, W.type[n], strict=False)}
            have = {repr(s) for s in W.sups[n]}
            if want - have:
                bad.append("subtypeOf-misses-canonical-supertype")
                break
            if have - want:
                bad.append("subtypeOf-has-non-supertype")
                break
    clo = {(n, m) for n in W.nodes for m in W.deps[n]}
    if clo != W.dep_triples:
        bad.append("depends-is-not-closure-of-from")
    present = set()
    for n in W.nodes:
        present.update(map(repr, W.sups[n]))
    have = {repr(L.uri2ty[o]) for o in cty if o in L.uri2ty}
    for t in have:
        for s in canon_supers(L, eval(t), strict=False):
            if repr(s) not in have:
                bad.append("containsType-not-upward-closed")
                break
        else:
            continue
        break
    return bad


# --------------------------------------------------------------------------
# main

def build_world(rng, n_lang, wf_per_lang, per_wf, stats):
    from rdflib import Dataset
    world = []
    for li in range(n_lang):
        L = gen_language(rng)
        try:
            L.build()
        except Exception as e:
            stats["language_rejected"] += 1
            continue
        Ws = []
        kinds = ["expr", "workflow"] + [None] * wf_per_lang
        for wi in range(wf_per_lang + 3):
            if len(Ws) >= wf_per_lang:
                break
            W = gen_workflow(rng, L, len(Ws), kinds[len(Ws)] if len(Ws) < len(kinds) else None)
            if W is None or W.graph is None:
                stats["workflow_rejected"] += 1
                if W is not None and W.error:
                    stats["reject:" + W.error.split(":")[0]] += 1
                continue
            Ws.append(W)
        if not Ws:
            continue
        ds = Dataset()
        for W in Ws:
            g = ds.add_graph(W.root)
            g += W.graph
        cases = gen_cases(rng, L, Ws, per_wf)
        world.append((L, Ws, ds, cases))
    return world


def witness_world():
    """The instance of props/C11.v (e_match, e_nomatch, e_absent, e_pinned_self_refuted) on the
    implementation: A > B, C; a2b = f0 : A -> B, b2c = f1 : B -> C, unused f2 : C -> A;
    workflow  b2c (a2b (- : A));  tasks  [C, b2c, [a2b, [A]]],  wrong order,  absent operator."""
    from rdflib import Dataset
    A, B, Cc, TOP = (5, []), (6, []), (7, []), (0, [])
    L = Lang11(C.Hierarchy({6: 5}, {}, 3), [A, B, Cc], True, [
        {"name": "f0", "params": [A], "result": B, "fparam": None},
        {"name": "f1", "params": [B], "result": Cc, "fparam": None},
        {"name": "f2", "params": [Cc], "result": A, "fparam": None}])
    L.build()
    W = build_workflow(L, {"kind": "expr", "text": "(f1 (f0 1))", "sources": [A]}, 0)
    ds = Dataset()
    g = ds.add_graph(W.root)
    g += W.graph

    def step(types, ops, frm):
        return {"types": types, "ops": ops, "from": frm, "input": False}
    t_self = {"steps": {0: step([Cc], [1], [1]), 1: step([], [0], [2]), 2: step([A], [], [])},
              "outs": [0], "origin": {0: 0, 1: 1, 2: 2}}
    t_gen = {"steps": {0: step([TOP], [1], [1]), 1: step([], [0], [])}, "outs": [0], "origin": {0: 0, 1: 1}}
    t_wrong = {"steps": {0: step([Cc], [0], [1]), 1: step([], [1], [])}, "outs": [0], "origin": {}}
    t_absent = {"steps": {0: step([Cc], [1], [1]), 1: step([], [2], [])}, "outs": [0], "origin": {}}
    cases = [{"task": t_self, "sw": {}, "kind": "derived", "home": 0, "parent": None},
             {"task": t_gen, "sw": {}, "kind": "general:type_up", "home": 0, "parent": 0},
             {"task": t_wrong, "sw": {}, "kind": "corrupt:swap", "home": 0, "parent": None},
             {"task": t_absent, "sw": {}, "kind": "absent_op", "home": 0, "parent": None},
             {"task": t_self, "sw": {"unfold_tree": True, "by_penultimate_output": False}, "kind": "derived",
              "home": 0, "parent": None}]
    return (L, [W], ds, cases)


def case_payload(L, Ws, case, ob=None, wi=None):
    T = case["task"]
    p = {"language": L.to_json(),
         "workflows": [W.recipe for W in Ws],
         "workflow_texts": [W.text for W in Ws],
         "task": {"steps": {str(k): v for k, v in T["steps"].items()}, "outs": T["outs"],
                  "origin": {str(k): v for k, v in T.get("origin", {}).items()}},
         "task_text": task_text(L, T), "switches": case["sw"], "case_kind": case["kind"],
         "home": case["home"]}
    if wi is not None:
        p["workflow_index"] = wi
        p["workflow"] = Ws[wi].text
    if ob is not None and ob.get("sparql"):
        p["sparql"] = ob["sparql"]
    return p


MODEL_FILES = ["Query/Bgp.v", "Query/Gen.v", "Query/GenProofs.v", "Query/Spec.v", "Query/Assign.v", "Query/TaskSpec.v",
               "Query/Check.v", "Query/MonoInner.v"]


def ensure_model_built() -> None:
    """The Query theories may not be listed in _CoqProject yet: compile what is stale, in
    dependency order (a no-op once `make` builds them)."""
    import subprocess
    listed = (C.COQ / "_CoqProject").read_text()
    if all(("theories/" + f) in listed for f in MODEL_FILES):
        return
    newest = max((p.stat().st_mtime for p in (C.COQ / "theories" / "Bag").glob("*.vo")), default=0)
    for f in MODEL_FILES:
        src = C.COQ / "theories" / f
        vo = src.with_suffix(".vo")
        if not vo.exists() or vo.stat().st_mtime < max(src.stat().st_mtime, newest):
            r = subprocess.run(["coqc", "-Q", "theories", "TF", "-Q", "props", "TFP", "theories/" + f],
                cwd=C.COQ, timeout=600, stdout=subprocess.PIPE, stderr=subprocess.STDOUT, text=True)
            if r.returncode != 0:
                raise RuntimeError(f"coqc failed on {f}:\n{r.stdout[-2000:]}")
        newest = max(newest, vo.stat().st_mtime)


def main(tier: str, seed: int, replay: str | None = None) -> int:
    C.force_repo_on_path()
    rep = C.Report(PID, tier, seed)
    C.ensure_built()
    ensure_model_built()
    rep.proof_stage()
    rep.proof_stage("C11_mono")     # dropping an inner step (Query/MonoInner.v, uses C09's Graph/Closure.v)
    rng = random.Random(seed)
    stats = Counter()
    if replay:
        d = json.loads(open(replay).read())
        world = world_from_payload(d)
    elif tier == "quick":
        world = [witness_world()] + build_world(rng, 16, 3, 3, stats)
    else:
        world = [witness_world()] + build_world(rng, 125, 3, 5, stats)
    if replay:
        # a replay is diagnostic: keep the evidence of the last full run
        ev = C.EVID / f"{PID}.json"
        keep = ev.read_text() if ev.exists() else None
        rc = run(rep, world, stats, "replay", rng)
        if keep is not None:
            ev.write_text(keep)
        return rc
    return run(rep, world, stats, tier, rng)


def world_from_payload(d):
    from rdflib import Dataset
    L = Lang11.from_json(d["language"])
    L.build()
    Ws = [build_workflow(L, r, i) for i, r in enumerate(d["workflows"])]
    ds = Dataset()
    for W in Ws:
        g = ds.add_graph(W.root)
        g += W.graph
    T = {"steps": {int(k): {"types": [_tt(t) for t in v["types"]], "ops": v["ops"], "from": v["from"],
                           "input": v["input"]} for k, v in d["task"]["steps"].items()},
         "outs": d["task"]["outs"], "origin": {int(k): v for k, v in d["task"].get("origin", {}).items()}}
    case = {"task": T, "sw": d["switches"], "kind": d.get("case_kind", "replay"), "home": d.get("home", 0),
            "parent": None}
    return [(L, Ws, ds, [case])]


def run(rep, world, stats, tier, rng) -> int:
    t0 = time.time()
    shown = Counter()

    def viol(name, payload, **kw):
        """at most a handful of replay files per kind and root cause"""
        key = (name.split("_")[0], kw.get("signature"))
        shown[key] += 1
        stats["violations:%s:%s" % key] += 1
        if shown[key] <= 4:
            rep.violation(name, payload, **kw)
    # ---- implementation
    obs_impl = []
    emitted_preds = set()
    for li, (L, Ws, ds, cases) in enumerate(world):
        for W in Ws:
            emitted_preds.update(str(p) for p in W.graph.predicates())
            stats["wf_kind:" + W.kind] += 1
        row = []
        for ci, case in enumerate(cases):
            T = case["task"]
            alt = None
            r = rng.random()
            if r < 0.5:
                styles = ["short"] + (["list", "listwild"] if listable(T) and acyclic(T) else [])
                alt = rng.choice(styles)
            row.append(observe_impl(L, Ws, ds, case, with_rdflib_components=(rng.random() < 0.3),
                alt_style=alt))
        obs_impl.append(row)
    t_impl = time.time() - t0
    # ---- model
    blocks = []
    evalmaps = []
    for li, (L, Ws, ds, cases) in enumerate(world):
        txt = [f"Definition H_{li} := {L.h.coq()}."]
        for wi, W in enumerate(Ws):
            txt.append(f"Definition G_{li}_{wi} : graph := {graph_coq(L, W)}.")
        gs = "[" + "; ".join(f"G_{li}_{wi}" for wi in range(len(Ws))) + "]"
        txt.append(f"Eval vm_compute in map (fun G => b2n (graph_okb H_{li} {C.coq_list(L.canon, ty_coq)} G)) {gs}.")
        emap = {}
        nev = 1
        for ci, case in enumerate(cases):
            unfold = "true" if case["sw"].get("unfold_tree") else "false"
            ob = obs_impl[li][ci]
            tasks = [("p", ob.get("tq") or case["task"])]
            if "alt" in ob and "tq" in ob["alt"]:
                tasks.append(("a", ob["alt"]["tq"]))
            for tag, Tm in tasks:
                txt.append(f"Eval vm_compute in obs H_{li} {gs} {sw_coq(case['sw'])} {unfold} {task_coq(Tm)}.")
                emap[(ci, tag)] = nev
                nev += 1
        evalmaps.append(emap)
        blocks.append(("\n".join(txt) + "\n", nev))
    t1 = time.time()
    import subprocess
    try:
        outs = C.coq_eval_blocks(f"{PID}_{tier}", HDR, blocks, nfiles=4,
            timeout=1200 if tier != "thorough" else 3000)
    except subprocess.TimeoutExpired:
        rep.violation("model_timeout", {"kind": "model", "what": "evaluating the model in Coq timed out "
            "(search explosion in the matcher on some generated case); nothing was compared"},
            has_input=False)
        rep.coverage.update({"evaluations": 0, "distinct_nontrivial": 0, "rule": "model evaluation timed out",
            "samples": []})
        return rep.finish(C.TRUSTED)
    t_model = time.time() - t1
    # ---- compare
    n_eval = n_pairs = dis = 0
    distinct = set()
    samples = []
    tested_preds = {}
    verdicts = Counter()
    for li, (L, Ws, ds, cases) in enumerate(world):
        inv = [graph_invariants(L, W) for W in Ws]
        okb = outs[li][0]
        for wi, W in enumerate(Ws):
            for b in inv[wi]:
                stats["graph_invariant_broken:" + b] += 1
            stats["graph_okb:%d" % okb[wi]] += 1
            covered = [b for b in inv[wi] if b != "depends-is-not-closure-of-from"]
            if "depends-is-not-closure-of-from" in inv[wi]:
                viol(f"depends_{li}_{wi}", {"kind": "oracle", "language": L.to_json(), "workflow": W.text,
                    "workflows": [W.recipe], "what": "tf:depends is not the transitive closure of tf:from in "
                    "a generated graph (property C09), so precedes-links are tested against the wrong relation"},
                    has_input=False, signature="depends-is-not-the-closure-of-from(C09)")
            if bool(okb[wi]) != (not covered):
                viol(f"graphok_{li}_{wi}", {"kind": "correspondence", "language": L.to_json(),
                    "workflow": W.text, "recipe": W.recipe, "python_invariants_broken": inv[wi],
                    "coq_graph_okb": okb[wi],
                    "what": "the proved checker of the theorems' graph hypotheses and the harness disagree"},
                    has_input=False)
            if W.missing:
                stats["workflows_missing_supertypes"] += 1
                T0, own0, strict0 = super_witness(L, W)
                n0, s0 = W.missing[0]
                viol(f"super_{li}_{wi}", {"kind": "oracle", "language": L.to_json(),
                    "workflows": [W.recipe], "workflow": W.text, "workflow_index": 0,
                    "task": {"steps": {str(k): v for k, v in T0["steps"].items()}, "outs": T0["outs"]},
                    "task_text": task_text(L, T0), "switches": {}, "case_kind": "super_witness", "home": 0,
                    "node_type": L.tstr(W.type[n0]) if n0 in W.type else None, "missing_supertype": L.tstr(s0),
                    "missing": [(W.num[n], L.tstr(x)) for n, x in W.missing],
                    "verdicts": {"plain_bgp_own_matcher_on_the_unrepaired_graph": own0,
                                 "assignable_by_is_subtype": strict0},
                    "what": "a concept node does not carry a canonical supertype of its type (subtypeOf / "
                            "containsType incomplete): a task asking for that supertype misses the workflow; "
                            "the other checks of this run use the graph with the missing triples added"},
                    has_input=(strict0 and not own0), signature=SIG_SUPER)
        spec_memo = {}
        own_all = {}
        for ci, case in enumerate(cases):
            n_eval += 1
            ob = obs_impl[li][ci]
            rows = outs[li][evalmaps[li][(ci, 'p')]]
            T, sw = case["task"], case["sw"]
            stats["kind:" + case["kind"].split(":")[0]] += 1
            stats["shape:" + ("cyclic" if not acyclic(T) else "tree" if is_tree(T) else "dag")] += 1
            stats["steps:%d" % min(len(reachable(T)), 8)] += 1
            if acyclic(T):
                live = [T["steps"][x] for x in reachable(T)]
                stats["tasks_with_input_mark"] += any(d["input"] for d in live)
                stats["tasks_with_alternatives"] += any(len(d["types"]) > 1 or len(d["ops"]) > 1 for d in live)
                stats["tasks_with_bare_step"] += any(not d["types"] and not d["ops"] for d in live)
                stats["tasks_with_several_outputs"] += len(T["outs"]) > 1
            stats["switches:" + (",".join(sorted(k for k in sw)) or "default")] += 1
            pay = case_payload(L, Ws, case, ob)
            mstatus = rows[0][0]
            # -- error path: cyclic tasks
            if ob["error"] or mstatus != 0:
                me = {0: None, 1: "Cycle", 2: "OutOfFuel"}[mstatus]
                verdicts["error:" + str(ob["error"] or me)[:20]] += 1
                if ob["error"] != me:
                    dis += 1
                    viol(f"error_{li}_{ci}", dict(pay, kind="correspondence", impl_error=ob["error"],
                        model=me, what="implementation and model disagree on rejecting the task"),
                        has_input=(ob["error"] == "Cycle") != (not acyclic(T)))
                elif (me == "Cycle") != (not acyclic(T)):
                    viol(f"cycle_{li}_{ci}", dict(pay, kind="oracle", impl_error=ob["error"],
                        what="cycle rejection does not coincide with the task being cyclic"))
                continue
            hdr = rows[0]
            nq, ng = hdr[2], hdr[3]
            mver = rows[1:1 + ng]
            mconj = decode_model(rows[1 + ng:1 + ng + nq])
            mpinned = decode_model(rows[1 + ng + nq:])
            if hdr[1] != 1:
                viol(f"incomplete_{li}_{ci}", dict(pay, kind="model",
                    what="model chronology did not visit every variable (theorem hypothesis fails)"),
                    has_input=False)
            for p in ob["preds"]:
                tested_preds.setdefault(p, pay)
            # -- K: generated conjuncts
            same = iso_conjuncts(ob["conj"], mconj)
            if not same:
                # is it the pinned Bag.add?
                types_fixed = [c for c in mconj if _is_ctype(c)]
                alt_model = [c for c in mconj if not _is_ctype(c)] + \
                    ([c for c in mpinned] if sw.get("by_types", True) else [])
                if iso_conjuncts(ob["conj"], alt_model):
                    stats["pinned_bag_clauses"] += 1
                    viol(f"bag_{li}_{ci}", dict(pay, kind="correspondence",
                        impl=sorted(map(repr, ob["conj"])), model=sorted(map(repr, mconj)),
                        what="type pre-filter is the one of the pinned Bag.add, not of the repaired one"),
                        has_input=False, signature=SIG_BAG)
                else:
                    dis += 1
                    if dis <= 6:
                        viol(f"conjuncts_{li}_{ci}", dict(pay, kind="correspondence",
                            impl=sorted(map(repr, ob["conj"])), model=sorted(map(repr, mconj)),
                            what="generated query differs from the model's (K_C11), up to variable renaming"),
                            has_input=False)
            if not same_task(T, ob["tq"]):
                viol(f"written_{li}_{ci}", dict(pay, kind="oracle", style="uri", held=ob["tq"],
                    what="the task graph held by the query object is not the task that was written"))
            if "alt" in ob:
                a = ob["alt"]
                stats["alt_style:" + a["style"]] += 1
                if "error" in a:
                    viol(f"alt_{li}_{ci}", dict(pay, kind="oracle", alt=a,
                        what="the same task written differently is rejected"))
                else:
                    arows = outs[li][evalmaps[li][(ci, "a")]]
                    amodel = decode_model(arows[1 + arows[0][3]:1 + arows[0][3] + arows[0][2]]) if arows[0][0] == 0 else None
                    if not same_task(T, a["tq"]):
                        viol(f"written_{li}_{ci}", dict(pay, kind="oracle", style=a["style"], held=a["tq"],
                            alt_sparql=a["sparql"],
                            what="the task written as nested list / with string shortcuts is not the same task"))
                    elif amodel is None or not iso_conjuncts(a["conj"], amodel):
                        dis += 1
                        viol(f"altconj_{li}_{ci}", dict(pay, kind="correspondence", style=a["style"],
                            alt_sparql=a["sparql"], impl=sorted(map(repr, a["conj"])),
                            model=sorted(map(repr, amodel or [])),
                            what="query generated from the other notation differs from the model's (K_C11)"),
                            has_input=False)
                    elif a["own"] != ob["own"]["all"] or (
                            a["impl"] is not None and ob["impl"] is not None and a["impl"] != ob["impl"]):
                        viol(f"alt_{li}_{ci}", dict(pay, kind="oracle", alt_style=a["style"],
                            alt_sparql=a["sparql"], alt_verdicts={"own": a["own"], "rdflib": a["impl"]},
                            verdicts={"own": ob["own"]["all"], "rdflib": ob["impl"]},
                            what="the same task written differently gives a different verdict"))
            # -- verdicts per workflow
            for wi, W in enumerate(Ws):
                n_pairs += 1
                own = {k: v[wi] for k, v in ob["own"].items()}
                spec = assignable(L, W, T, sw)
                spec_b = spec is not None
                strict = assignable(L, W, T, sw, strict_types=True) is not None
                impl = ob["impl"][wi] if ob["impl"] is not None else None
                if impl is None and wi == 0:
                    stats["rdflib_timeout"] += 1
                mpre, mflow = bool(mver[wi][0]), bool(mver[wi][1])
                mv = mpre and mflow
                verdicts[("match" if own["all"] else "nomatch") + ("/home" if wi == case["home"] else "/other")] += 1
                if len(reachable(T)) >= 2 and (T["steps"][T["outs"][0]]["types"] or T["steps"][T["outs"][0]]["ops"]):
                    distinct.add((li, ci, wi))
                p2 = dict(pay, workflow_index=wi, workflow=W.text, verdicts={
                    "rdflib_generated_query": impl, "plain_bgp_own_matcher": own,
                    "plain_bgp_rdflib": {k: v[wi] for k, v in ob["flat"].items()},
                    "model_matcho": {"all": mv, "pre": mpre, "flow": mflow},
                    "assignable": spec_b, "assignment": spec, "assignable_by_is_subtype": strict},
                    graph_invariants_broken=inv[wi])
                if len(samples) < 4 and spec_b and len(reachable(T)) >= 3 and wi == case["home"]:
                    samples.append({"workflow": W.text, "task": task_text(L, T), "switches": sw,
                        "kind": case["kind"], "sparql": ob["sparql"], "assignment": spec,
                        "verdicts": p2["verdicts"]})
                # O: the property on the implementation, standard semantics
                if own["all"] != spec_b:
                    sig = None
                    if spec_b and not own["pre"] and own["flow"] and "via-not-in-containsOperation" in inv[wi]:
                        sig = SIG_MEMBERSHIP
                    elif spec_b and not own["pre"] and own["flow"] and not same:
                        sig = SIG_BAG
                    viol(f"iff_{li}_{ci}_{wi}", dict(p2, kind="oracle",
                        what="as a plain basic graph pattern the generated query "
                             + ("misses a workflow the task's steps can be assigned to" if spec_b
                                else "returns a workflow the task's steps cannot be assigned to")),
                        signature=sig)
                if spec_b != strict:
                    viol(f"super_{li}_{ci}_{wi}", dict(p2, kind="oracle",
                        what="assignability differs when 'canonical supertype of the node's type' is decided "
                             "by is_subtype instead of the graph's subtypeOf triples"), signature=SIG_SUPER)
                # the deployed query on rdflib: equal, except that rdflib returns a row for an
                # empty GROUP BY sub-select and so never applies the pre-filter
                if impl is not None and impl != own["all"]:
                    if impl and not own["pre"] and own["flow"]:
                        stats["rdflib_ignores_failing_prefilter"] += 1
                    else:
                        viol(f"engine_{li}_{ci}_{wi}", dict(p2, kind="oracle",
                            what="rdflib on the generated query and the plain-pattern reading disagree "
                                 "beyond the known empty-GROUP-BY behaviour"))
                # engines on the plain pattern
                for k, v in ob["flat"].items():
                    if v[wi] != own[k]:
                        viol(f"flat_{k}_{li}_{ci}_{wi}", dict(p2, kind="engine", component=k,
                            what="rdflib and the independent matcher disagree on a component read as a plain pattern"),
                            has_input=False)
                if own["all"] != (own["pre"] and own["flow"]):
                    viol(f"join_{li}_{ci}_{wi}", dict(p2, kind="engine",
                        what="pre-filter and flow share only ?workflow, yet all != pre and flow"), has_input=False)
                # model verdict (proved decision procedure on the model's conjuncts)
                if same and (mv != own["all"] or mpre != own["pre"] or mflow != own["flow"]):
                    dis += 1
                    viol(f"matchb_{li}_{ci}_{wi}", dict(p2, kind="correspondence",
                        what="Bgp.matcho on the model's conjuncts and the matcher on the implementation's disagree"),
                        has_input=False)
                own_all[(ci, wi)] = own["all"]
                # metamorphic checks
                if case["kind"] == "derived" and wi == case["home"] and not own["all"]:
                    viol(f"self_{li}_{ci}", dict(p2, kind="oracle",
                        what="a task sub-sampled from the workflow's own graph does not match it"),
                        signature=SIG_MEMBERSHIP if (not own["pre"] and own["flow"]
                            and "via-not-in-containsOperation" in inv[wi]) else None)
                if case["kind"].startswith("general") and case["parent"] is not None:
                    if own_all.get((case["parent"], wi)) and not own["all"]:
                        viol(f"mono_{li}_{ci}_{wi}", dict(p2, kind="oracle",
                            parent_task=task_text(L, cases[case["parent"]]["task"]),
                            what="generalising a type / dropping a step lost a match"))
                tested = sw.get("by_chronology", True) or (
                    sw.get("by_operators", True) if case["kind"] == "absent_op" else sw.get("by_types", True))
                if case["kind"].startswith("absent") and tested and own["all"]:
                    viol(f"absent_{li}_{ci}_{wi}", dict(p2, kind="oracle",
                        what="a task requiring an operator or type that occurs in no workflow matches"))
    # vocabulary: every predicate the query tests is one the graph generator emits
    for p, pay in tested_preds.items():
        if p not in emitted_preds:
            viol("vocab_" + re.sub(r"\W+", "_", p)[-30:], dict(pay, kind="oracle", predicate=p,
                emitted=sorted(emitted_preds),
                what="the query tests a predicate that no generated transformation graph contains"),
                signature=SIG_MEMBERSHIP if p.endswith("containsOperation") else None)
    broken = {k: v for k, v in stats.items() if k.startswith("graph_invariant_broken")}
    rep.coverage.update({
        "evaluations": n_eval, "task_workflow_pairs": n_pairs, "distinct_nontrivial": len(distinct),
        "disagreements": dis,
        "rule": "random languages (base-type forest, 0-2 compound operators, explicit canon with/without Top, "
                "3-8 concrete operators incl. function-taking ones); 3 workflows each (add_expr graphs and "
                "add_workflow graphs over several tools, shared sources); tasks sub-sampled from a workflow's "
                "own graph (tree/DAG, alternatives, input marks, start at the output or a direct input), "
                "then generalised / corrupted / made to require absent operators or types; every task is "
                "evaluated on every workflow of its language; non-default switches in 45% of the cases; "
                "non-trivial = at least two steps and an informative output step",
        "samples": samples,
        "distribution": {k: v for k, v in sorted(stats.items()) if not k.startswith("graph_invariant")},
        "verdicts": dict(verdicts),
        "graph_invariants_broken": broken,
        "predicates_tested": sorted(tested_preds), "predicates_emitted": sorted(emitted_preds),
        "timing_s": {"implementation": round(t_impl, 1), "model": round(t_model, 1)},
        "exhaustive": False})
    rep.assumptions = [
        "SPARQL meaning: the standard algebra for the generated fragment (conjunction, UNION of triple "
        "patterns, paths p, p?, p/q?, p/^q?), set semantics, sub-SELECT read as an ordinary conjunct; "
        "rdflib is cross-checked component-wise, its empty-GROUP-BY behaviour is counted, not trusted",
        "workflow graphs satisfy the invariants stated as hypotheses (checked on every generated graph): "
        "membership triples cover via/subtypeOf, subtypeOf lists all canonical supertypes, depends is the "
        "closure of from (C07, C09, C12)",
        "skip_same_branch_matches (FILTER NOT EXISTS) is outside the modelled fragment",
        "the model is given each task in the order the implementation's store lists its triples (rdflib's "
        "set order decides variable numbering and Bag insertion order); that the stored task is the task "
        "that was written (URIs / nested list / string shortcuts) is checked separately",
        "with unfold_tree the steps of the specification are the paths from the outputs (one variable "
        "per visit); C11_task_spec (steps = step nodes) is stated for unfold_tree off",
        "model/implementation agreement is tested, not proved"]
    return rep.finish(C.TRUSTED)


def _is_ctype(c) -> bool:
    tps = [c[1]] if c[0] == "tp" else list(c[1])
    return all(p == ("lnk", 7) for _, p, _ in tps)
