"""C01  Subtyping of concrete types is exactly the declared partial order.

proof stage     coq/props/C01.v (match3 = Sub, total, refl/trans/antisym, strict)
correspondence  is_subtype / match / TypeOperator.subtype of /repo vs the model
oracle          order axioms evaluated on the implementation's own answers
"""
from __future__ import annotations

import itertools
import random

from . import common as C

HDR = """From Coq Require Import List Arith Bool.
Import ListNotations.
From TF Require Import Base.Hier Base.Ty Sub.Match.
Definition ob (r : option bool) : nat := match r with Some true => 1 | Some false => 0 | None => 2 end.
Definition obs H (p : ty * ty) : list nat := let (s, t) := p in
  [ob (is_subtype H false s t); ob (is_subtype H true s t); ob (match3 H true s t); ob (match3 H false s t)].
Definition opobs H (p : nat * nat) : list nat := let (a, b) := p in
  [Nat.b2n (op_subtype H false a b); Nat.b2n (op_subtype H true a b)].
"""


def enc(v):
    return 1 if v is True else 0 if v is False else 2


_SHARE = {"n": 0}


def impl_obs(h: C.Hierarchy, s, t):
    _SHARE["n"] += 1
    memo = {} if _SHARE["n"] % 2 else None      # every other pair shares equal subterm objects
    S, T = h.inst(s, memo), h.inst(t, memo)
    res = [enc(S.is_subtype(T)), enc(S.is_subtype(T, strict=True)),
           enc(S.match(T, subtype=True)), enc(S.match(T))]
    # a base type can also be written as the bare operator (Type.is_subtype is
    # defined on every Type): every spelling must give the same answer
    Ss = [S] + ([h.ops[s[0]]] if not s[1] else [])
    Ts = [T] + ([h.ops[t[0]]] if not t[1] else [])
    for S2 in Ss:
        for T2 in Ts:
            if S2 is S and T2 is T:
                continue
            alt = [enc(S2.is_subtype(T2)), enc(S2.is_subtype(T2, strict=True))]
            if alt != res[:2]:
                res[:2] = alt
                _SHARE["spelling"] = (type(S2).__name__, type(T2).__name__)
    return res


def related(h: C.Hierarchy, a: int, b: int) -> bool:
    def chain(x):
        r = [x]
        while x in h.parents:
            x = h.parents[x]
            r.append(x)
        return r
    return a in chain(b) or b in chain(a)


def nontrivial(h, s, t) -> bool:
    if s[1] and t[1]:
        return True
    if not s[1] and not t[1] and s[0] != t[0] and s[0] > 4 and t[0] > 4:
        return related(h, s[0], t[0])
    return False


def gen_cases(rng: random.Random, nh: int, npairs: int, depth: int):
    cases = []
    for _ in range(nh):
        h = C.gen_hierarchy(rng)
        pairs = []
        for _ in range(npairs):
            s = C.gen_ty(rng, h, depth)
            r = rng.random()
            if r < 0.7:
                t = C.mutate_ty(rng, h, s, depth)
            else:
                t = C.gen_ty(rng, h, depth)
            if rng.random() < 0.5:
                s, t = t, s
            pairs.append((s, t))
        # triples for transitivity: chains s -> mutate -> mutate
        triples = []
        for _ in range(npairs // 4):
            a = C.gen_ty(rng, h, depth)
            b = C.mutate_ty(rng, h, a, depth)
            c = C.mutate_ty(rng, h, b, depth)
            triples.append((a, b, c))
        cases.append((h, pairs, triples))
    return cases


FIXED_HIERS = [
    # chain A>B>C, unrelated D, unary covariant F
    C.Hierarchy({6: 5, 7: 6}, {9: [True]}, 4),
    # tree A>{B,C}, B>D, binary mixed G
    C.Hierarchy({6: 5, 7: 5, 8: 6}, {9: [False, True]}, 4),
    # two roots, contravariant unary
    C.Hierarchy({7: 5}, {8: [False]}, 3),
]


def exhaustive_cases(depth: int, limit: int | None = None):
    cases = []
    for h in FIXED_HIERS:
        ops = [0, 1, 3] + h.ids  # Top, Bottom, Function + user operators
        ts = C.enum_types(h, 1, ops)
        if depth >= 2:
            # depth-2: apply each compound op to depth<=1 types, restricted
            # to keep the space finite but complete for the chosen operator set
            base = ts
            more = []
            comp = [o for o in ops if h.arity(o) > 0]
            small = [t for t in base if C.ty_size(t) <= 2]
            for o in comp:
                for combo in itertools.product(small, repeat=h.arity(o)):
                    more.append((o, list(combo)))
            seen = set(map(repr, ts))
            for t in more:
                if repr(t) not in seen:
                    ts.append(t); seen.add(repr(t))
        pairs = [(s, t) for s in ts for t in ts]
        if limit and len(pairs) > limit:
            pairs = pairs[:limit]
        cases.append((h, pairs, []))
    return cases


def run_cases(rep: C.Report, cases, tag: str, shard: int = 4000, nfiles: int = 4):
    """Correspondence + oracle over (hierarchy, pairs, triples) cases."""
    n_eval = 0
    distinct = set()
    n_dis = 0
    dist = {"true": 0, "false": 0, "strict_true": 0}
    samples = []
    blocks = []
    flat = []  # (case_index, chunk, oppairs)
    for ci, (h, pairs, triples) in enumerate(cases):
        h.build_staged(random.Random(7919 * ci + 13))
        allpairs = list(pairs)
        for a, b, c in triples:
            allpairs += [(a, b), (b, c), (a, c)]
        oppairs = [(a, b) for a in [0, 1, 2] + list(range(5, 5 + h.nbase))
                   for b in [0, 1, 2] + list(range(5, 5 + h.nbase))]
        for k in range(0, len(allpairs), shard):
            chunk = allpairs[k:k + shard]
            body = f"Definition H_{ci}_{k} := {h.coq()}.\n"
            body += f"Eval vm_compute in map (obs H_{ci}_{k}) " + C.coq_list(chunk,
                lambda p: f"({C.ty_coq(p[0])}, {C.ty_coq(p[1])})") + ".\n"
            if k == 0:
                body += f"Eval vm_compute in map (opobs H_{ci}_{k}) " + C.coq_list(oppairs,
                    lambda p: f"({p[0]}, {p[1]})") + ".\n"
            blocks.append((body, 2 if k == 0 else 1))
            flat.append((ci, chunk, oppairs if k == 0 else None))
    outs = C.coq_eval_blocks(f"C01_{tag}", HDR, blocks, nfiles=nfiles)
    for (ci, chunk, oppairs), vals in zip(flat, outs):
        h, pairs, triples = cases[ci]
        model = vals[0]
        assert len(model) == len(chunk), (len(model), len(chunk))
        for (s, t), mo in zip(chunk, model):
            io = impl_obs(h, s, t)
            n_eval += 1
            if nontrivial(h, s, t):
                distinct.add((ci, repr(s), repr(t)))
            dist["true"] += io[0] == 1
            dist["false"] += io[0] == 0
            dist["strict_true"] += io[1] == 1
            if len(samples) < 3 and s[1] and io[0] == 1 and s != t:
                samples.append({"hierarchy": h.to_json(), "s": C.ty_str(s, h.names()),
                    "t": C.ty_str(t, h.names()), "impl": io, "model": mo})
            if io != mo:
                n_dis += 1
                # the model is proved equal to the declarative order, so a
                # disagreement on is_subtype IS a failing input of the property
                rep.violation(f"disagree_{tag}_{ci}_{n_dis}", {
                    "kind": "correspondence+oracle",
                    "what": "is_subtype/match differs from the declarative order (model proved = Sub: C01_exact, C01_is_subtype)",
                    "hierarchy": h.to_json(), "s": s, "t": t,
                    "s_text": C.ty_str(s, h.names()), "t_text": C.ty_str(t, h.names()),
                    "observation_order": ["is_subtype", "is_subtype(strict)", "match(subtype)", "match"],
                    "impl": io, "model": mo}, has_input=True)
                if n_dis > 5:
                    break
        if oppairs is not None:
            mo = vals[1]
            for (a, b), m2 in zip(oppairs, mo):
                io = [int(bool(h.ops[a].subtype(h.ops[b]))), int(bool(h.ops[a].subtype(h.ops[b], True)))]
                n_eval += 1
                if io != m2:
                    n_dis += 1
                    rep.violation(f"opdisagree_{tag}_{ci}_{a}_{b}", {
                        "kind": "correspondence+oracle",
                        "what": "TypeOperator.subtype differs from the declared ancestor chain (C01_op_subtype)",
                        "hierarchy": h.to_json(), "a": a, "b": b, "impl": io, "model": m2})
        # oracle: order axioms on the implementation's own answers
        for (a, b, c) in triples:
            A, B, Cc = h.inst(a), h.inst(b), h.inst(c)
            if A.is_subtype(B) and B.is_subtype(Cc) and not A.is_subtype(Cc):
                rep.violation(f"trans_{tag}_{ci}", {"kind": "oracle", "what": "transitivity fails",
                    "hierarchy": h.to_json(), "a": a, "b": b, "c": c})
        for (s, t) in chunk[:400]:
            S, T = h.inst(s), h.inst(t)
            if S.is_subtype(S) is not True:
                rep.violation(f"refl_{tag}_{ci}", {"kind": "oracle", "what": "reflexivity fails",
                    "hierarchy": h.to_json(), "s": s})
            st, ts_ = S.is_subtype(T), T.is_subtype(S)
            if st is None or ts_ is None:
                rep.violation(f"unknown_{tag}_{ci}", {"kind": "oracle", "what": "answer is None on concrete types",
                    "hierarchy": h.to_json(), "s": s, "t": t})
            if st and ts_ and s != t:
                rep.violation(f"antisym_{tag}_{ci}", {"kind": "oracle", "what": "antisymmetry fails",
                    "hierarchy": h.to_json(), "s": s, "t": t})
            if bool(S.is_subtype(T, strict=True)) != (bool(st) and s != t):
                rep.violation(f"strict_{tag}_{ci}", {"kind": "oracle", "what": "strict form is not 'subtype and different'",
                    "hierarchy": h.to_json(), "s": s, "t": t})
    return n_eval, len(distinct), n_dis, dist, samples


def main(tier: str, seed: int, replay: str | None = None) -> int:
    C.force_repo_on_path()
    rep = C.Report("C01", tier, seed)
    rep.proof_stage()
    rng = random.Random(seed)
    if tier == "quick":
        cases = gen_cases(rng, 30, 80, 3) + exhaustive_cases(1)
    else:
        cases = gen_cases(rng, 150, 200, 3) + exhaustive_cases(2)
    n, d, dis, dist, samples = run_cases(rep, cases, tier)
    rep.coverage.update({
        "evaluations": n, "distinct_nontrivial": d, "disagreements": dis,
        "rule": "random forests (1-8 base types, 0-3 compound operators of arity 1-3 with random variance) "
                "and related pairs/triples of concrete types to depth 3, plus all pairs over three fixed "
                f"hierarchies to depth {1 if tier == 'quick' else 2}; non-trivial = both compound, or two distinct user base types on one chain",
        "samples": samples, "outcome_distribution": dist,
        "exhaustive": False,
    })
    rep.assumptions = [
        "hierarchies are forests of base types declared in order (wf_hier); base types below Bottom/compound operators are outside the property",
        "agreement between model and implementation is tested on the generated cases, not proved",
    ]
    return rep.finish(C.TRUSTED)
