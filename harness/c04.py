"""C04  Every expression that parses is well-typed at every application node.

proof stage     coq/props/C04.v: the per-node checker is sound w.r.t. Sub (shared with C03)
correspondence  Language.parse(text) + Expr.fix() on /repo vs the engine model running the
                construction sequence of the same tree (leaf instantiation, apply, annotation
                unify, fix traversal); complete canonical store compared
oracle          per application node: function part has a function type whose input is a
                supertype of the argument and whose output is the node's type (verified
                checker on the model state + Python re-evaluation on the implementation's
                objects); operator leaves are instances of their declared signature;
                annotated nodes are subtypes of their annotation; the property's own
                ill-typed example is rejected
"""
from __future__ import annotations

import random

from . import common as C
from . import engine as E


# ---------------------------------------------------------------- languages

def gen_language(rng, h):
    """Operators as (name, schema, params, result)."""
    ops = []
    base = [("o", o, []) for o in range(5, 5 + h.nbase)]
    un = [o for o in h.ids if h.arity(o) == 1]
    F = un[0]
    nops = rng.randint(4, 7)
    for i in range(nops):
        kind = rng.choice(["mono", "mono", "poly", "poly", "constr", "ho", "data", "pdata", "inst", "wp"])
        if i == 0:
            # every language has one operator of the shape of the property's own example, f : x ** x ** x
            k = rng.choice([2, 3, 3])
            body = ("v", 0)
            for _ in range(k):
                body = ("o", 3, [("v", 0), body])
            ops.append(("j0", (1, body, []), [("v", 0)] * k, ("v", 0)))
            continue
        if kind == "inst":
            # a signature written without a lambda: a type instance.  With a `_` in
            # it the one variable would be shared by every use; Operator.validate
            # rejects such a definition (build_language then drops the operator)
            params = [E.gen_sty(rng, h, 0, 1, p_var=0, p_wild=0.25) for _ in range(rng.randint(1, 2))]
            res = E.gen_sty(rng, h, 0, 1, p_var=0, p_wild=0)
            body = res
            for p in reversed(params):
                body = ("o", 3, [p, body])
            ops.append((f"i{i}", (0, body, []), params, res))
            continue
        if kind == "wp":
            # a ** r(b) [a << with_parameters(K1, K2, ...)]: the alternatives are built by the
            # library's helper each time the signature is instantiated (K(_) or K(b))
            comp = [q for q in h.ids if h.arity(q) >= 1]
            ks = rng.sample(comp, k=rng.randint(1, min(2, len(comp))))
            b_ = ("v", 1)
            mode = rng.random()
            c = ("elimwp", ("v", 0), ks, None, None) if mode < 0.5 else \
                ("elimwp", ("v", 0), ks, b_, None) if mode < 0.8 else ("elimwp", ("v", 0), ks, b_, 1)
            res = rng.choice([b_, rng.choice(base)])
            hint = ("o", ks[0], [("w",)] * h.arity(ks[0]))      # what arguments to generate for it
            ops.append((f"f{i}", (2, ("o", 3, [("v", 0), res]), [c]), [hint], res))
            continue
        if kind == "pdata":
            # a polymorphic constant such as nil : L(x): every occurrence is a fresh instance
            t = ("o", F, [("v", 0)])
            ops.append((f"d{i}", (1, t, []), [], t))
            continue
        if kind == "data":
            t = rng.choice(base + [("o", F, [rng.choice(base)])])
            ops.append((f"d{i}", (0, t, []), [], t))
            continue
        if kind == "mono":
            # a signature without schematic variables may still mention `_` (written `lambda: A ** F(_)`):
            # every instance gets its own variable for it
            pw = 0.2 if rng.random() < 0.35 else 0
            params = [E.gen_sty(rng, h, 0, 1, p_var=0, p_wild=pw) for _ in range(rng.randint(1, 3))]
            res = E.gen_sty(rng, h, 0, 1, p_var=0, p_wild=pw / 2)
            if res[0] == "w":
                res = rng.choice(base)
            n, cs = 0, []
        elif kind == "poly":
            n = rng.randint(1, 2)
            dp = 2 if rng.random() < 0.3 else 1       # F(G(y)): a variable two levels down
            params = [E.gen_sty(rng, h, n, dp, p_var=0.6, p_wild=0.05) for _ in range(rng.randint(1, 3))]
            res = E.gen_sty(rng, h, n, dp, p_var=0.7, p_wild=0)
            cs = []
        elif kind == "constr":
            n = rng.randint(1, 2)
            dp = 2 if rng.random() < 0.3 else 1
            params = [E.gen_sty(rng, h, n, dp, p_var=0.7, p_wild=0.05) for _ in range(rng.randint(1, 2))]
            res = E.gen_sty(rng, h, n, dp, p_var=0.7, p_wild=0)
            cs = [E.gen_constraint(rng, h, n) for _ in range(rng.randint(1, 2))]
        else:  # higher-order
            n = rng.randint(1, 2)
            a, b_ = ("v", 0), ("v", n - 1)
            fn = ("o", 3, [rng.choice([a, ("w",)]), b_])
            params = [fn] + [rng.choice([a, a, ("o", F, [a]), rng.choice(base)]) for _ in range(rng.randint(1, 2))]
            rng.shuffle(params)      # a value argument may bound the variable before the function argument does
            res = rng.choice([b_, ("o", F, [b_])])
            cs = []
        body = res
        for p in reversed(params):
            body = ("o", 3, [p, body])
        ops.append((f"f{i}", (n, body, cs), params, res))
    return ops


def build_language(h, ops):
    import transforge as tf
    scope = {}
    for i, op in h.ops.items():
        if i >= 5:
            scope[str(op)] = op
    names = {i: (str(h.ops[i]) if i >= 5 else f"op{i}") for i in h.ops}
    env = {str(h.ops[i]): h.ops[i] for i in h.ops if i >= 5}
    env.update({"op0": h.ops[0], "op1": h.ops[1], "op2": h.ops[2], "_": tf._,
                "with_parameters": tf.type.with_parameters})
    from transforge.expr import DeclarationError
    kept = []
    for name, sc, params, res in ops:
        src = E.schema_py(sc, names)
        if name.startswith("i"):
            src = src.split(":", 1)[1]          # the bare type expression, no lambda
        op = tf.Operator(type=eval(src, dict(env)))
        try:
            op.validate()
        except DeclarationError:
            continue                            # an invalid definition is not part of the language
        scope[name] = op
        kept.append((name, sc, params, res))
    ops[:] = kept
    return tf.Language(scope=scope), names


# -------------------------------------------------------------- expressions
# tree: ("op", name) | ("src", annotation or None) | ("in", k) | ("app", f, x) | ("ann", e, T)

def fits_result(h, res, target) -> bool:
    """Heuristic: could an expression of result type `res` be passed where
    `target` is expected?"""
    if target is None or target[0] in ("v", "w") or res[0] in ("v", "w"):
        return True
    if not target[2] and not res[2]:
        return target[1] in E.chain_of(h, res[1]) or target[1] == 0 or res[1] == 1
    if target[1] != res[1] or len(target[2]) != len(res[2]):
        return False
    return all(fits_result(h, r, t) for r, t in zip(res[2], target[2]))


def remaining_type(f, nargs):
    """Result type of operator f after nargs arguments (curried)."""
    t = f[3]
    for p in reversed(f[2][nargs:]):
        t = ("o", 3, [p, t])
    return t


INPUT_HEAVY = {"p": 0.0}     # set per expression by main(): probability that a leaf is a numbered input


def gen_expr(rng, h, ops, target, depth, ninputs, assign=None):
    base = [("o", o, []) for o in range(5, 5 + h.nbase)]
    assign = {} if assign is None else assign
    r = rng.random()
    want_fun = target is not None and target[0] == "o" and target[1] == 3
    if not want_fun and (depth <= 0 or r < 0.45):
        if ninputs and INPUT_HEAVY["p"] and rng.random() < INPUT_HEAVY["p"]:
            # the same input object in several places, sometimes annotated (`(1 : A)` is checked,
            # and bounds an input that was given without a type)
            leaf = ("in", rng.randrange(ninputs))
            return ("ann", leaf, rng.choice(base)) if rng.random() < 0.25 else leaf
        if target is not None and target[0] == "o" and target[2] and rng.random() < 0.3:
            # a compound value is wanted: a (possibly polymorphic) constant with that head operator
            heads = [o for o in ops if not o[2] and o[3][0] == "o" and o[3][1] == target[1]]
            if heads:
                return ("op", rng.choice(heads)[0])
        q = rng.random()
        if q < 0.6:
            t = E.instantiate(rng, h, target, assign) if target is not None else rng.choice(base)
            if has_var(t):
                t = rng.choice(base)
            if has_fun(t):
                return ("src", None)      # function types cannot be written in type notation
            if t[2] and rng.random() < 0.35:
                t = punch_hole(rng, t)    # `- : F(_)`: parse_type makes a fresh variable per `_`
            if not has_hole(t) and rng.random() < 0.12:
                # a second annotation on an already typed source is checked, not taken over
                t2 = ("o", rng.choice(E.chain_of(h, t[1])), []) if not t[2] and rng.random() < 0.6 else rng.choice(base)
                return ("ann", ("src", t), t2)
            return ("src", t)
        if q < 0.72:
            return ("src", None)
        if q < 0.86 and ninputs:
            # numbered inputs are shared objects: using one several times lets
            # its (possibly still variable) type accumulate bounds
            return ("in", rng.randrange(ninputs))
        data = [o for o in ops if not o[2] and fits_result(h, o[3], target)]
        if data:
            d = rng.choice(data)
            leaf = ("op", d[0])
            if rng.random() < 0.3 and not has_var(d[3]) and not has_fun(d[3]):
                # annotate a constant: `c : T` must CHECK c's type against T
                t = d[3]
                t = ("o", rng.choice(E.chain_of(h, t[1])), []) if not t[2] and rng.random() < 0.7 else rng.choice(base)
                return ("ann", leaf, t)
            return leaf
        return ("src", None)
    fs = [o for o in ops if o[2]]
    if want_fun:
        # a function is wanted: an operator or a partial application whose
        # remaining type has the right shape
        cands = [(f, k) for f in fs for k in range(len(f[2])) if fits_result(h, remaining_type(f, k), target)]
        if depth <= 0:
            cands = [(f, k) for f, k in cands if k == 0]
        cands = cands or [(rng.choice(fs), 0)]
        f, k = rng.choice(cands)
    else:
        cands = [f for f in fs if fits_result(h, f[3], target)]
        f = rng.choice(cands) if cands and rng.random() < 0.9 else rng.choice(fs)
        k = len(f[2]) if rng.random() < 0.9 else rng.randint(1, len(f[2]))
    e = ("op", f[0])
    inner = {}
    for p in f[2][:k]:
        e = ("app", e, gen_expr(rng, h, ops, p, depth - 1, ninputs, inner))
    if rng.random() < 0.1 and not want_fun and not has_var(f[3]) and not has_fun(f[3]) and k == len(f[2]):
        # annotate with a supertype of the declared result
        t = f[3]
        if not t[2]:
            t = ("o", rng.choice(E.chain_of(h, t[1])), [])
        e = ("ann", e, t)
    elif rng.random() < 0.03:
        e = ("ann", e, rng.choice(base))
    return e


def punch_hole(rng, t):
    """Replace one proper subterm by the wildcard `_`."""
    if not t[2]:
        return ("w",)
    i = rng.randrange(len(t[2]))
    sub = t[2][i]
    new = ("w",) if not sub[2] or rng.random() < 0.5 else punch_hole(rng, sub)
    return ("o", t[1], t[2][:i] + [new] + t[2][i + 1:])


def holes_to_vars(t, counter):
    """`_` in type notation is a plain fresh TypeVariable (not a wildcard):
    model it as a schematic variable of a one-off schema."""
    if t[0] == "w":
        counter[0] += 1
        return ("v", counter[0] - 1)
    if t[0] == "v":
        return t
    return ("o", t[1], [holes_to_vars(a, counter) for a in t[2]])


def sty_to_conc(t):
    return (t[1], [sty_to_conc(a) for a in t[2]])


def has_fun(t):
    return t[0] == "o" and (t[1] == 3 or any(has_fun(a) for a in t[2]))


def has_var(t):
    return t[0] in ("v", "w") or any(has_var(a) for a in t[2])


def has_hole(t):
    return t[0] == "w" or (t[0] == "o" and any(has_hole(a) for a in t[2]))


def type_text(t, names):
    if t[0] == "w":
        return "_"
    o, args = t[1], t[2]
    if o == 3:
        raise ValueError
    if o == 4:
        return f"({type_text(args[0], names)} * {type_text(args[1], names)})"
    nm = {0: "Top", 1: "Bottom"}.get(o, names[o])
    return nm + (f"({', '.join(type_text(a, names) for a in args)})" if args else "")


def render(e, names, top=True):
    k = e[0]
    if k == "op":
        return e[1]
    if k == "src":
        return "-" if e[1] is None else f"(- : {type_text(e[1], names)})"
    if k == "in":
        return str(e[1] + 1)
    if k == "ann":
        return f"({render(e[1], names)} : {type_text(e[2], names)})"
    s = f"{render(e[1], names)} {render(e[2], names, False)}"
    return s if top else f"({s})"


class Compiler:
    """Tree -> engine commands in the parser's construction order."""

    def __init__(self, ops, inputs):
        self.ops = {o[0]: o for o in ops}
        self.cmds = []
        self.n = 0
        self.steps = []
        self.input_vals = {}
        self.inputs = inputs
        self.leaves = []      # (value index, operator name)
        self.anns = []        # (value index of e, T)
        self.fixorder = []

    def push(self, c):
        self.cmds.append(c)
        self.n += 1
        return self.n - 1

    def build(self, e):
        k = e[0]
        if k == "op":
            v = self.push(("inst", self.ops[e[1]][1]))
            self.leaves.append((v, e[1]))
            # a non-function operator is instantiated as a Source
            return ("leaf", v) if self.ops[e[1]][2] else ("source", v)
        if k == "src":
            if e[1] is None:
                return ("source", self.push(("inst", (0, ("w",), []))))
            # `- : T`: the anonymous source's wildcard type is replaced by T
            # (`previous.type = t`), then T is unified with itself
            cnt = [0]
            body = holes_to_vars(e[1], cnt)
            t = self.push(("inst", (cnt[0], body, [])))
            self.cmds.append(("unify", t, t, True))
            return ("source", t)
        if k == "in":
            return ("source", self.input_vals[e[1]])
        if k == "ann":
            node = self.build(e[1])
            t = self.push(("inst", (0, e[2], [])))
            self.cmds.append(("unify", node[1], t, True))
            self.anns.append((node[1], e[2]))
            return node
        f = self.build(e[1])
        x = self.build(e[2])
        v = self.push(("apply", f[1], x[1], True))
        self.steps.append((f[1], x[1], v))
        return ("app", v, f, x)

    def fix(self, node):
        if node[0] == "source":
            self.push(("fix", node[1], False))
        elif node[0] == "app":
            self.fix(node[2])
            self.fix(node[3])
            self.push(("fix", node[1], True))


def gen_shared_input(rng, h, ops, depth):
    """Shared-input family: one input given without a type is used in several places under
    variable-typed and fixed-typed parameters, next to sources taken from one chain of the
    hierarchy, so that its type variable is aliased repeatedly while it carries bounds."""
    deep = max(range(5, 5 + h.nbase), key=lambda o: (len(E.chain_of(h, o)), rng.random()))
    chain = [("o", o, []) for o in E.chain_of(h, deep)]
    inchain = lambda t: t[0] == "v" or (t[0] == "o" and not t[2] and t in chain)
    fs = [o for o in ops if o[2] and all(inchain(p) for p in o[2]) and inchain(o[3])]

    def leaf():
        r = rng.random()
        if r < 0.5:
            e = ("in", 0)
            return ("ann", e, rng.choice(chain)) if rng.random() < 0.4 else e
        if r < 0.9:
            return ("src", rng.choice(chain))
        return ("src", None)

    def go(d, p_leaf):
        if d <= 0 or rng.random() < p_leaf or not fs:
            return leaf()
        f = rng.choice(fs)
        e = ("op", f[0])
        for i in range(len(f[2])):
            # the earlier arguments are mostly leaves, the last one mostly nested: bounds are
            # collected while the application is still partial (a complete one is fixed at once)
            e = ("app", e, go(d - 1, 0.25 if i == len(f[2]) - 1 else 0.75))
        return e
    return go(depth, 0.0)


def compile_case(ops, tree, input_types):
    c = Compiler(ops, input_types)
    for i, t in enumerate(input_types):
        # an input given without a type is `Source()`: a fresh variable
        c.input_vals[i] = c.push(("inst", (0, t if t is not None else ("w",), [])))
    root = c.build(tree)
    c.fix(root)
    return c, root


def impl_values(h, lang, names, tree, input_types, comp_root):
    """Run the real parser; return (error or None, values aligned with the
    compiled program's value indices, root Expr)."""
    import transforge as tf
    from transforge.expr import Application, Source, Operation
    inputs = [tf.Source(build_conc(h, t)) if t is not None else tf.Source() for t in input_types]
    text = render(tree, names)
    try:
        expr = lang.parse(text, *inputs)
        expr.fix()
    except Exception as e:  # noqa: BLE001
        cause = e.__cause__
        from transforge.lang import ParseError
        from transforge.expr import ApplicationError
        declared = isinstance(e, (tf.type.TypingError, ApplicationError, ParseError))
        return (type(e).__name__, type(cause).__name__ if cause else None, declared), None, None, text
    return None, expr, inputs, text


def build_conc(h, t):
    return h.ops[t[1]](*(build_conc(h, a) for a in t[2]))


def collect_values(expr, tree, inputs, h, vals):
    """Walk Expr and tree together in construction order, appending the type
    object of every value the compiled program pushes."""
    from transforge.expr import Application
    k = tree[0]
    if k == "op":
        vals.append(expr.type)
    elif k == "src":
        vals.append(expr.type)
    elif k == "in":
        pass
    elif k == "ann":
        collect_values(expr, tree[1], inputs, h, vals)
        vals.append(build_conc(h, tree[2]))
    else:
        assert isinstance(expr, Application)
        collect_values(expr.f, tree[1], inputs, h, vals)
        collect_values(expr.x, tree[2], inputs, h, vals)
        vals.append(expr.type)


def collect_fix(expr, tree, vals):
    from transforge.expr import Source
    k = tree[0]
    if k in ("src", "in") or (k == "op" and isinstance(expr, Source)):
        vals.append(expr.type)
    elif k == "ann":
        collect_fix(expr, tree[1], vals)
    elif k == "app":
        collect_fix(expr.f, tree[1], vals)
        collect_fix(expr.x, tree[2], vals)
        vals.append(expr.type)


def schema_instance_ok(h, body, mt, env, wild=None):
    """Is the mirror type mt a substitution instance of the schematic body?"""
    mt = E.follow(mt)
    if body[0] == "w":
        return True
    if body[0] == "v":
        if body[1] in env:
            return same_mirror(env[body[1]], mt)
        env[body[1]] = mt
        return True
    if isinstance(mt, E.MVar):
        return False
    if mt.op != body[1] or len(mt.params) != len(body[2]):
        return False
    return all(schema_instance_ok(h, b_, p, env) for b_, p in zip(body[2], mt.params))


def same_mirror(a, b_):
    a, b_ = E.follow(a), E.follow(b_)
    if isinstance(a, E.MVar) or isinstance(b_, E.MVar):
        return a is b_
    return a.op == b_.op and len(a.params) == len(b_.params) and all(
        same_mirror(x, y) for x, y in zip(a.params, b_.params))


def main(tier: str, seed: int, replay: str | None = None) -> int:
    C.force_repo_on_path()
    rep = C.Report("C04", tier, seed)
    rep.proof_stage()
    rep.proof_stage("C04_sub")      # ... and for operators with subtype constraints x <= A / x < A
    rep.proof_stage("C04_elim")     # ... and for operators with elimination constraints over base-type alternatives
    rep.proof_stage("C04_conc")     # the declared constraints of every operator leaf hold, for concrete targets/alternatives of any shape
    rep.proof_stage("C04_gen")      # node typing, leaf instances, annotations, re-fixed tree for operators with ARBITRARY constraints
    rep.proof_stage("C04_core")     # every node well-typed, leaves are instances, annotations hold - unconditionally for constraint-free operators
    rng = random.Random(seed)
    nh, npl = (40, 80) if tier == "quick" else (150, 200)

    # the property's own example: f : x ** x ** x, f (-: C) (-: G(A, C)) must be rejected
    hx = C.Hierarchy({}, {7: [True, True]}, 2)      # A=5, C=6, G=7
    hx.build()
    ops_x = [("f", (1, ("o", 3, [("v", 0), ("o", 3, [("v", 0), ("v", 0)])]), []),
              [("v", 0), ("v", 0)], ("v", 0))]
    lang_x, names_x = build_language(hx, ops_x)
    tree_x = ("app", ("app", ("op", "f"), ("src", ("o", 6, []))), ("src", ("o", 7, [("o", 5, []), ("o", 6, [])])))
    err_x, _, _, text_x = impl_values(hx, lang_x, names_x, tree_x, [], None)
    if err_x is None:
        rep.violation("example_accepted", {"kind": "oracle", "text": text_x,
            "what": "the ill-typed example of the property text is accepted"}, has_input=True)

    items = []
    metas = []
    for _ in range(nh):
        h = E.gen_engine_hier(rng)
        h.build()
        ops = gen_language(rng, h)
        try:
            lang, names = build_language(h, ops)
        except Exception as e:  # a generated schema may already be inconsistent at declaration
            if isinstance(e, (NameError, AttributeError, KeyError, SyntaxError)):
                raise           # a defect of this harness, not of the generated language
            continue
        progs = []
        for _ in range(npl):
            ninputs = rng.choice([0, 0, 1, 2])
            input_types = [None if rng.random() < 0.4 else ("o", rng.randrange(5, 5 + h.nbase), [])
                           for _ in range(ninputs)]
            if rng.random() < 0.3:
                # input-heavy family: one or two inputs given without a type, used in many places
                ninputs = rng.choice([1, 1, 2])
                input_types = [None if rng.random() < 0.8 else ("o", rng.randrange(5, 5 + h.nbase), [])
                               for _ in range(ninputs)]
                INPUT_HEAVY["p"] = 0.5
            tree = gen_expr(rng, h, ops, None, 3, ninputs)
            INPUT_HEAVY["p"] = 0.0
            if rng.random() < 0.3:
                input_types = [None]
                tree = gen_shared_input(rng, h, ops, 3)
            if tree[0] != "app":
                continue
            comp, root = compile_case(ops, tree, input_types)
            progs.append((comp.cmds, []))
            metas.append((h, lang, names, ops, tree, input_types, comp, root))
        items.append((h, progs))
    dumps = E.model_eval(f"C04_{tier}", items, check=True)
    flat_rows = [rows for rows_list in dumps for rows in rows_list]

    stats = {"parsed": 0, "rejected": 0, "checker_validated": 0, "app_nodes": 0, "leaves_checked": 0,
             "annotations_checked": 0, "errors": {}}
    distinct = set()
    samples = []
    dis = 0
    for (h, lang, names, ops, tree, input_types, comp, root), rows in zip(metas, flat_rows):
        crow, rows = rows[-1], rows[:-1]
        mo = E.observe_model(rows)
        err, expr, inputs, text = impl_values(h, lang, names, tree, input_types, root)
        payload = {"hierarchy": h.to_json(), "text": text, "inputs": input_types,
            "operators": {o[0]: E.schema_py(o[1], {i: (str(h.ops[i]) if i >= 5 else f"op{i}") for i in h.ops}) for o in ops}}
        if err is not None:
            stats["rejected"] += 1
            stats["errors"][err[0]] = stats["errors"].get(err[0], 0) + 1
            if mo["err"] is None:
                dis += 1
                rep.violation(f"K_reject_{stats['rejected']}", dict(payload, kind="correspondence",
                    what="the implementation rejects an expression the engine model accepts (K_C04)",
                    impl_error=list(err[:2])), has_input=False)
            elif not err[2]:
                rep.violation(f"undeclared_{stats['rejected']}", dict(payload, kind="oracle",
                    what=f"parsing raised {err[0]} (cause {err[1]})"), has_input=True)
            elif err[1] is not None and E.ERRNAME.get(mo["err"][0]) != err[1]:
                dis += 1
                rep.violation(f"K_errkind_{stats['rejected']}", dict(payload, kind="correspondence",
                    what="implementation and engine model reject with different error kinds (K_C04)",
                    impl_error=list(err[:2]), model_error=mo["err"]), has_input=False)
            continue
        stats["parsed"] += 1
        if mo["err"] is not None:
            dis += 1
            rep.violation(f"K_accept_{stats['parsed']}", dict(payload, kind="correspondence",
                what="the implementation accepts an expression the engine model rejects (K_C04)",
                model_error=mo["err"]), has_input=False)
        vals = []
        for t in inputs:
            vals.append(t.type)
        collect_values(expr, tree, inputs, h, vals)
        collect_fix(expr, tree, vals)
        mvals = E.snap_impl(h, vals)
        io = {"err": None, **E.canon(mvals)}
        if mo["err"] is None and io != mo:
            dis += 1
            if dis <= 5:
                rep.violation(f"K_state_{stats['parsed']}", dict(payload, kind="correspondence",
                    what="typed tree of the implementation differs from the engine model's (K_C04)",
                    impl=io, model=mo), has_input=False)
        # oracle (a): verified checker on the model state (equal to the implementation's)
        if mo["err"] is None:
            if crow[1:4] == [1, 1, 1] and crow[4] > 0:
                stats["checker_validated"] += 1
            elif io == mo:
                rep.violation(f"node_{stats['parsed']}", dict(payload, kind="oracle (verified checker)",
                    what="an application node is not well-typed under some grounding", checker_row=crow),
                    has_input=True)
        # oracle (b): on the implementation's own objects
        probs = E.py_witness(h, comp.cmds, mvals)
        stats["app_nodes"] += len(comp.steps)
        if probs:
            rep.violation(f"pynode_{stats['parsed']}", dict(payload, kind="oracle (implementation state)",
                what="application node ill-typed: " + str(probs[0][0]), problems=[repr(p) for p in probs[:4]]),
                has_input=True)
        opmap = {o[0]: o for o in ops}
        for v, name in comp.leaves:
            stats["leaves_checked"] += 1
            if not schema_instance_ok(h, opmap[name][1][1], mvals[v], {}):
                rep.violation(f"leaf_{stats['parsed']}_{v}", dict(payload, kind="oracle",
                    what=f"operator leaf {name} does not carry an instance of its declared signature",
                    leaf_type=repr(io["vals"][v])), has_input=True)
        for v, T in comp.anns:
            stats["annotations_checked"] += 1
            vs = E.m_vars(mvals[v], [])
            if not vs:
                g = E.m_ground(mvals[v], {})
                if not E.py_sub(h, g, sty_to_conc(T)):
                    rep.violation(f"ann_{stats['parsed']}_{v}", dict(payload, kind="oracle",
                        what="annotated sub-expression is not a subtype of its annotation", type=repr(g)),
                        has_input=True)
        if len(comp.steps) >= 2:
            distinct.add(text + repr(h.to_json()))
        if len(samples) < 3 and len(comp.steps) >= 3:
            samples.append({"text": text, "operators": payload["operators"], "root_type": repr(io["vals"][-1])})

    n = stats["parsed"] + stats["rejected"]
    rep.coverage.update({
        "evaluations": n, "distinct_nontrivial": len(distinct), "disagreements": dis,
        "rule": "generated languages of 4-7 operators (monomorphic, polymorphic, constrained, higher-order, data constants) "
                "over random hierarchies; expression trees to depth 3 guided by parameter types (typed, untyped and numbered "
                "sources, partial application, annotations), rendered as text and parsed by Language.parse; non-trivial = "
                "accepted expression with >= 2 application nodes",
        "outcome_distribution": stats, "samples": samples, "exhaustive": False})
    rep.assumptions = [
        "universal well-typedness is proved in per-instance form only (verified checker, as C03)",
        "the construction order of the parser is taken from the C13 model (post-order, left to right)",
    ]
    return rep.finish(C.TRUSTED)
