"""C12  A workflow's graph is the graph of its tools plugged together.

proof stage     coq/props/C12.v  (model Graph/Workflow.v of add_workflow on top of C08's
                add_expr model: for every acyclic workflow with one final application,
                any listing order, passthrough on and off, the from/via/internal triples
                are exactly the data-flow graphs of the tool expressions plugged together
                = the data-flow graph of the inlined expression; one node per resource;
                inputs/output marked; source_types independent of the listing order)
correspondence  TransformationGraph.add_workflow of /repo vs the Gallina model on generated
                workflows (from/via/internal triples, resource->node map, input and output
                marks, compared up to blank-node renaming), several listing orders each
oracle          evaluated on the implementation only:
                (a) an independently built graph (tool trees named by (resource, path),
                    plugged together as the property says) is isomorphic to the
                    implementation's structural triples and map;
                (b) typed: the workflow graph and the graph add_expr gives for the inlined
                    expression (built with the public parser) agree on every node's
                    operator/type/label (isomorphic when no intermediate result is shared,
                    otherwise the workflow graph is the inlined graph with the copies of
                    each shared result merged);
                (c) every listing order of the applications and of the sources, and
                    WorkflowDict / WorkflowGraph (RDF) / the harness' own Workflow give
                    isomorphic typed graphs (or the same error);
                (d) passthrough off: every tool input that is another tool's output is its
                    own source node, typed as the tool typed in isolation types it, fed by
                    the producer's node.
"""
from __future__ import annotations

import itertools
import json
import random
import re
from collections import Counter

from . import common as C

PID = "C12"

# --------------------------------------------------------------------------
# generated languages
#
# harness-side types:  "T3" (base) | ("F", t) (unary covariant compound)

NS = "https://example.com/#"


class Lang:
    """base-type forest, optional compound F, operators with declared signatures.

    operator kinds (sig is the text handed to transforge, params/res for generation):
      mono   P1 ** .. ** R                 (first order, concrete)
      id     x ** x [x <= T]
      join   x ** x ** x [x <= T]
      wrap   x ** F(x) [x <= T]     unwrap  F(x) ** x [x <= T]
      ho     (P ** Q) ** D.. ** R          (function-typed parameters, concrete)
    """

    def __init__(self, parents: dict, has_f: bool, ops: list, canon_f: list):
        self.parents = parents          # base name -> parent name | None
        self.has_f = has_f
        self.ops = ops                  # list of dicts
        self.canon_f = canon_f          # base names b for which F(b) is declared canonical
        self.index = {o["name"]: i for i, o in enumerate(ops)}

    # ---- order on harness types
    def anc(self, b):
        out = [b]
        while self.parents.get(b) is not None:
            b = self.parents[b]
            out.append(b)
        return out

    def sub(self, s, t) -> bool:
        if isinstance(s, tuple) or isinstance(t, tuple):
            return isinstance(s, tuple) and isinstance(t, tuple) and self.sub(s[1], t[1])
        return t in self.anc(s)

    def subs(self, t):
        """all harness types below t (incl.)"""
        if isinstance(t, tuple):
            return [("F", s) for s in self.subs(t[1])]
        return [b for b in self.parents if self.sub(b, t)]

    def meet(self, s, t):
        if self.sub(s, t):
            return s
        if self.sub(t, s):
            return t
        return None

    def join(self, s, t):
        if self.sub(s, t):
            return t
        if self.sub(t, s):
            return s
        if isinstance(s, tuple) or isinstance(t, tuple):
            if isinstance(s, tuple) and isinstance(t, tuple):
                j = self.join(s[1], t[1])
                return None if j is None else ("F", j)
            return None
        for a in self.anc(s):
            if a in self.anc(t):
                return a
        return None

    def to_json(self):
        return {"parents": self.parents, "has_f": self.has_f, "ops": self.ops,
                "canon_f": self.canon_f}

    @staticmethod
    def from_json(d) -> "Lang":
        def fixt(t):
            return tuple(fixt(x) for x in t) if isinstance(t, list) else t
        ops = []
        for o in d["ops"]:
            o = dict(o)
            o["params"] = [fixt(p) for p in o["params"]]
            o["res"] = fixt(o["res"])
            o["bound"] = fixt(o.get("bound"))
            ops.append(o)
        return Lang(d["parents"], d["has_f"], ops, d.get("canon_f", []))

    # ---- the real thing
    def build(self):
        import transforge.type as T
        from transforge.expr import Operator
        from transforge.lang import Language
        tops = {}
        for b in self.parents:                      # declared parents-first
            p = self.parents[b]
            tops[b] = T.TypeOperator(b, supertype=tops[p] if p is not None else None)
        scope = dict(tops)
        if self.has_f:
            Fop = T.TypeOperator("F", params=1)
            scope["F"] = Fop
        self.tops = tops

        def pt(t):
            if isinstance(t, tuple):
                if t[0] == "F":
                    return Fop(pt(t[1]))
                # ("fn", [params], res)
                r = pt(t[2])
                for p in reversed(t[1]):
                    r = pt(p) ** r
                return r
            return tops[t]()
        self.pt = pt
        for o in self.ops:
            k = o["kind"]
            if k in ("mono", "ho"):
                ty = pt(("fn", o["params"], o["res"]))
            else:
                bound = tops[o["bound"]]
                if k == "id":
                    ty = (lambda bd: (lambda x: (x ** x)[x <= bd]))(bound)
                elif k == "join":
                    ty = (lambda bd: (lambda x: (x ** x ** x)[x <= bd]))(bound)
                elif k == "wrap":
                    ty = (lambda bd: (lambda x: (x ** Fop(x))[x <= bd]))(bound)
                else:
                    ty = (lambda bd: (lambda x: (Fop(x) ** x)[x <= bd]))(bound)
            scope[o["name"]] = Operator(type=ty)
        canon = None
        if self.has_f and self.canon_f:
            canon = set(tops.values()) | {Fop(tops[b]()) for b in self.canon_f}
        self.language = Language(scope, namespace=NS, **({"canon": canon} if canon else {}))
        return self.language

    def ty_text(self, t) -> str:
        if isinstance(t, tuple):
            if t[0] == "F":
                return f"F({self.ty_text(t[1])})"
            ps = [("(" + self.ty_text(p) + ")") if isinstance(p, tuple) and p[0] == "fn"
                  else self.ty_text(p) for p in t[1]]
            return " ** ".join(ps + [self.ty_text(t[2])])
        return t

    def sig_text(self, o) -> str:
        k = o["kind"]
        if k in ("mono", "ho"):
            return self.ty_text(("fn", o["params"], o["res"]))
        return {"id": "x ** x", "join": "x ** x ** x", "wrap": "x ** F(x)",
                "unwrap": "F(x) ** x"}[k] + f" [x <= {o['bound']}]"


def is_fn(t) -> bool:
    return isinstance(t, tuple) and t[0] == "fn"


def gen_lang(rng: random.Random) -> Lang:
    n = rng.randint(2, 6)
    parents = {}
    depth = {}
    names = [f"T{i}" for i in range(n)]
    for i, b in enumerate(names):
        cands = [c for c in names[:i] if depth[c] < 3]
        if cands and rng.random() < 0.8:
            p = rng.choice(cands)
            parents[b] = p
            depth[b] = depth[p] + 1
        else:
            parents[b] = None
            depth[b] = 0
    has_f = rng.random() < 0.45
    lang = Lang(parents, has_f, [], [])
    if has_f and rng.random() < 0.6:
        lang.canon_f = rng.sample(names, rng.randint(1, min(2, n)))

    def rb():
        return rng.choice(names)

    def rt():
        if has_f and rng.random() < 0.2:
            return ("F", rb())
        return rb()
    ops = []

    def add(kind, **kw):
        ops.append(dict(kind=kind, name=f"{kind[0]}{len(ops)}", **kw))
    for _ in range(rng.randint(2, 4)):
        ar = rng.choice([1, 1, 2, 2, 3])
        add("mono", params=[rt() for _ in range(ar)], res=rt(), bound=None)
    roots = [b for b in names if parents[b] is None]
    for _ in range(rng.randint(1, 2)):
        add("id", params=["x"], res="x", bound=rng.choice(roots + [rb()]))
    if rng.random() < 0.7:
        add("join", params=["x", "x"], res="x", bound=rng.choice(roots + [rb()]))
    if has_f:
        add("wrap", params=["x"], res=("F", "x"), bound=rng.choice(roots))
        if rng.random() < 0.7:
            add("unwrap", params=[("F", "x")], res="x", bound=rng.choice(roots))
    for _ in range(rng.randint(1, 3)):
        nf = rng.choice([1, 1, 2])
        fps = []
        for _ in range(nf):
            far = rng.choice([1, 1, 2])
            fps.append(("fn", [rb() for _ in range(far)], rb()))
        nd = rng.choice([0, 1, 1, 2])
        ds = [rb() for _ in range(nd)]
        ps = fps + ds
        if rng.random() < 0.4:
            rng.shuffle(ps)
        add("ho", params=ps, res=rb(), bound=None)
    lang.ops = ops
    lang.index = {o["name"]: i for i, o in enumerate(ops)}
    return lang


# --------------------------------------------------------------------------
# tool expressions
#
# term:  ("in", slot, annot|None)  |  ("anon", type)  |  ("ap", opname, [args])
# (an "ap" with fewer arguments than parameters is a partial application and only
# generated where a function is wanted)

class Gen:
    def __init__(self, rng, lang: Lang):
        self.rng, self.lang = rng, lang
        self.slots = []          # required type per slot of the tool being generated

    def data(self, want, depth, p_leaf=0.3):
        """a term whose type is (approximately) a subtype of `want`; returns (term, type)"""
        rng, L = self.rng, self.lang
        cands = []
        if depth > 0:
            for o in L.ops:
                k = o["kind"]
                if k in ("mono", "ho"):
                    if L.sub(o["res"], want):
                        cands.append(o)
                elif k in ("id", "join"):
                    if not isinstance(want, tuple) and L.meet(want, o["bound"]) is not None:
                        cands.append(o)
                elif k == "wrap":
                    if isinstance(want, tuple) and want[0] == "F" and \
                            L.meet(want[1], o["bound"]) is not None:
                        cands.append(o)
                elif k == "unwrap":
                    if not isinstance(want, tuple) and L.meet(want, o["bound"]) is not None:
                        cands.append(o)
        if not cands or rng.random() < p_leaf:
            return self.leaf(want)
        o = rng.choice(cands)
        k = o["kind"]
        d = depth - 1
        if k in ("mono", "ho"):
            args = [self.fun(p, d) if is_fn(p) else self.data(p, d)[0] for p in o["params"]]
            return ("ap", o["name"], args), o["res"]
        if k == "id":
            a, t = self.data(L.meet(want, o["bound"]), d)
            return ("ap", o["name"], [a]), t
        if k == "join":
            w = L.meet(want, o["bound"])
            a, t1 = self.data(w, d)
            b, t2 = self.data(w, d)
            return ("ap", o["name"], [a, b]), (L.join(t1, t2) or w)
        if k == "wrap":
            a, t = self.data(L.meet(want[1], o["bound"]), d)
            return ("ap", o["name"], [a]), ("F", t)
        a, t = self.data(("F", L.meet(want, o["bound"])), d)
        return ("ap", o["name"], [a]), (t[1] if isinstance(t, tuple) else want)

    def leaf(self, want):
        rng, L = self.rng, self.lang
        if rng.random() < 0.12:
            t = rng.choice(L.subs(want))
            return ("anon", t), t
        # reuse a slot of this tool whose requirement is compatible (the same input twice)
        if self.slots and rng.random() < 0.2:
            ks = [k for k, w in enumerate(self.slots) if L.meet(w, want) is not None]
            if ks:
                k = rng.choice(ks)
                self.slots[k] = L.meet(self.slots[k], want)
                return ("in", k, None), self.slots[k]
        self.slots.append(want)
        return ("in", len(self.slots) - 1, None), want

    def fun(self, ft, depth):
        """a function of (concrete) type ft = ("fn", params, res): a bare operator or a
        partial application"""
        rng, L = self.rng, self.lang
        _, ps, r = ft
        cands = []
        for o in L.ops:
            if o["kind"] not in ("mono", "ho"):
                # polymorphic first-order operators passed as functions
                if o["kind"] == "id" and len(ps) == 1 and not isinstance(ps[0], tuple) \
                        and L.sub(ps[0], o["bound"]) and L.sub(ps[0], r):
                    cands.append((o, 0))
                if o["kind"] == "join" and len(ps) == 2 and ps[0] == ps[1] \
                        and not isinstance(ps[0], tuple) and L.sub(ps[0], o["bound"]) \
                        and L.sub(ps[0], r):
                    cands.append((o, 0))
                continue
            n = len(o["params"])
            for k in range(0, n - len(ps) + 1):
                rest = o["params"][k:]
                if len(rest) != len(ps) or not L.sub(o["res"], r):
                    continue
                # contravariant: wanted parameter types must be below the declared ones
                if all((not is_fn(a)) and (not is_fn(b)) and L.sub(b, a)
                       for a, b in zip(rest, ps)):
                    if k == 0 or depth > 0:
                        cands.append((o, k))
        if not cands:
            return None
        o, k = rng.choice(cands)
        args = []
        for p in o["params"][:k]:
            a = self.fun(p, depth - 1) if is_fn(p) else self.data(p, depth - 1)[0]
            args.append(a)
        return ("ap", o["name"], args)


def has_none(t) -> bool:
    if t is None:
        return True
    if t[0] == "ap":
        return any(has_none(a) for a in t[2])
    return False


def term_text(lang: Lang, t, top=True) -> str:
    if t[0] == "in":
        k, an = t[1], t[2]
        return f"({k + 1}: {lang.ty_text(an)})" if an is not None else str(k + 1)
    if t[0] == "anon":
        return f"(-: {lang.ty_text(t[1])})"
    if not t[2]:
        return t[1]
    s = " ".join([t[1]] + [term_text(lang, a, False) for a in t[2]])
    return s if top else f"({s})"


def map_leaves(t, f):
    if t[0] == "ap":
        return ("ap", t[1], [map_leaves(a, f) for a in t[2]])
    return f(t)


def slots_of(t, acc=None):
    acc = [] if acc is None else acc
    if t[0] == "in":
        acc.append(t[1])
    elif t[0] == "ap":
        for a in t[2]:
            slots_of(a, acc)
    return acc


def term_stats(lang, t, acc: Counter, depth=0):
    acc["max_depth"] = max(acc["max_depth"], depth)
    if t[0] == "ap":
        o = lang.ops[lang.index[t[1]]]
        acc["steps"] += 1
        acc["kind_" + o["kind"]] += 1
        for p, a in zip(o["params"], t[2]):
            if is_fn(p):
                acc["function_arguments"] += 1
                if a[2]:
                    acc["partial_applications_passed"] += 1
            term_stats(lang, a, acc, depth + 1)
    elif t[0] == "anon":
        acc["anonymous_sources"] += 1
    else:
        acc["input_uses"] += 1
        if t[2] is not None:
            acc["annotated_inputs"] += 1


# --------------------------------------------------------------------------
# workflows
#
# wf = {"sources": [names], "apps": [{"out": name, "term": term, "ins": [names]}]}
# (names are short strings; apps listed in generation (= a topological) order)

def gen_workflow(rng: random.Random, lang: Lang, napps: int):
    L = lang
    names = list(L.parents)
    res_type = {}            # resource -> harness type (sources: intended type)
    sources, apps = [], []
    consumed = set()
    for j in range(napps):
        last = j == napps - 1
        for attempt in range(8):
            g = Gen(rng, L)
            want = rng.choice(names if not (L.has_f and rng.random() < 0.15)
                              else [("F", b) for b in names])
            if last or rng.random() < 0.5:
                # general result types keep later tools able to consume this one
                roots = [b for b in names if L.parents[b] is None]
                want = rng.choice(roots) if not isinstance(want, tuple) else want
            term, ty = g.data(want, rng.randint(1, 3), p_leaf=0.0 if attempt < 6 else 0.3)
            if has_none(term) or term[0] != "ap":
                continue
            pending = [o["out"] for o in apps if o["out"] not in consumed]
            if j > 0 and not g.slots:
                continue
            # at least one slot must be able to take a pending output when there is one
            if pending and not any(L.sub(res_type[p], w) for p in pending for w in g.slots) \
                    and attempt < 7:
                continue
            break
        else:
            return None
        if has_none(term) or term[0] != "ap":
            return None
        ins = []
        for k, w in enumerate(g.slots):
            pend = [o["out"] for o in apps if o["out"] not in consumed and o["out"] not in ins
                    and L.sub(res_type[o["out"]], w)]
            olds = [r for r in list(res_type) if L.sub(res_type[r], w)]
            r = None
            if pend and (last or rng.random() < 0.75):
                r = rng.choice(pend)
            elif olds and rng.random() < 0.55:
                r = rng.choice(olds)             # shared source or shared intermediate
            if r is None:
                r = f"s{len(sources)}"
                sources.append(r)
                res_type[r] = rng.choice(L.subs(w)) if rng.random() < 0.6 else w
            ins.append(r)
        for r in ins:
            if not r.startswith("s"):
                consumed.add(r)
        # annotations
        def annot(leaf):
            if leaf[0] != "in":
                return leaf
            k = leaf[1]
            w, r = g.slots[k], ins[k]
            u = rng.random()
            if u < 0.45:
                return leaf
            if u < 0.75:
                return ("in", k, w)
            if u < 0.93:
                mids = [t for t in L.subs(w) if L.sub(res_type[r], t)]
                return ("in", k, rng.choice(mids) if mids else w)
            if u < 0.97 and not isinstance(w, tuple):
                return ("in", k, rng.choice(names))        # possibly wrong on purpose
            return ("in", k, w)
        term = map_leaves(term, annot)
        out = f"t{j}"
        res_type[out] = ty
        apps.append({"out": out, "term": term, "ins": ins})
    if rng.random() < 0.06:
        sources.append(f"s{len(sources)}")                  # a source nobody uses
    return {"sources": sources, "apps": apps}


def wf_text(lang: Lang, wf) -> dict:
    return {"sources": wf["sources"],
            "apps": {a["out"]: [term_text(lang, a["term"]), a["ins"]] for a in wf["apps"]}}


def wf_shape(wf) -> Counter:
    acc = Counter()
    uses = Counter()
    for a in wf["apps"]:
        for k in slots_of(a["term"]):          # every occurrence counts: an input used
            uses[a["ins"][k]] += 1             # twice by one tool is inlined twice
        if len(set(slots_of(a["term"]))) < len(slots_of(a["term"])):
            acc["tools_using_an_input_twice"] += 1
        if len(set(a["ins"])) < len(a["ins"]):
            acc["tools_fed_twice_by_one_resource"] += 1
    acc["apps"] = len(wf["apps"])
    acc["sources"] = len(wf["sources"])
    acc["shared_sources"] = sum(1 for r, n in uses.items() if r.startswith("s") and n > 1)
    acc["shared_intermediates"] = sum(1 for r, n in uses.items() if r.startswith("t") and n > 1)
    acc["unused_sources"] = sum(1 for s in wf["sources"] if uses[s] == 0)
    outs = [a["out"] for a in wf["apps"]]
    acc["targets"] = sum(1 for o in outs if uses[o] == 0)
    return acc


# --------------------------------------------------------------------------
# running the implementation

class OrderedSet(set):
    """a set whose iteration order is chosen by the harness (the listing order of a
    Workflow's tool applications / sources is the iteration order of these sets)"""

    def __init__(self, xs):
        xs = list(xs)
        super().__init__(xs)
        self._order = xs

    def __iter__(self):
        return iter(self._order)


def make_workflow_class():
    from transforge.workflow import Workflow

    class ListedWorkflow(Workflow):
        def __init__(self, root, apps, sources, app_order, source_order):
            self._root = root
            self._apps = apps
            self._sources = OrderedSet(source_order)
            self._outs = OrderedSet(app_order)
            assert set(source_order) == set(sources) and set(app_order) == set(apps)

        @property
        def root(self):
            return self._root

        @property
        def sources(self):
            return self._sources

        @property
        def tool_outputs(self):
            return self._outs

        def inputs(self, resource):
            return iter(self._apps[resource][1])

        def tool(self, resource):
            return resource

        def expression(self, resource):
            return self._apps[resource][0]
    return ListedWorkflow


def uri(name):
    from rdflib import URIRef
    return URIRef(NS + "r_" + name)


ROOT = NS + "workflow"


def build_wf(lang: Lang, wf, how: str, app_order=None, source_order=None):
    """the workflow as one of the three descriptions"""
    from rdflib import URIRef, Graph, Literal, BNode
    from transforge.workflow import WorkflowDict, WorkflowGraph
    from transforge.namespace import WF, RDF
    root = URIRef(ROOT)
    apps = {uri(a["out"]): (term_text(lang, a["term"]), [uri(r) for r in a["ins"]])
            for a in wf["apps"]}
    srcs = [uri(s) for s in wf["sources"]]
    if how == "listed":
        cls = make_workflow_class()
        ao = [uri(x) for x in (app_order or [a["out"] for a in wf["apps"]])]
        so = [uri(x) for x in (source_order or wf["sources"])]
        return cls(root, apps, set(srcs), ao, so)
    if how == "dict":
        return WorkflowDict(root, apps, set(srcs))
    assert how == "rdf"
    g = Graph()
    g.add((root, RDF.type, WF.Workflow))
    for s in srcs:
        g.add((root, WF.source, s))
    ns = lang.language.namespace
    for i, a in enumerate(wf["apps"]):
        app = BNode()
        tool = URIRef(NS + f"tool_{i}")
        g.add((root, WF.edge, app))
        g.add((app, WF.applicationOf, tool))
        g.add((app, WF.output, uri(a["out"])))
        for k, r in enumerate(a["ins"], start=1):
            g.add((app, WF[f"input{k}"], uri(r)))
        g.add((tool, ns.expression, Literal(term_text(lang, a["term"]))))
    # through a serialisation, as a stored workflow would be
    g2 = Graph()
    g2.parse(data=g.serialize(format="nt"), format="nt")
    return WorkflowGraph(lang.language, workflow=g2)


def new_graph(lang: Lang, passthrough: bool):
    from transforge.graph import TransformationGraph
    return TransformationGraph(lang.language, minimal=True, with_operators=True,
        with_types=True, with_labels=True, with_inputs=True, with_output=True,
        with_noncanonical_types=True, passthrough=passthrough)


class Obs:
    """what is compared of a finished graph: concept nodes with a colour
    (operators, type texts, labels, input/output marks) and from/internal edges"""
    __slots__ = ("nodes", "edges", "rmap", "error")

    def __init__(self):
        self.nodes, self.edges, self.rmap, self.error = {}, set(), {}, None


_VAR = re.compile(r"τ[0-9₀-₉]*")


def _split_top(s: str) -> list:
    out, depth, cur = [], 0, ""
    for ch in s:
        if ch in "([":
            depth += 1
        elif ch in ")]":
            depth -= 1
        if ch == "," and depth == 0:
            out.append(cur.strip())
            cur = ""
        else:
            cur += ch
    if cur.strip():
        out.append(cur.strip())
    return out


def norm_vars(s: str) -> str:
    """type variables are printed with a running number and their constraints in set
    order: rename variables by first occurrence, sort the constraint list"""
    seen = {}
    s = _VAR.sub(lambda m: seen.setdefault(m.group(0), f"τ{len(seen)}"), s)
    i = s.find(" [")
    if i >= 0 and "]" in s[i:]:
        j = s.rindex("]")
        cons = sorted(set(_split_top(s[i + 2:j])))
        s = s[:i] + " [" + ", ".join(cons) + "]" + s[j + 1:]
    return s


def observe(lang: Lang, g, rmap=None, root=None) -> Obs:
    from rdflib import URIRef, BNode
    from rdflib.namespace import RDFS
    from transforge.namespace import TF
    o = Obs()
    root = root if root is not None else URIRef(ROOT)
    inv_ops = {lang.language.namespace[op["name"]]: op["name"] for op in lang.ops}
    concept = set()
    for s, t in g.subject_objects(TF["from"]):
        o.edges.add((s, "from", t))
        concept |= {s, t}
    for s, t in g.subject_objects(TF.internal):
        o.edges.add((s, "internal", t))
        concept |= {s, t}
    ins = set(g.objects(root, TF.input))
    outs = set(g.objects(root, TF.output))
    concept |= ins | outs
    concept |= set(g.subjects(TF.via, None)) | set(g.subjects(TF.type, None))
    if rmap:
        concept |= set(rmap.values())

    def tytext(n):
        if isinstance(n, BNode):
            labs = sorted(norm_vars(str(l)) for l in g.objects(n, RDFS.label))
            return "~" + "|".join(labs)
        return str(n)[len(NS):] if str(n).startswith(NS) else str(n)
    for n in concept:
        vias = tuple(sorted(inv_ops.get(v, str(v)) for v in g.objects(n, TF.via)))
        tys = tuple(sorted(tytext(t) for t in g.objects(n, TF.type)))
        labs = tuple(sorted(norm_vars(str(l)) for l in g.objects(n, RDFS.label)))
        o.nodes[n] = (vias, tys, labs, n in ins, n in outs)
    if rmap is not None:
        o.rmap = {str(k)[len(NS) + 2:]: v for k, v in rmap.items()}
    return o


def run_wf(lang: Lang, wf, how="listed", passthrough=True, app_order=None, source_order=None) -> Obs:
    """build the workflow description, run add_workflow, observe (errors are observations)"""
    from transforge.graph import WorkflowCompositionError
    try:
        w = build_wf(lang, wf, how, app_order, source_order)
        g = new_graph(lang, passthrough)
        m = g.add_workflow(w)
        return observe(lang, g, m)
    except WorkflowCompositionError as e:
        o = Obs()
        c = e.__cause__
        inner = c.__cause__ if c is not None and c.__cause__ is not None else c
        o.error = ("WorkflowCompositionError", type(c).__name__, type(inner).__name__)
        return o
    except Exception as e:          # noqa: BLE001 - every outcome is an observation
        o = Obs()
        o.error = (type(e).__name__,)
        return o


# --------------------------------------------------------------------------
# comparing observations

def _graph_of(o: Obs, tag, structural: bool, with_map: bool):
    col, adj = {}, {}
    inv = {}
    if with_map:
        for r, n in o.rmap.items():
            inv.setdefault(n, []).append(r)
    for n, c in o.nodes.items():
        k = (tag, n)
        base = (c[0], c[3], c[4]) if structural else c
        col[k] = (base, tuple(sorted(inv.get(n, ()))))
        adj[k] = []
    for s, p, t in o.edges:
        adj[(tag, s)].append((p + ">", (tag, t)))
        adj[(tag, t)].append((p + "<", (tag, s)))
    return col, adj


def _refine(col, adj):
    while True:
        sig = {n: (col[n], tuple(sorted((lab, col[m]) for lab, m in adj[n]))) for n in col}
        rank = {s: i for i, s in enumerate(sorted(set(sig.values())))}
        new = {n: rank[sig[n]] for n in col}
        if len(set(new.values())) == len(set(col.values())):
            return new
        col = new


def iso(o1: Obs, o2: Obs, structural=False, with_map=True) -> bool:
    """equal up to renaming of nodes (colour refinement + individualisation)"""
    if (o1.error is None) != (o2.error is None):
        return False
    if o1.error is not None:
        return o1.error == o2.error
    if len(o1.nodes) != len(o2.nodes) or len(o1.edges) != len(o2.edges):
        return False
    c1, a1 = _graph_of(o1, 0, structural, with_map)
    c2, a2 = _graph_of(o2, 1, structural, with_map)
    adj = dict(a1)
    adj.update(a2)
    init = dict(c1)
    init.update(c2)
    rank = {s: i for i, s in enumerate(sorted(set(init.values()), key=repr))}
    col0 = {n: rank[init[n]] for n in init}
    budget = [5000]

    def search(col):
        budget[0] -= 1
        if budget[0] < 0:
            raise RuntimeError("isomorphism search budget exhausted")
        col = _refine(col, adj)
        cls = {}
        for n, c in col.items():
            cls.setdefault(c, [[], []])[n[0]].append(n)
        for c, (l, r) in cls.items():
            if len(l) != len(r):
                return False
        multi = [(len(l), c) for c, (l, r) in cls.items() if len(l) > 1]
        if not multi:
            m = {cls[c][0][0]: cls[c][1][0] for c in cls}
            e1 = Counter((a, lab, b) for a in a1 for lab, b in a1[a])
            e2 = Counter((a, lab, b) for a in a2 for lab, b in a2[a])
            return Counter((m[a], lab, m[b]) for (a, lab, b) in e1.elements()) == e2
        _, c = min(multi)
        x = cls[c][0][0]
        top = max(col.values()) + 1
        for y in cls[c][1]:
            col2 = dict(col)
            col2[x] = top
            col2[y] = top
            if search(col2):
                return True
        return False
    return search(col0)


def unfolding_equal(o1: Obs, o2: Obs) -> bool:
    """o1 is o2 with copies merged (or the other way round): the two graphs are
    bisimilar downwards (along from/internal edges, children counted as sets of
    classes), seen from the output node, and every class occurs on both sides"""
    if o1.error is not None or o2.error is not None:
        return o1.error == o2.error
    col, adj = {}, {}
    for tag, o in ((0, o1), (1, o2)):
        for n, c in o.nodes.items():
            col[(tag, n)] = c
            adj[(tag, n)] = []
        for s, p, t in o.edges:
            adj[(tag, s)].append((p, (tag, t)))
    rank = {s: i for i, s in enumerate(sorted(set(col.values()), key=repr))}
    col = {n: rank[c] for n, c in col.items()}
    while True:
        sig = {n: (col[n], tuple(sorted(set((lab, col[m]) for lab, m in adj[n])))) for n in col}
        rank = {s: i for i, s in enumerate(sorted(set(sig.values())))}
        new = {n: rank[sig[n]] for n in col}
        if len(set(new.values())) == len(set(col.values())):
            break
        col = new
    s1 = {c for n, c in col.items() if n[0] == 0}
    s2 = {c for n, c in col.items() if n[0] == 1}
    return s1 == s2


def listing(o: Obs):
    """readable rendering for replay files"""
    if o.error is not None:
        return ["error " + "/".join(o.error)]
    names = {}
    inv = {}
    for r, n in o.rmap.items():
        inv.setdefault(n, []).append(r)

    def nm(n):
        if n not in names:
            c = o.nodes.get(n, ((), (), (), False, False))
            tagp = "+".join(sorted(inv.get(n, []))) or ("/".join(c[0]) or "n")
            names[n] = f"{tagp}#{len(names)}"
        return names[n]
    rows = []
    for n in sorted(o.nodes, key=lambda n: (sorted(inv.get(n, ["~"])), o.nodes[n])):
        c = o.nodes[n]
        rows.append(f"{nm(n)}: via={','.join(c[0])} type={','.join(c[1])}"
                    f"{' INPUT' if c[3] else ''}{' OUTPUT' if c[4] else ''}")
    for s, p, t in sorted(o.edges, key=lambda e: (nm(e[0]), e[1], nm(e[2]))):
        rows.append(f"{nm(s)} {p} {nm(t)}")
    return rows


# --------------------------------------------------------------------------
# the inlined expression, built with the public parser

def producers(wf) -> dict:
    return {a["out"]: a for a in wf["apps"]}


def targets_of(wf) -> list:
    used = {r for a in wf["apps"] for r in a["ins"]}
    return [a["out"] for a in wf["apps"] if a["out"] not in used]


def inline_text(lang: Lang, wf, r, srcnum: dict) -> str:
    """text of the single expression for resource r: every tool input replaced by the
    (parenthesised) expression of its producer, sources numbered by srcnum"""
    prod = producers(wf)

    def go(r):
        if r not in prod:
            return None
        a = prod[r]

        def tt(t, top):
            if t[0] == "in":
                k, an = t[1], t[2]
                q = a["ins"][k]
                inner = str(srcnum[q]) if q not in prod else "(" + go(q) + ")"
                return f"({inner} : {lang.ty_text(an)})" if an is not None else inner
            if t[0] == "anon":
                return f"(-: {lang.ty_text(t[1])})"
            if not t[2]:
                return t[1]
            s = " ".join([t[1]] + [tt(x, False) for x in t[2]])
            return s if top else f"({s})"
        return tt(a["term"], True)
    return go(r)


def inline_obs(lang: Lang, wf, typed_sources: bool):
    """graph of add_expr on the inlined expression (tree unfolding; sources shared).
    typed_sources: give the sources the types Workflow.source_types derives (the
    documented whole-workflow step), else leave them to inference alone"""
    from rdflib import URIRef
    from transforge.expr import Source
    from transforge.namespace import TF
    tg = targets_of(wf)
    assert len(tg) == 1
    srcnum = {s: i + 1 for i, s in enumerate(wf["sources"])}
    text = inline_text(lang, wf, tg[0], srcnum)
    o = Obs()
    try:
        if typed_sources:
            w = build_wf(lang, wf, "listed")
            st = {str(n)[len(NS) + 2:]: t for n, t in w.source_types(lang.language)}
            srcs = [Source(st[s]) for s in wf["sources"]]
        else:
            srcs = [Source() for _ in wf["sources"]]
        e = lang.language.parse_expr(text, *srcs)
        e.fix()
        g = new_graph(lang, True)
        root = URIRef(ROOT)
        out = g.add_expr(e, root)
        g.add((root, TF.output, out))
        for s in srcs:
            g.add((root, TF.input, g.add_expr(s, root)))
        o = observe(lang, g, None)
    except Exception as ex:      # noqa: BLE001
        o.error = (type(ex).__name__,)
    return o, text


# --------------------------------------------------------------------------
# the property, literally: tool trees plugged together (oracle (a))

def spec_obs(lang: Lang, wf, passthrough: bool) -> Obs:
    """Nodes named by (resource, position); written from the property text:
    * one node per workflow resource; a tool's node is the node of the outermost
      operator application of its expression; one node per further operator
      application / anonymous source inside the expression;
    * an input of a tool is the node of the resource that feeds it (passthrough), or -
      passthrough off, producer is a tool - a source node of its own (one per input
      position of the tool) that is fed by the producer's node;
    * data flow inside one expression as in C08 (step -> each argument; one internal
      node per function-typed argument ...);
    * workflow sources are marked as inputs, the final tool's node as output."""
    o = Obs()
    prod = producers(wf)
    tg = targets_of(wf)
    via = {}

    def node_of(r):
        return ("S", r) if r not in prod else ("N", r, ())
    internals = {}

    def go(a, t, path):
        r = a["out"]
        if t[0] == "in":
            q = a["ins"][t[1]]
            if passthrough or q not in prod:
                return node_of(q)
            n = ("I", r, t[1])
            o.edges.add((n, "from", node_of(q)))
            return n
        if t[0] == "anon":
            return ("A", r, path)
        c = ("N", r, path)
        op = lang.ops[lang.index[t[1]]]
        via[c] = t[1]
        ns, its = [], []
        for i, x in enumerate(t[2]):
            n = go(a, x, path + (i,))
            it = None
            if is_fn(op["params"][i]):
                it = ("X", r, path + (i,))
                o.edges.add((c, "internal", it))
                o.edges.add((n, "from", it))
                for j in internals.get(n, ()):
                    o.edges.add((j, "from", it))
            o.edges.add((c, "from", n))
            ns.append(n)
            its.append(it)
        for i, it in enumerate(its):
            if it is not None:
                for j, n in enumerate(ns):
                    if j != i:
                        o.edges.add((it, "from", n))
        internals[c] = [it for it in its if it is not None]
        return c
    for a in wf["apps"]:
        go(a, a["term"], ())
    nodes = {node_of(r) for r in wf["sources"]} | {node_of(a["out"]) for a in wf["apps"]}
    for s, _, t in o.edges:
        nodes |= {s, t}
    ins = {node_of(s) for s in wf["sources"]}
    for n in nodes:
        o.nodes[n] = ((via[n],) if n in via else (), (), (), n in ins,
                      len(tg) == 1 and n == node_of(tg[0]))
    o.rmap = {r: node_of(r) for r in list(wf["sources"]) + [a["out"] for a in wf["apps"]]}
    return o


def in_domain(lang: Lang, wf) -> bool:
    """the workflows the property (and the Coq theorem, wf_okb) speaks about: one final
    application, every input defined, acyclic by construction; every tool expression is
    an operator application; inputs are used as data"""
    if len(targets_of(wf)) != 1:
        return False
    known = set(wf["sources"])
    for a in wf["apps"]:
        if any(r not in known for r in a["ins"]):
            return False
        known.add(a["out"])
        if a["term"][0] != "ap":
            return False
    return True


# --------------------------------------------------------------------------
# Coq side

HDR = """From Coq Require Import List Arith Bool.
Import ListNotations.
From TF Require Import Graph.AddExpr Graph.AddExprSpec Graph.Workflow Graph.WorkflowSpec.
Definition enc (r : option wres) :=
  match r with
  | None => (0, [], [], 0, [])
  | Some w => (1, map (fun t => [t_subj t; t_pred t; t_obj t]) (r_tr w), r_inputs w, r_output w,
               map (fun p => [fst p; snd p]) (r_map w))
  end.
Definition aw (pinned pt : bool) (wf : wflow) := enc (add_workflow add_from_plain add_from_plain pinned pt wf).
Fixpoint teqb (a b : list nat) : bool :=
  match a, b with
  | [], [] => true
  | x :: a', y :: b' => Nat.eqb x y && teqb a' b'
  | _, _ => false
  end.
Definition subset (l1 l2 : list (list nat)) : bool := forallb (fun t => existsb (teqb t) l2) l1.
Definition same (a b : nat * list (list nat) * list nat * nat * list (list nat)) : bool :=
  let '(f1, t1, i1, o1, m1) := a in let '(f2, t2, i2, o2, m2) := b in
  Nat.eqb f1 f2 && subset t1 t2 && subset t2 t1 && teqb i1 i2 && Nat.eqb o1 o2 && subset m1 m2 && subset m2 m1.
(* model of the repaired add_expr wiring; does the model of the pinned wiring agree;
   is the workflow in the theorem's domain *)
Definition obs (pt : bool) (wf : wflow) :=
  (aw false pt wf, Nat.b2n (same (aw false pt wf) (aw true pt wf)), Nat.b2n (wf_okb wf)).
"""


def coq_bool(b) -> str:
    return "true" if b else "false"


def coq_wf(lang: Lang, wf, app_order=None, source_order=None):
    """the workflow as a Gallina term, with the harness' numbering of resources and
    object identities; returns (term, resource numbering)"""
    res = {}
    for s in wf["sources"]:
        res[s] = len(res)
    for a in wf["apps"]:
        res[a["out"]] = len(res)
    ctr = [len(res)]

    def fresh():
        ctr[0] += 1
        return ctr[0] - 1

    def tx(t):
        if t[0] == "in":
            return f"(TIn {t[1]})"
        if t[0] == "anon":
            return f"(TAnon {fresh()})"
        op = lang.ops[lang.index[t[1]]]
        cur = f"(TOp {fresh()} {lang.index[t[1]]})"
        for i, x in enumerate(t[2]):
            cur = f"(TApp {fresh()} {cur} {tx(x)} {coq_bool(is_fn(op['params'][i]))})"
        return cur
    apps = {}
    for a in wf["apps"]:
        body = tx(a["term"])
        ind = [fresh() for _ in a["ins"]]
        apps[a["out"]] = (f"(mkApp {res[a['out']]} {body} {C.coq_list([res.get(r, 9999) for r in a['ins']])} "
                          f"{C.coq_list(ind)})")
    ao = app_order or [a["out"] for a in wf["apps"]]
    so = source_order or wf["sources"]
    term = f"(mkWf {C.coq_list([res[s] for s in so])} {C.coq_list([apps[o] for o in ao])})"
    return term, res


def model_obs(lang: Lang, res: dict, val) -> Obs:
    """the model's result as an observation (structural colours)"""
    o = Obs()
    flag, trs, ins, out, rmap = val
    if not flag:
        o.error = ("model-none",)
        return o
    via = {}
    nodes = set(ins) | {out} | {n for _, n in rmap}
    for s, p, t in trs:
        if p == 2:
            via.setdefault(s, []).append(lang.ops[t]["name"])
            nodes.add(s)
        elif p in (0, 1):
            o.edges.add((s, "from" if p == 0 else "internal", t))
            nodes |= {s, t}
    for n in nodes:
        o.nodes[n] = (tuple(sorted(via.get(n, ()))), (), (), n in ins, n == out)
    inv = {v: k for k, v in res.items()}
    o.rmap = {inv[r]: n for r, n in rmap}
    return o
