"""C12  A workflow's graph is the graph of its tools plugged together.

proof stage     coq/props/C12.v  (model Graph/Workflow.v of add_workflow on top of C08's
                add_expr model: for every acyclic workflow with one final application,
                any listing order, passthrough on and off, the from/via/internal triples
                are exactly the data-flow graphs of the tool expressions plugged together
                (C12_plugged) = the data-flow graph of an application tree of the inlined
                expression, as add_expr produces for that expression (C12_inline); one
                node per resource; inputs/output marked; source_types independent of the
                listing order and equal to the least annotated type (C12_source_types_*))
correspondence  TransformationGraph.add_workflow of /repo vs the Gallina model on generated
                workflows (from/via/internal triples, resource->node map, input and output
                marks, compared up to blank-node renaming), several listing orders each;
                Workflow.source_types of /repo vs the Gallina model source_types
oracle          evaluated on the implementation only:
                (a) an independently built graph (tool trees named by (resource, path),
                    plugged together as the property says) is isomorphic to the
                    implementation's structural triples and map;
                (b) typed: the workflow graph and the graph add_expr gives for the inlined
                    expression (built with the public parser, sources typed as
                    Workflow.source_types says) agree on every node's operator/type/label:
                    isomorphic when nothing is inlined twice, otherwise the workflow graph
                    is the inlined graph with the copies of each shared result merged;
                    both fail or both succeed;
                (c) every listing order of the applications and of the sources, and
                    WorkflowDict / WorkflowGraph (RDF) / the harness' own Workflow give
                    isomorphic typed graphs (or all fail);
                (d) passthrough off: the source nodes made for tool inputs carry the types
                    the tools give those inputs when typed on their own;
                (e) only typing errors are raised on well-formed workflows; a workflow
                    without a unique final application is rejected with ValueError;
                (f) each source gets the most general type acceptable to all of its uses: where
                    Workflow.source_types departs from its specification (computed by the
                    harness from the workflow: no type when a use is not annotated, else the
                    least annotated type) and the inlined expression type-checks with the
                    specified source types, the workflow must build and carry the same types.
"""
from __future__ import annotations

import itertools
import json
import random
import re
from collections import Counter

from . import common as C

PID = "C12"

# --------------------------------------------------------------------------
# generated languages
#
# harness-side types:  "T3" (base) | ("F", t) (unary covariant compound)

NS = "https://example.com/#"


class Lang:
    """base-type forest, optional compound F, operators with declared signatures.

    operator kinds (sig is the text handed to transforge, params/res for generation):
      mono   P1 ** .. ** R                 (first order, concrete)
      id     x ** x [x <= T]
      join   x ** x ** x [x <= T]
      wrap   x ** F(x) [x <= T]     unwrap  F(x) ** x [x <= T]
      ho     (P ** Q) ** D.. ** R          (function-typed parameters, concrete)
    """

    def __init__(self, parents: dict, has_f: bool, ops: list, canon_f: list):
        self.parents = parents          # base name -> parent name | None
        self.has_f = has_f
        self.ops = ops                  # list of dicts
        self.canon_f = canon_f          # base names b for which F(b) is declared canonical
        self.index = {o["name"]: i for i, o in enumerate(ops)}

    # ---- order on harness types
    def anc(self, b):
        out = [b]
        while self.parents.get(b) is not None:
            b = self.parents[b]
            out.append(b)
        return out

    def sub(self, s, t) -> bool:
        if isinstance(s, tuple) or isinstance(t, tuple):
            return isinstance(s, tuple) and isinstance(t, tuple) and self.sub(s[1], t[1])
        return t in self.anc(s)

    def subs(self, t):
        """all harness types below t (incl.)"""
        if isinstance(t, tuple):
            return [("F", s) for s in self.subs(t[1])]
        return [b for b in self.parents if self.sub(b, t)]

    def meet(self, s, t):
        if self.sub(s, t):
            return s
        if self.sub(t, s):
            return t
        return None

    def join(self, s, t):
        if self.sub(s, t):
            return t
        if self.sub(t, s):
            return s
        if isinstance(s, tuple) or isinstance(t, tuple):
            if isinstance(s, tuple) and isinstance(t, tuple):
                j = self.join(s[1], t[1])
                return None if j is None else ("F", j)
            return None
        for a in self.anc(s):
            if a in self.anc(t):
                return a
        return None

    def to_json(self):
        return {"parents": self.parents, "has_f": self.has_f, "ops": self.ops,
                "canon_f": self.canon_f}

    @staticmethod
    def from_json(d) -> "Lang":
        def fixt(t):
            return tuple(fixt(x) for x in t) if isinstance(t, list) else t
        ops = []
        for o in d["ops"]:
            o = dict(o)
            o["params"] = [fixt(p) for p in o["params"]]
            o["res"] = fixt(o["res"])
            o["bound"] = fixt(o.get("bound"))
            ops.append(o)
        return Lang(d["parents"], d["has_f"], ops, d.get("canon_f", []))

    # ---- the real thing
    def build(self):
        import transforge.type as T
        from transforge.expr import Operator
        from transforge.lang import Language
        tops = {}
        for b in self.parents:                      # declared parents-first
            p = self.parents[b]
            tops[b] = T.TypeOperator(b, supertype=tops[p] if p is not None else None)
        scope = dict(tops)
        if self.has_f:
            Fop = T.TypeOperator("F", params=1)
            scope["F"] = Fop
        self.tops = tops

        def pt(t):
            if isinstance(t, tuple):
                if t[0] == "F":
                    return Fop(pt(t[1]))
                # ("fn", [params], res)
                r = pt(t[2])
                for p in reversed(t[1]):
                    r = pt(p) ** r
                return r
            return tops[t]()
        self.pt = pt
        for o in self.ops:
            k = o["kind"]
            if k in ("mono", "ho"):
                ty = pt(("fn", o["params"], o["res"]))
            else:
                bound = tops[o["bound"]]
                if k == "id":
                    ty = (lambda bd: (lambda x: (x ** x)[x <= bd]))(bound)
                elif k == "join":
                    ty = (lambda bd: (lambda x: (x ** x ** x)[x <= bd]))(bound)
                elif k == "wrap":
                    ty = (lambda bd: (lambda x: (x ** Fop(x))[x <= bd]))(bound)
                else:
                    ty = (lambda bd: (lambda x: (Fop(x) ** x)[x <= bd]))(bound)
            scope[o["name"]] = Operator(type=ty)
        canon = None
        if self.has_f and self.canon_f:
            canon = set(tops.values()) | {Fop(tops[b]()) for b in self.canon_f}
        self.language = Language(scope, namespace=NS, **({"canon": canon} if canon else {}))
        return self.language

    def ty_text(self, t) -> str:
        if isinstance(t, tuple):
            if t[0] == "F":
                return f"F({self.ty_text(t[1])})"
            ps = [("(" + self.ty_text(p) + ")") if isinstance(p, tuple) and p[0] == "fn"
                  else self.ty_text(p) for p in t[1]]
            return " ** ".join(ps + [self.ty_text(t[2])])
        return t

    def sig_text(self, o) -> str:
        k = o["kind"]
        if k in ("mono", "ho"):
            return self.ty_text(("fn", o["params"], o["res"]))
        return {"id": "x ** x", "join": "x ** x ** x", "wrap": "x ** F(x)",
                "unwrap": "F(x) ** x"}[k] + f" [x <= {o['bound']}]"


def is_fn(t) -> bool:
    return isinstance(t, tuple) and t[0] == "fn"


def gen_lang(rng: random.Random) -> Lang:
    n = rng.randint(2, 6)
    parents = {}
    depth = {}
    names = [f"T{i}" for i in range(n)]
    for i, b in enumerate(names):
        cands = [c for c in names[:i] if depth[c] < 3]
        if cands and rng.random() < 0.8:
            p = rng.choice(cands)
            parents[b] = p
            depth[b] = depth[p] + 1
        else:
            parents[b] = None
            depth[b] = 0
    has_f = rng.random() < 0.45
    lang = Lang(parents, has_f, [], [])
    if has_f and rng.random() < 0.6:
        lang.canon_f = rng.sample(names, rng.randint(1, min(2, n)))

    def rb():
        return rng.choice(names)

    def rt():
        if has_f and rng.random() < 0.2:
            return ("F", rb())
        return rb()
    ops = []

    def add(kind, **kw):
        ops.append(dict(kind=kind, name=f"{kind[0]}{len(ops)}", **kw))
    for _ in range(rng.randint(2, 4)):
        ar = rng.choice([1, 1, 2, 2, 3])
        add("mono", params=[rt() for _ in range(ar)], res=rt(), bound=None)
    roots = [b for b in names if parents[b] is None]
    for _ in range(rng.randint(1, 2)):
        add("id", params=["x"], res="x", bound=rng.choice(roots + [rb()]))
    if rng.random() < 0.7:
        add("join", params=["x", "x"], res="x", bound=rng.choice(roots + [rb()]))
    if has_f:
        add("wrap", params=["x"], res=("F", "x"), bound=rng.choice(roots))
        if rng.random() < 0.7:
            add("unwrap", params=[("F", "x")], res="x", bound=rng.choice(roots))
    for _ in range(rng.randint(1, 3)):
        nf = rng.choice([1, 1, 2])
        fps = []
        for _ in range(nf):
            far = rng.choice([1, 1, 2])
            fps.append(("fn", [rb() for _ in range(far)], rb()))
        nd = rng.choice([0, 1, 1, 2])
        ds = [rb() for _ in range(nd)]
        ps = fps + ds
        if rng.random() < 0.4:
            rng.shuffle(ps)
        add("ho", params=ps, res=rb(), bound=None)
    lang.ops = ops
    lang.index = {o["name"]: i for i, o in enumerate(ops)}
    return lang


# --------------------------------------------------------------------------
# tool expressions
#
# term:  ("in", slot, annot|None)  |  ("anon", type)  |  ("ap", opname, [args])
# (an "ap" with fewer arguments than parameters is a partial application and only
# generated where a function is wanted)

class Gen:
    def __init__(self, rng, lang: Lang, res_type=None, pending=(), must=False):
        self.rng, self.lang = rng, lang
        self.slots = []          # required type per slot of the tool being generated
        self.bound = []          # resource each slot is fed by (None: decided later)
        self.res_type = res_type or {}
        self.pending = list(pending)     # outputs nobody consumes yet
        self.must = must                 # the final tool: consume whatever is pending

    def data(self, want, depth, p_leaf=0.3):
        """a term whose type is (approximately) a subtype of `want`; returns (term, type)"""
        rng, L = self.rng, self.lang
        cands = []
        if depth > 0:
            for o in L.ops:
                k = o["kind"]
                if k in ("mono", "ho"):
                    if L.sub(o["res"], want):
                        cands.append(o)
                elif k in ("id", "join"):
                    if not isinstance(want, tuple) and L.meet(want, o["bound"]) is not None:
                        cands.append(o)
                elif k == "wrap":
                    if isinstance(want, tuple) and want[0] == "F" and \
                            L.meet(want[1], o["bound"]) is not None:
                        cands.append(o)
                elif k == "unwrap":
                    if not isinstance(want, tuple) and L.meet(want, o["bound"]) is not None:
                        cands.append(o)
        if not cands or rng.random() < p_leaf:
            return self.leaf(want)
        o = rng.choice(cands)
        k = o["kind"]
        d = depth - 1
        if k in ("mono", "ho"):
            args = [self.fun(p, d) if is_fn(p) else self.data(p, d)[0] for p in o["params"]]
            return ("ap", o["name"], args), o["res"]
        if k == "id":
            a, t = self.data(L.meet(want, o["bound"]), d)
            return ("ap", o["name"], [a]), t
        if k == "join":
            w = L.meet(want, o["bound"])
            a, t1 = self.data(w, d)
            b, t2 = self.data(w, d)
            return ("ap", o["name"], [a, b]), (L.join(t1, t2) or w)
        if k == "wrap":
            a, t = self.data(L.meet(want[1], o["bound"]), d)
            return ("ap", o["name"], [a]), ("F", t)
        a, t = self.data(("F", L.meet(want, o["bound"])), d)
        return ("ap", o["name"], [a]), (t[1] if isinstance(t, tuple) else want)

    def leaf(self, want):
        rng, L = self.rng, self.lang
        fit = [r for r in self.pending if L.sub(self.res_type[r], want)]
        if fit and (self.must or rng.random() < 0.7):
            r = rng.choice(fit)
            self.pending.remove(r)
            self.slots.append(want)
            self.bound.append(r)
            return ("in", len(self.slots) - 1, None), self.res_type[r]
        if rng.random() < 0.12:
            t = rng.choice(L.subs(want))
            return ("anon", t), t
        # reuse a slot of this tool whose requirement is compatible (the same input twice)
        if self.slots and rng.random() < 0.2:
            ks = [k for k, w in enumerate(self.slots) if L.meet(w, want) is not None
                  and (self.bound[k] is None or L.sub(self.res_type[self.bound[k]], want))]
            if ks:
                k = rng.choice(ks)
                self.slots[k] = L.meet(self.slots[k], want)
                return ("in", k, None), self.slots[k]
        self.slots.append(want)
        self.bound.append(None)
        return ("in", len(self.slots) - 1, None), want

    def fun(self, ft, depth):
        """a function of (concrete) type ft = ("fn", params, res): a bare operator or a
        partial application"""
        rng, L = self.rng, self.lang
        _, ps, r = ft
        cands = []
        for o in L.ops:
            if o["kind"] not in ("mono", "ho"):
                # polymorphic first-order operators passed as functions
                if o["kind"] == "id" and len(ps) == 1 and not isinstance(ps[0], tuple) \
                        and L.sub(ps[0], o["bound"]) and L.sub(ps[0], r):
                    cands.append((o, 0))
                if o["kind"] == "join" and len(ps) == 2 and ps[0] == ps[1] \
                        and not isinstance(ps[0], tuple) and L.sub(ps[0], o["bound"]) \
                        and L.sub(ps[0], r):
                    cands.append((o, 0))
                continue
            n = len(o["params"])
            for k in range(0, n - len(ps) + 1):
                rest = o["params"][k:]
                if len(rest) != len(ps) or not L.sub(o["res"], r):
                    continue
                # contravariant: wanted parameter types must be below the declared ones
                if all((not is_fn(a)) and (not is_fn(b)) and L.sub(b, a)
                       for a, b in zip(rest, ps)):
                    if k == 0 or depth > 0:
                        cands.append((o, k))
        if not cands:
            return None
        o, k = rng.choice(cands)
        args = []
        for p in o["params"][:k]:
            a = self.fun(p, depth - 1) if is_fn(p) else self.data(p, depth - 1)[0]
            args.append(a)
        return ("ap", o["name"], args)


def has_none(t) -> bool:
    if t is None:
        return True
    if t[0] == "ap":
        return any(has_none(a) for a in t[2])
    return False


def term_text(lang: Lang, t, top=True) -> str:
    if t[0] == "in":
        k, an = t[1], t[2]
        return f"({k + 1}: {lang.ty_text(an)})" if an is not None else str(k + 1)
    if t[0] == "anon":
        return f"(-: {lang.ty_text(t[1])})"
    if not t[2]:
        return t[1]
    s = " ".join([t[1]] + [term_text(lang, a, False) for a in t[2]])
    return s if top else f"({s})"


def map_leaves(t, f):
    if t[0] == "ap":
        return ("ap", t[1], [map_leaves(a, f) for a in t[2]])
    return f(t)


def slots_of(t, acc=None):
    acc = [] if acc is None else acc
    if t[0] == "in":
        acc.append(t[1])
    elif t[0] == "ap":
        for a in t[2]:
            slots_of(a, acc)
    return acc


def term_stats(lang, t, acc: Counter, depth=0):
    acc["max_depth"] = max(acc["max_depth"], depth)
    if t[0] == "ap":
        o = lang.ops[lang.index[t[1]]]
        acc["steps"] += 1
        acc["kind_" + o["kind"]] += 1
        for p, a in zip(o["params"], t[2]):
            if is_fn(p):
                acc["function_arguments"] += 1
                if a[2]:
                    acc["partial_applications_passed"] += 1
            term_stats(lang, a, acc, depth + 1)
    elif t[0] == "anon":
        acc["anonymous_sources"] += 1
    else:
        acc["input_uses"] += 1
        if t[2] is not None:
            acc["annotated_inputs"] += 1


# --------------------------------------------------------------------------
# workflows
#
# wf = {"sources": [names], "apps": [{"out": name, "term": term, "ins": [names]}]}
# (names are short strings; apps listed in generation (= a topological) order)

def gen_workflow(rng: random.Random, lang: Lang, napps: int):
    L = lang
    names = list(L.parents)
    roots = [b for b in names if L.parents[b] is None]
    res_type = {}            # resource -> harness type (sources: intended type)
    sources, apps = [], []
    consumed = set()
    for j in range(napps):
        last = j == napps - 1
        pending = [o["out"] for o in apps if o["out"] not in consumed]
        if not last and rng.random() < 0.1:
            # a tool whose expression is a bare source: one that provides data (`-: T`, no
            # inputs) or one that hands its input on, possibly under an annotation (`1: T`)
            out = f"t{j}"
            if rng.random() < 0.5 or not res_type:
                t = rng.choice(names)
                res_type[out] = t
                apps.append({"out": out, "term": ("anon", t), "ins": []})
            else:
                if pending and rng.random() < 0.6:
                    r = rng.choice(pending)
                    consumed.add(r)
                elif rng.random() < 0.5:
                    r = rng.choice(list(res_type))
                    if not r.startswith("s"):
                        consumed.add(r)
                else:
                    r = f"s{len(sources)}"
                    sources.append(r)
                    res_type[r] = rng.choice(names)
                t = res_type[r]
                ann = None
                if rng.random() < 0.6 and not isinstance(t, tuple):
                    ann = rng.choice(L.anc(t)) if rng.random() < 0.9 else rng.choice(names)
                res_type[out] = t
                ins = [r]
                others = [q for q in res_type if q != r and q != out]
                if others and rng.random() < 0.35:
                    # a further declared input that the expression does not mention
                    q = rng.choice(others)
                    ins.append(q)
                    if not q.startswith("s"):
                        consumed.add(q)
                apps.append({"out": out, "term": ("in", 0, ann), "ins": ins})
            continue
        best = None
        for attempt in range(10):
            g = Gen(rng, L, res_type, pending, must=last)
            if last or rng.random() < 0.5:
                want = rng.choice(roots)     # general results keep later tools able to consume
            elif L.has_f and rng.random() < 0.15:
                want = ("F", rng.choice(names))
            else:
                want = rng.choice(names)
            term, ty = g.data(want, rng.randint(1, 3), p_leaf=0.0 if attempt < 8 else 0.3)
            if has_none(term) or term[0] != "ap":
                continue
            if j > 0 and not g.slots:
                continue
            if best is None or len(g.pending) < len(best[0].pending):
                best = (g, term, ty)
            if not g.pending or (not last and len(g.pending) < len(pending)):
                break
        if best is None:
            return None
        g, term, ty = best
        ins = []
        for k, w in enumerate(g.slots):
            r = g.bound[k]
            if r is None:
                olds = [q for q in list(res_type) if L.sub(res_type[q], w)]
                if olds and rng.random() < 0.5:
                    r = rng.choice(olds)             # shared source or shared intermediate
                else:
                    r = f"s{len(sources)}"
                    sources.append(r)
                    res_type[r] = rng.choice(L.subs(w)) if rng.random() < 0.6 else w
            ins.append(r)
        for r in ins:
            if not r.startswith("s"):
                consumed.add(r)

        def annot(leaf):
            if leaf[0] != "in":
                return leaf
            k = leaf[1]
            w, r = g.slots[k], ins[k]
            u = rng.random()
            if u < 0.45:
                return leaf
            if u < 0.75:
                return ("in", k, w)
            if u < 0.95:
                mids = [t for t in L.subs(w) if L.sub(res_type[r], t)]
                return ("in", k, rng.choice(mids) if mids else w)
            if u < 0.98 and not isinstance(w, tuple):
                return ("in", k, rng.choice(names))        # possibly wrong on purpose
            return ("in", k, w)
        term = map_leaves(term, annot)
        out = f"t{j}"
        if rng.random() < 0.06 and res_type:
            q = rng.choice(list(res_type))         # declared, not mentioned by the expression
            ins.append(q)
            if not q.startswith("s"):
                consumed.add(q)
        res_type[out] = ty
        apps.append({"out": out, "term": term, "ins": ins})
    if rng.random() < 0.94:
        # keep what feeds the final application (a few workflows keep several final ones)
        prod = {a["out"]: a for a in apps}
        keep, todo = set(), [apps[-1]["out"]]
        while todo:
            r = todo.pop()
            if r in keep:
                continue
            keep.add(r)
            if r in prod:
                todo += prod[r]["ins"]
        apps = [a for a in apps if a["out"] in keep]
        if rng.random() < 0.8:
            sources = [q for q in sources if q in keep]
    if rng.random() < 0.06:
        sources.append(f"s{len(sources) + 20}")             # a source nobody uses
    return {"sources": sources, "apps": apps}


def wf_text(lang: Lang, wf) -> dict:
    return {"sources": wf["sources"],
            "apps": {a["out"]: [term_text(lang, a["term"]), a["ins"]] for a in wf["apps"]}}


def wf_shape(wf) -> Counter:
    acc = Counter()
    uses = Counter()
    for a in wf["apps"]:
        for k in slots_of(a["term"]):          # every occurrence counts: an input used
            uses[a["ins"][k]] += 1             # twice by one tool is inlined twice
        if len(set(slots_of(a["term"]))) < len(slots_of(a["term"])):
            acc["tools_using_an_input_twice"] += 1
        if len(set(a["ins"])) < len(a["ins"]):
            acc["tools_fed_twice_by_one_resource"] += 1
    acc["apps"] = len(wf["apps"])
    acc["sources"] = len(wf["sources"])
    acc["shared_sources"] = sum(1 for r, n in uses.items() if r.startswith("s") and n > 1)
    acc["shared_intermediates"] = sum(1 for r, n in uses.items() if r.startswith("t") and n > 1)
    acc["unused_sources"] = sum(1 for s in wf["sources"] if uses[s] == 0)
    outs = [a["out"] for a in wf["apps"]]
    acc["targets"] = sum(1 for o in outs if uses[o] == 0)
    return acc


# --------------------------------------------------------------------------
# running the implementation

class OrderedSet(set):
    """a set whose iteration order is chosen by the harness (the listing order of a
    Workflow's tool applications / sources is the iteration order of these sets)"""

    def __init__(self, xs):
        xs = list(xs)
        super().__init__(xs)
        self._order = xs

    def __iter__(self):
        return iter(self._order)


def make_workflow_class():
    from transforge.workflow import Workflow

    class ListedWorkflow(Workflow):
        def __init__(self, root, apps, sources, app_order, source_order):
            self._root = root
            self._apps = apps
            self._sources = OrderedSet(source_order)
            self._outs = OrderedSet(app_order)
            assert set(source_order) == set(sources) and set(app_order) == set(apps)

        @property
        def root(self):
            return self._root

        @property
        def sources(self):
            return self._sources

        @property
        def tool_outputs(self):
            return self._outs

        def inputs(self, resource):
            return iter(self._apps[resource][1])

        def tool(self, resource):
            return resource

        def expression(self, resource):
            return self._apps[resource][0]
    return ListedWorkflow


def uri(name):
    from rdflib import URIRef
    return URIRef(NS + "r_" + name)


ROOT = NS + "workflow"


def build_wf(lang: Lang, wf, how: str, app_order=None, source_order=None):
    """the workflow as one of the three descriptions"""
    from rdflib import URIRef, Graph, Literal, BNode
    from transforge.workflow import WorkflowDict, WorkflowGraph
    from transforge.namespace import WF, RDF
    root = URIRef(ROOT)
    apps = {uri(a["out"]): (term_text(lang, a["term"]), [uri(r) for r in a["ins"]])
            for a in wf["apps"]}
    srcs = [uri(s) for s in wf["sources"]]
    if how == "listed":
        cls = make_workflow_class()
        ao = [uri(x) for x in (app_order or [a["out"] for a in wf["apps"]])]
        so = [uri(x) for x in (source_order or wf["sources"])]
        return cls(root, apps, set(srcs), ao, so)
    if how == "dict":
        return WorkflowDict(root, apps, set(srcs))
    assert how == "rdf"
    g = Graph()
    g.add((root, RDF.type, WF.Workflow))
    for s in srcs:
        g.add((root, WF.source, s))
    ns = lang.language.namespace
    for i, a in enumerate(wf["apps"]):
        app = BNode()
        tool = URIRef(NS + f"tool_{i}")
        g.add((root, WF.edge, app))
        g.add((app, WF.applicationOf, tool))
        g.add((app, WF.output, uri(a["out"])))
        for k, r in enumerate(a["ins"], start=1):
            g.add((app, WF[f"input{k}"], uri(r)))
        g.add((tool, ns.expression, Literal(term_text(lang, a["term"]))))
    # through a serialisation, as a stored workflow would be
    g2 = Graph()
    g2.parse(data=g.serialize(format="nt"), format="nt")
    return WorkflowGraph(lang.language, workflow=g2)


def new_graph(lang: Lang, passthrough: bool):
    from transforge.graph import TransformationGraph
    return TransformationGraph(lang.language, minimal=True, with_operators=True,
        with_types=True, with_labels=True, with_inputs=True, with_output=True,
        with_noncanonical_types=True, passthrough=passthrough)


class Obs:
    """what is compared of a finished graph: concept nodes with a colour
    (operators, type texts, labels, input/output marks) and from/internal edges"""
    __slots__ = ("nodes", "edges", "rmap", "error", "unfixed")

    def __init__(self):
        self.nodes, self.edges, self.rmap, self.error = {}, set(), {}, None
        self.unfixed = []


_VAR = re.compile(r"τ[0-9₀-₉]*")


def _split_top(s: str) -> list:
    out, depth, cur = [], 0, ""
    for ch in s:
        if ch in "([":
            depth += 1
        elif ch in ")]":
            depth -= 1
        if ch == "," and depth == 0:
            out.append(cur.strip())
            cur = ""
        else:
            cur += ch
    if cur.strip():
        out.append(cur.strip())
    return out


def norm_vars(s: str) -> str:
    """type variables are printed with a running number and their constraints in set
    order: rename variables by first occurrence, sort the constraint list"""
    seen = {}
    s = _VAR.sub(lambda m: seen.setdefault(m.group(0), f"τ{len(seen)}"), s)
    i = s.find(" [")
    if i >= 0 and "]" in s[i:]:
        j = s.rindex("]")
        cons = sorted(set(_split_top(s[i + 2:j])))
        s = s[:i] + " [" + ", ".join(cons) + "]" + s[j + 1:]
    return s


def observe(lang: Lang, g, rmap=None, root=None) -> Obs:
    from rdflib import URIRef, BNode
    from rdflib.namespace import RDFS
    from transforge.namespace import TF
    o = Obs()
    root = root if root is not None else URIRef(ROOT)
    inv_ops = {lang.language.namespace[op["name"]]: op["name"] for op in lang.ops}
    concept = set()
    for s, t in g.subject_objects(TF["from"]):
        o.edges.add((s, "from", t))
        concept |= {s, t}
    for s, t in g.subject_objects(TF.internal):
        o.edges.add((s, "internal", t))
        concept |= {s, t}
    ins = set(g.objects(root, TF.input))
    outs = set(g.objects(root, TF.output))
    concept |= ins | outs
    concept |= set(g.subjects(TF.via, None)) | set(g.subjects(TF.type, None))
    if rmap:
        concept |= set(rmap.values())

    def tytext(n):
        if isinstance(n, BNode):
            labs = sorted(norm_vars(str(l)) for l in g.objects(n, RDFS.label))
            return "~" + "|".join(labs)
        return str(n)[len(NS):] if str(n).startswith(NS) else str(n)
    for n in concept:
        vias = tuple(sorted(inv_ops.get(v, str(v)) for v in g.objects(n, TF.via)))
        tys = tuple(sorted(tytext(t) for t in g.objects(n, TF.type)))
        labs = tuple(sorted(norm_vars(str(l)) for l in g.objects(n, RDFS.label)))
        o.nodes[n] = (vias, tys, labs, n in ins, n in outs)
    if rmap is not None:
        o.rmap = {str(k)[len(NS) + 2:]: v for k, v in rmap.items()}
    return o


def run_wf(lang: Lang, wf, how="listed", passthrough=True, app_order=None, source_order=None) -> Obs:
    """build the workflow description, run add_workflow, observe (errors are observations)"""
    from transforge.graph import WorkflowCompositionError
    try:
        w = build_wf(lang, wf, how, app_order, source_order)
        g = new_graph(lang, passthrough)
        m = g.add_workflow(w)
        o = observe(lang, g, m)
        # sources whose type variable still carries a BOUND (not a pending constraint): fixing an
        # expression resolves those, so one left over belongs to an expression that was never fixed
        from transforge.expr import Source
        from transforge.type import TypeVariable
        o.unfixed = []
        for ex in g.expr_nodes:
            if isinstance(ex, Source):
                t = ex.type.follow()
                if isinstance(t, TypeVariable) and (t.lower is not None or t.upper is not None):
                    o.unfixed.append(norm_vars(t.text(with_constraints=True)))
        return o
    except WorkflowCompositionError as e:
        o = Obs()
        c = e.__cause__
        inner = c.__cause__ if c is not None and c.__cause__ is not None else c
        o.error = ("WorkflowCompositionError", type(c).__name__, type(inner).__name__)
        return o
    except Exception as e:          # noqa: BLE001 - every outcome is an observation
        o = Obs()
        o.error = (type(e).__name__,)
        return o


def is_typing_error(err) -> bool:
    """the declared ways in which a well-formed but ill-typed workflow is rejected"""
    return err is not None and err[0] in ("WorkflowCompositionError", "ApplicationError",
        "TypeAnnotationError", "SubtypeMismatch", "TypeMismatch", "ConstraintViolation",
        "ConstrainFreeVariable", "FunctionApplicationError", "TypingError")


# --------------------------------------------------------------------------
# comparing observations

def _graph_of(o: Obs, tag, structural: bool, with_map: bool):
    col, adj = {}, {}
    inv = {}
    if with_map:
        for r, n in o.rmap.items():
            inv.setdefault(n, []).append(r)
    for n, c in o.nodes.items():
        k = (tag, n)
        base = (c[0], c[3], c[4]) if structural else c
        col[k] = (base, tuple(sorted(inv.get(n, ()))))
        adj[k] = []
    for s, p, t in o.edges:
        adj[(tag, s)].append((p + ">", (tag, t)))
        adj[(tag, t)].append((p + "<", (tag, s)))
    return col, adj


def _refine(col, adj):
    while True:
        sig = {n: (col[n], tuple(sorted((lab, col[m]) for lab, m in adj[n]))) for n in col}
        rank = {s: i for i, s in enumerate(sorted(set(sig.values())))}
        new = {n: rank[sig[n]] for n in col}
        if len(set(new.values())) == len(set(col.values())):
            return new
        col = new


def iso(o1: Obs, o2: Obs, structural=False, with_map=True) -> bool:
    """equal up to renaming of nodes (colour refinement + individualisation)"""
    if (o1.error is None) != (o2.error is None):
        return False
    if o1.error is not None:
        return o1.error == o2.error
    if len(o1.nodes) != len(o2.nodes) or len(o1.edges) != len(o2.edges):
        return False
    c1, a1 = _graph_of(o1, 0, structural, with_map)
    c2, a2 = _graph_of(o2, 1, structural, with_map)
    adj = dict(a1)
    adj.update(a2)
    init = dict(c1)
    init.update(c2)
    rank = {s: i for i, s in enumerate(sorted(set(init.values()), key=repr))}
    col0 = {n: rank[init[n]] for n in init}
    budget = [5000]

    def search(col):
        budget[0] -= 1
        if budget[0] < 0:
            raise RuntimeError("isomorphism search budget exhausted")
        col = _refine(col, adj)
        cls = {}
        for n, c in col.items():
            cls.setdefault(c, [[], []])[n[0]].append(n)
        for c, (l, r) in cls.items():
            if len(l) != len(r):
                return False
        multi = [(len(l), c) for c, (l, r) in cls.items() if len(l) > 1]
        if not multi:
            m = {cls[c][0][0]: cls[c][1][0] for c in cls}
            e1 = Counter((a, lab, b) for a in a1 for lab, b in a1[a])
            e2 = Counter((a, lab, b) for a in a2 for lab, b in a2[a])
            return Counter((m[a], lab, m[b]) for (a, lab, b) in e1.elements()) == e2
        _, c = min(multi)
        x = cls[c][0][0]
        top = max(col.values()) + 1
        for y in cls[c][1]:
            col2 = dict(col)
            col2[x] = top
            col2[y] = top
            if search(col2):
                return True
        return False
    return search(col0)


def unfolding_equal(o1: Obs, o2: Obs) -> bool:
    """o1 is o2 with copies merged (or the other way round): the two graphs are
    bisimilar downwards (along from/internal edges, children counted as sets of
    classes), seen from the output node, and every class occurs on both sides"""
    if o1.error is not None or o2.error is not None:
        return o1.error == o2.error
    col, adj = {}, {}
    for tag, o in ((0, o1), (1, o2)):
        for n, c in o.nodes.items():
            col[(tag, n)] = c
            adj[(tag, n)] = []
        for s, p, t in o.edges:
            adj[(tag, s)].append((p, (tag, t)))
    rank = {s: i for i, s in enumerate(sorted(set(col.values()), key=repr))}
    col = {n: rank[c] for n, c in col.items()}
    while True:
        sig = {n: (col[n], tuple(sorted(set((lab, col[m]) for lab, m in adj[n])))) for n in col}
        rank = {s: i for i, s in enumerate(sorted(set(sig.values())))}
        new = {n: rank[sig[n]] for n in col}
        if len(set(new.values())) == len(set(col.values())):
            break
        col = new
    s1 = {c for n, c in col.items() if n[0] == 0}
    s2 = {c for n, c in col.items() if n[0] == 1}
    return s1 == s2


def listing(o: Obs):
    """readable rendering for replay files"""
    if o.error is not None:
        return ["error " + "/".join(o.error)]
    names = {}
    inv = {}
    for r, n in o.rmap.items():
        inv.setdefault(n, []).append(r)

    def nm(n):
        if n not in names:
            c = o.nodes.get(n, ((), (), (), False, False))
            tagp = "+".join(sorted(inv.get(n, []))) or ("/".join(c[0]) or "n")
            names[n] = f"{tagp}#{len(names)}"
        return names[n]
    rows = []
    for n in sorted(o.nodes, key=lambda n: (sorted(inv.get(n, ["~"])), o.nodes[n])):
        c = o.nodes[n]
        rows.append(f"{nm(n)}: via={','.join(c[0])} type={','.join(c[1])}"
                    f"{' INPUT' if c[3] else ''}{' OUTPUT' if c[4] else ''}")
    for s, p, t in sorted(o.edges, key=lambda e: (nm(e[0]), e[1], nm(e[2]))):
        rows.append(f"{nm(s)} {p} {nm(t)}")
    return rows


# --------------------------------------------------------------------------
# the inlined expression, built with the public parser

def producers(wf) -> dict:
    return {a["out"]: a for a in wf["apps"]}


def targets_of(wf) -> list:
    used = {r for a in wf["apps"] for r in a["ins"]}
    return [a["out"] for a in wf["apps"] if a["out"] not in used]


def inline_text(lang: Lang, wf, r, srcnum: dict) -> str:
    """text of the single expression for resource r: every tool input replaced by the
    (parenthesised) expression of its producer, sources numbered by srcnum"""
    prod = producers(wf)

    def go(r):
        if r not in prod:
            return None
        a = prod[r]

        def tt(t, top):
            if t[0] == "in":
                k, an = t[1], t[2]
                q = a["ins"][k]
                inner = str(srcnum[q]) if q not in prod else "(" + go(q) + ")"
                return f"({inner} : {lang.ty_text(an)})" if an is not None else inner
            if t[0] == "anon":
                return f"(-: {lang.ty_text(t[1])})"
            if not t[2]:
                return t[1]
            s = " ".join([t[1]] + [tt(x, False) for x in t[2]])
            return s if top else f"({s})"
        return tt(a["term"], True)
    return go(r)


def inline_obs(lang: Lang, wf, typed_sources, override=None, open_sources=()):
    """graph of add_expr on the inlined expression (tree unfolding; sources shared).
    typed_sources: give the sources the types Workflow.source_types derives (the
    documented whole-workflow step), else leave them to inference alone"""
    from rdflib import URIRef
    from transforge.expr import Source
    from transforge.namespace import TF
    tg = targets_of(wf)
    assert len(tg) == 1
    srcnum = {s: i + 1 for i, s in enumerate(wf["sources"])}
    text = inline_text(lang, wf, tg[0], srcnum)
    o = Obs()
    try:
        if typed_sources:
            w = build_wf(lang, wf, "listed")
            st = {str(n)[len(NS) + 2:]: t for n, t in w.source_types(lang.language)}
            srcs = [Source(st[s]) for s in wf["sources"]]
        else:
            srcs = [Source() for _ in wf["sources"]]
        for i, q in enumerate(wf["sources"]):
            if override and q in override:          # a harness type for this source
                srcs[i] = Source(lang.pt(override[q]))
            elif q in open_sources:
                srcs[i] = Source()
        e = lang.language.parse_expr(text, *srcs)
        e.fix()
        g = new_graph(lang, True)
        root = URIRef(ROOT)
        out = g.add_expr(e, root)
        g.add((root, TF.output, out))
        for s in srcs:
            g.add((root, TF.input, g.add_expr(s, root)))
        o = observe(lang, g, None)
    except Exception as ex:      # noqa: BLE001
        o.error = (type(ex).__name__,)
    return o, text


# --------------------------------------------------------------------------
# the property, literally: tool trees plugged together (oracle (a))

def spec_obs(lang: Lang, wf, passthrough: bool) -> Obs:
    """Nodes named by (resource, position); written from the property text:
    * one node per workflow resource; a tool's node is the node of the outermost
      operator application of its expression; one node per further operator
      application / anonymous source inside the expression;
    * an input of a tool is the node of the resource that feeds it (passthrough), or -
      passthrough off, producer is a tool - a source node of its own (one per input
      position of the tool) that is fed by the producer's node;
    * data flow inside one expression as in C08 (step -> each argument; one internal
      node per function-typed argument ...);
    * workflow sources are marked as inputs, the final tool's node as output."""
    o = Obs()
    prod = producers(wf)
    tg = targets_of(wf)
    via = {}

    resnode = {}

    def node_of(r):
        # a tool that hands its input on is represented by whatever represents that input
        if r in resnode:
            return resnode[r]
        return ("S", r) if r not in prod else ("N", r, ())
    internals = {}

    def go(a, t, path):
        r = a["out"]
        if t[0] == "in":
            q = a["ins"][t[1]]
            if passthrough or q not in prod:
                return node_of(q)
            n = ("I", r, t[1])
            o.edges.add((n, "from", node_of(q)))
            return n
        if t[0] == "anon":
            return ("A", r, path) if path else ("N", r, ())
        c = ("N", r, path)
        op = lang.ops[lang.index[t[1]]]
        via[c] = t[1]
        ns, its = [], []
        for i, x in enumerate(t[2]):
            n = go(a, x, path + (i,))
            it = None
            if is_fn(op["params"][i]):
                it = ("X", r, path + (i,))
                o.edges.add((c, "internal", it))
                o.edges.add((n, "from", it))
                for j in internals.get(n, ()):
                    o.edges.add((j, "from", it))
            o.edges.add((c, "from", n))
            ns.append(n)
            its.append(it)
        for i, it in enumerate(its):
            if it is not None:
                for j, n in enumerate(ns):
                    if j != i:
                        o.edges.add((it, "from", n))
        internals[c] = [it for it in its if it is not None]
        return c
    for a in wf["apps"]:          # listed producers first
        n = go(a, a["term"], ())
        if a["term"][0] == "in":
            resnode[a["out"]] = n
        if not passthrough:
            # each input fed by a tool is its own source node, mentioned by the expression or not
            for k, q in enumerate(a["ins"]):
                if q in prod:
                    o.edges.add((("I", a["out"], k), "from", node_of(q)))
    nodes = {node_of(r) for r in wf["sources"]} | {node_of(a["out"]) for a in wf["apps"]}
    for s, _, t in o.edges:
        nodes |= {s, t}
    ins = {node_of(s) for s in wf["sources"]}
    for n in nodes:
        o.nodes[n] = ((via[n],) if n in via else (), (), (), n in ins,
                      len(tg) == 1 and n == node_of(tg[0]))
    o.rmap = {r: node_of(r) for r in list(wf["sources"]) + [a["out"] for a in wf["apps"]]}
    return o


def in_domain(lang: Lang, wf) -> bool:
    """the workflows the property (and the Coq theorem, wf_okb) speaks about: one final
    application, every input defined, acyclic by construction; every tool expression is
    an operator application or a single anonymous source; inputs are used as data"""
    if len(targets_of(wf)) != 1:
        return False
    known = set(wf["sources"])
    for a in wf["apps"]:
        if any(r not in known for r in a["ins"]):
            return False
        known.add(a["out"])
        if a["term"][0] not in ("ap", "anon"):
            return False
    return True


def in_domain_ext(lang: Lang, wf) -> bool:
    """as in_domain, but a tool expression may also be a bare source (`-: T`, `1`, `1: T`):
    outside the Coq theorem's domain (wf_okb), inside the property's and the model's"""
    if len(targets_of(wf)) != 1:
        return False
    known = set(wf["sources"])
    for a in wf["apps"]:
        if any(r not in known for r in a["ins"]):
            return False
        known.add(a["out"])
    return True


# --------------------------------------------------------------------------
# Coq side

HDR = """From Coq Require Import List Arith Bool.
Import ListNotations.
From TF Require Import Graph.AddExpr Graph.AddExprSpec Graph.Workflow Graph.WorkflowSpec.
Definition enc (r : option wres) :=
  match r with
  | None => (0, [], [], 0, [])
  | Some w => (1, map (fun t => [t_subj t; t_pred t; t_obj t]) (r_tr w), r_inputs w, r_output w,
               map (fun p => [fst p; snd p]) (r_map w))
  end.
Definition aw (pinned pt : bool) (wf : wflow) := enc (add_workflow add_from_plain add_from_plain pinned pt wf).
Fixpoint teqb (a b : list nat) : bool :=
  match a, b with
  | [], [] => true
  | x :: a', y :: b' => Nat.eqb x y && teqb a' b'
  | _, _ => false
  end.
Definition subset (l1 l2 : list (list nat)) : bool := forallb (fun t => existsb (teqb t) l2) l1.
Definition same (a b : nat * list (list nat) * list nat * nat * list (list nat)) : bool :=
  let '(f1, t1, i1, o1, m1) := a in let '(f2, t2, i2, o2, m2) := b in
  Nat.eqb f1 f2 && subset t1 t2 && subset t2 t1 && teqb i1 i2 && Nat.eqb o1 o2 && subset m1 m2 && subset m2 m1.
(* model of the repaired add_expr wiring; does the model of the pinned wiring agree;
   is the workflow in the theorem's domain *)
Definition obs (pt : bool) (wf : wflow) :=
  (aw false pt wf, Nat.b2n (same (aw false pt wf) (aw true pt wf)), Nat.b2n (wf_okb wf)).
"""


def coq_bool(b) -> str:
    return "true" if b else "false"


def coq_wf(lang: Lang, wf, app_order=None, source_order=None):
    """the workflow as a Gallina term, with the harness' numbering of resources and
    object identities; returns (term, resource numbering)"""
    res = {}
    for s in wf["sources"]:
        res[s] = len(res)
    for a in wf["apps"]:
        res[a["out"]] = len(res)
    ctr = [len(res)]

    def fresh():
        ctr[0] += 1
        return ctr[0] - 1

    def tx(t):
        if t[0] == "in":
            return f"(TIn {t[1]})"
        if t[0] == "anon":
            return f"(TAnon {fresh()})"
        op = lang.ops[lang.index[t[1]]]
        cur = f"(TOp {fresh()} {lang.index[t[1]]})"
        for i, x in enumerate(t[2]):
            cur = f"(TApp {fresh()} {cur} {tx(x)} {coq_bool(is_fn(op['params'][i]))})"
        return cur
    apps = {}
    for a in wf["apps"]:
        body = tx(a["term"])
        ind = [fresh() for _ in a["ins"]]
        apps[a["out"]] = (f"(mkApp {res[a['out']]} {body} {C.coq_list([res.get(r, 9999) for r in a['ins']])} "
                          f"{C.coq_list(ind)})")
    ao = app_order or [a["out"] for a in wf["apps"]]
    so = source_order or wf["sources"]
    term = f"(mkWf {C.coq_list([res[s] for s in so])} {C.coq_list([apps[o] for o in ao])})"
    return term, res


def model_obs(lang: Lang, res: dict, val) -> Obs:
    """the model's result as an observation (structural colours)"""
    o = Obs()
    flag, trs, ins, out, rmap = val
    if not flag:
        o.error = ("model-none",)
        return o
    via = {}
    nodes = set(ins) | {out} | {n for _, n in rmap}
    for s, p, t in trs:
        if p == 2:
            via.setdefault(s, []).append(lang.ops[t]["name"])
            nodes.add(s)
        elif p in (0, 1):
            o.edges.add((s, "from" if p == 0 else "internal", t))
            nodes |= {s, t}
    for n in nodes:
        o.nodes[n] = (tuple(sorted(via.get(n, ()))), (), (), n in ins, n == out)
    inv = {v: k for k, v in res.items()}
    o.rmap = {inv[r]: n for r, n in rmap}
    return o


# --------------------------------------------------------------------------
# source_types, observed directly (public API)

SIG_SRC = "workflow.py:source_types:unannotated-and-annotated-uses-override-each-other-in-listing-order"
# the typed half rests on inference being insensitive to the order in which applications are
# inferred (C05 proves that for comparable arguments only, C18 refutes it in general)
SIG_INFER = "typed-half:inlined-expression-infers-differently:a-source-is-left-to-inference"


def source_types_obs(lang: Lang, wf, app_order, source_order=None):
    """{source: normalised type text} as Workflow.source_types yields it"""
    try:
        w = build_wf(lang, wf, "listed", app_order, source_order)
        out = {}
        for n, t in w.source_types(lang.language):
            txt = norm_vars(t.text(with_constraints=True)) if hasattr(t, "text") else str(t)
            out[str(n)[len(NS) + 2:]] = txt
        return out
    except Exception as e:      # noqa: BLE001
        return {"error": type(e).__name__}


def spec_source_types(lang: Lang, wf):
    """what Workflow.source_types has to yield (C12_source_types_spec), computed from the
    workflow description: per source None (left to inference) if some input position fed by
    it carries no annotation, else the least of the annotated types; None altogether when
    annotations are not comparable"""
    out = {q: [] for q in wf["sources"]}
    for a in wf["apps"]:
        per = {k: [] for k in range(len(a["ins"]))}

        def walk(t):
            if t[0] == "in":
                if t[2] is not None:
                    per[t[1]].append(t[2])
            elif t[0] == "ap":
                for x in t[2]:
                    walk(x)
        walk(a["term"])
        for k, q in enumerate(a["ins"]):
            if q in out:
                m = None
                for x in per[k]:
                    m = x if m is None else lang.meet(m, x)
                    if m is None:
                        return None
                out[q].append(m)
    res = {}
    for q, ts in out.items():
        if not ts or any(t is None for t in ts):
            res[q] = None
            continue
        m = ts[0]
        for x in ts[1:]:
            m = lang.meet(m, x)
            if m is None:
                return None
        res[q] = m
    return res


def uses_of(wf) -> dict:
    """per source: list of annotations (None = not annotated) in listing order"""
    out = {s: [] for s in wf["sources"]}

    def walk(a, t):
        if t[0] == "in":
            q = a["ins"][t[1]]
            if q in out:
                out[q].append(t[2])
        elif t[0] == "ap":
            for x in t[2]:
                walk(a, x)
    for a in wf["apps"]:
        walk(a, a["term"])
    return out


# --------------------------------------------------------------------------
# passthrough off: the type of the source node made for a tool input (oracle (d))

def isolated_input_types(lang: Lang, wf):
    """multiset of type texts the tools give, each parsed on its own, to their inputs
    that are other tools' outputs; None where a workflow source without a concrete
    derived type takes part (then other tools can influence the outcome)"""
    from transforge.expr import Source
    prod = producers(wf)
    w = build_wf(lang, wf, "listed")
    st = {str(n)[len(NS) + 2:]: t for n, t in w.source_types(lang.language)}
    out = []
    for a in wf["apps"]:
        used = set(slots_of(a["term"]))
        ins = []
        open_source = False
        for q in a["ins"]:
            if q in prod:
                ins.append(Source())
            else:
                t = st[q]
                if any(True for _ in t.variables()):
                    open_source = True
                ins.append(Source(t))
        if open_source and any(q in prod for q in a["ins"]):
            return None
        e = lang.language.parse_expr(term_text(lang, a["term"]), *ins)
        e.fix()
        for k, q in enumerate(a["ins"]):
            if q in prod:        # mentioned by the expression or not (then the type stays open)
                out.append(norm_vars(f"{ins[k].type} from source"))
    return Counter(out)


def indirection_labels(o: Obs) -> Counter:
    """labels of the source nodes that are fed by another node"""
    fed = {s for s, p, t in o.edges if p == "from"}
    return Counter(o.nodes[n][2][0] if o.nodes[n][2] else "" for n in fed if not o.nodes[n][0]
                   and not any(p == "internal" and t == n for _, p, t in o.edges))


# --------------------------------------------------------------------------
# fixed cases

def fixed_cases():
    """(name, language, workflow): the Coq example, the witness of the source_types defect,
    shapes of the pinned test-suite"""
    def mono(name, params, res):
        return dict(kind="mono", name=name, params=params, res=res, bound=None)

    def ap(n, *a):
        return ("ap", n, list(a))

    def I(k, an=None):
        return ("in", k, an)
    out = []
    # C12_ex_wf (props/C12.v): k t3 t2 / f s0 / h (g t2) s0, a source nobody uses
    l1 = Lang({"T0": None}, False, [
        mono("f", ["T0"], "T0"), mono("h", [("fn", ["T0"], "T0"), "T0"], "T0"),
        mono("g", ["T0", "T0"], "T0"), mono("k", ["T0", "T0"], "T0")], [])
    out.append(("coq_example", l1, {"sources": ["s0", "s1"], "apps": [
        {"out": "t0", "term": ap("f", I(0)), "ins": ["s0"]},
        {"out": "t1", "term": ap("h", ap("g", I(0)), I(1)), "ins": ["t0", "s0"]},
        {"out": "t2", "term": ap("k", I(0), I(1)), "ins": ["t1", "t0"]}]}))
    # C12_source_types_pinned_refuted: `m (1 : T0)` and `n 1` (n needs T1 < T0) on one source
    l2 = Lang({"T0": None, "T1": "T0"}, False, [
        mono("m", ["T0"], "T0"), mono("n", ["T1", "T0"], "T0")], [])
    out.append(("source_types_witness", l2, {"sources": ["s0"], "apps": [
        {"out": "t0", "term": ap("m", I(0, "T0")), "ins": ["s0"]},
        {"out": "t1", "term": ap("n", I(0), I(1)), "ins": ["s0", "t0"]}]}))
    # a source narrowed by an unannotated use through a polymorphic operator, annotated more
    # generally elsewhere:  f 1 on [s0];  g (1 : T0) 2 on [s0, t0]  with g : T0 ** T1 ** T2
    l2b = Lang({"T0": None, "T1": "T0", "T2": None}, False, [
        dict(kind="id", name="f", params=["x"], res="x", bound="T0"),
        mono("g", ["T0", "T1"], "T2")], [])
    out.append(("narrowed_by_unannotated_use", l2b, {"sources": ["s0"], "apps": [
        {"out": "t0", "term": ap("f", I(0)), "ins": ["s0"]},
        {"out": "t1", "term": ap("g", I(0, "T0"), I(1)), "ins": ["s0", "t0"]}]}))
    # test_disabling_of_output_passthrough / test_inter_tool_types
    l3 = Lang({"T0": None, "T1": "T0", "T2": "T1"}, False, [
        dict(kind="id", name="f", params=["x"], res="x", bound="T0"),
        dict(kind="join", name="j", params=["x", "x"], res="x", bound="T0")], [])
    out.append(("test_passthrough_shape", l3, {"sources": ["s0"], "apps": [
        {"out": "t0", "term": ap("f", I(0, "T1")), "ins": ["s0"]},
        {"out": "t1", "term": ap("f", I(0, "T0")), "ins": ["t0"]}]}))
    # test_source_reuse_does_not_affect_type_fixing_for_apps
    out.append(("test_source_reuse_shape", l3, {"sources": ["s0"], "apps": [
        {"out": "t0", "term": ap("j", ("anon", "T0"), I(0, "T0")), "ins": ["s0"]},
        {"out": "t1", "term": ap("j", I(0, "T0"), I(1, "T1")), "ins": ["t0", "s0"]}]}))
    # the witnesses of the two KeyErrors repaired by 5e78fd2 / 1f88f3e (found while proving
    # C12_handon_plugged): a tool that hands one input on and declares another it does not mention
    l4 = Lang({"T0": None}, False, [
        mono("f", ["T0"], "T0"), mono("g", ["T0"], "T0"), mono("h", ["T0", "T0"], "T0")], [])
    for name, third in (("handon_unmentioned_input", ["t0", "t1"]),
                        ("handon_source_unmentioned_input", ["s0", "t1"])):
        out.append((name, l4, {"sources": ["s0"], "apps": [
            {"out": "t0", "term": ap("f", I(0)), "ins": ["s0"]},
            {"out": "t1", "term": ap("g", I(0)), "ins": ["s0"]},
            {"out": "t2", "term": I(0), "ins": third},
            {"out": "t3", "term": ap("h", I(0), I(1)), "ins": ["t0", "t2"]}]}))
    return out


def finding_cases():
    """minimal reproductions of recorded findings (run only when the finding is listed)"""
    def mono(name, params, res):
        return dict(kind="mono", name=name, params=params, res=res, bound=None)

    def ap(n, *a):
        return ("ap", n, list(a))
    F0, F1 = ("F", "T0"), ("F", "T1")
    lang = Lang({"T0": None, "T1": "T0"}, True, [
        mono("p", [F0], "T0"), mono("q", [F1], "T0"), mono("g", ["T0", "T0"], "T0")], [])
    # the workflow type-checks (s0 : F(T1)); its inlined expression `g (p 1) (q 1)` is rejected
    wf = {"sources": ["s0"], "apps": [
        {"out": "t0", "term": ap("q", ("in", 0, None)), "ins": ["s0"]},
        {"out": "t1", "term": ap("g", ap("p", ("in", 1, None)), ("in", 0, None)), "ins": ["t0", "s0"]}]}
    return {SIG_INFER: [("inference_order_example", lang, wf)]}


# --------------------------------------------------------------------------
# one case

class Case:
    def __init__(self, name, lang, wf):
        self.name, self.lang, self.wf = name, lang, wf
        self.shape = wf_shape(wf)
        self.dom = in_domain(lang, wf)
        self.dom2 = in_domain_ext(lang, wf)      # dom, or bare-source tools
        self.model_jobs = []      # (passthrough, app_order, source_order, impl Obs)
        self.st_jobs = []         # (app_order, source_order)

    def payload(self, **kw):
        d = {"name": self.name, "language": self.lang.to_json(),
             "operators": [(o["name"], self.lang.sig_text(o)) for o in self.lang.ops],
             "workflow": self.wf, "workflow_text": wf_text(self.lang, self.wf),
             "how_to_rebuild": "base types with the given parents, F unary covariant; operators with the "
                               "listed signatures; WorkflowDict(root, {out: (expression, inputs)}, sources) "
                               "or the harness' ListedWorkflow for a chosen listing order; "
                               "TransformationGraph(lang, minimal=True, with_operators=True, with_types=True, "
                               "with_labels=True, with_inputs=True, with_output=True, "
                               "with_noncanonical_types=True, passthrough=...).add_workflow(wf)"}
        d.update(kw)
        return d


def orders_for(rng, wf, tier):
    outs = [a["out"] for a in wf["apps"]]
    n = len(outs)
    perms = list(itertools.permutations(outs))
    if tier == "quick":
        if len(perms) > 6:
            perms = [perms[0], perms[-1]] + rng.sample(perms[1:-1], 4)
    else:
        if len(perms) > 24:
            head = [perms[0], perms[-1]]
            perms = head + rng.sample(perms[1:-1], 22)
    res = []
    for p in perms:
        so = list(wf["sources"])
        rng.shuffle(so)
        res.append((list(p), so))
    return res


def same_outcome(a: Obs, b: Obs) -> bool:
    return (a.error is None) == (b.error is None)


def check_case(rep: C.Report, rng, case: Case, tier, acc: Counter, idx: int, all_orders=False):
    lang, wf = case.lang, case.wf
    orders = orders_for(rng, wf, tier)
    if all_orders:
        outs = [a["out"] for a in wf["apps"]]
        orders = [(list(p), list(wf["sources"])) for p in itertools.permutations(outs)]
    acc["listing_orders_run"] += len(orders)
    case.st_jobs = [orders[0], orders[-1]] if len(orders) > 1 else [orders[0]]
    # --- (c0) source_types by listing order
    st0 = source_types_obs(lang, wf, orders[0][0], orders[0][1])
    st_diff = None
    for ao, so in orders[1:]:
        st = source_types_obs(lang, wf, ao, so)
        if st != st0:
            st_diff = (ao, so, st)
            break
    uses = uses_of(wf)
    comparable = all(lang.meet(x, y) is not None for us in uses.values()
                     for x in us for y in us if x is not None and y is not None)
    if st_diff is not None and not comparable:
        # annotations no type satisfies: the workflow is ill-typed whatever source_types says
        acc["source_types_differs_on_incomparable_annotations"] += 1
        st_diff = None
    if st_diff is not None:
        acc["source_types_order_dependent"] += 1
        ao, so, st = st_diff
        mixed = [s for s, us in uses.items() if any(u is None for u in us) and any(u is not None for u in us)]
        sig = SIG_SRC if mixed else None
        rep.violation(f"source_types_{idx}", case.payload(kind="oracle",
            what="Workflow.source_types depends on the listing order of the tool applications",
            order_a=orders[0][0], result_a=st0, order_b=ao, result_b=st,
            sources_with_annotated_and_unannotated_uses=mixed), has_input=True, signature=sig)
    spec_st = spec_source_types(lang, wf)
    spec_over, spec_open, st_differs = {}, set(), False
    if spec_st is not None and "error" not in st0:
        for q, t in spec_st.items():
            impl_t = st0.get(q, "_")
            impl_open = impl_t == "_" or impl_t.startswith("τ")
            if t is None:
                spec_open.add(q)
                st_differs |= not impl_open
            else:
                spec_over[q] = t
                st_differs |= impl_open or impl_t != lang.ty_text(t)
    for pt in (True, False):
        tag = "pass" if pt else "nopass"
        base = run_wf(lang, wf, "listed", pt, orders[0][0], orders[0][1])
        acc[f"outcome_{tag}_{'ok' if base.error is None else base.error[0]}"] += 1
        case.model_jobs.append((pt, orders[0][0], orders[0][1], base))
        # --- (g) add_workflow leaves no source with a bounded, unresolved type variable: every
        # expression of the workflow is fixed in the end (its sources to their most general type)
        if base.error is None and getattr(base, "unfixed", None):
            acc["unfixed_sources"] += 1
            rep.violation(f"unfixed_{tag}_{idx}", case.payload(kind="oracle", passthrough=pt,
                what="after add_workflow a source's type variable still carries a bound: the expression it "
                     "belongs to was not fixed", source_types=base.unfixed, impl=listing(base)), has_input=True)
        # --- (f) each source gets the most general type acceptable to all of its uses: when
        # Workflow.source_types departs from its specification (no type for a source with a use
        # that is not annotated, else the least annotated type), the inlined expression with the
        # specified source types decides what the workflow must give
        # a declared input that no expression mentions is a resource of the workflow (it gets its
        # node and subgraph) but no part of the inlined expression: no inlined comparison then
        inlinable = not unmentioned_inputs(wf)
        if pt and case.dom and spec_st is not None and st_differs and inlinable:
            so_, text = inline_obs(lang, wf, True, override=spec_over, open_sources=spec_open)
            acc["source_spec_departures_checked"] += 1
            bad = None
            if so_.error is None and base.error is not None:
                bad = "add_workflow rejects the workflow although"
            elif so_.error is None and base.error is None:
                shared = case.shape["shared_intermediates"] > 0
                same = unfolding_equal(base, so_) if shared else iso(base, so_, with_map=False)
                if not same:
                    bad = "the workflow graph carries other types than the inlined expression when"
            if bad:
                acc["source_spec_violations"] += 1
                rep.violation(f"sources_{idx}", case.payload(kind="oracle",
                    what=f"{bad} every source is given the most general type acceptable to all of its "
                         "uses (none where a use is not annotated, else the least annotated type): the "
                         "inlined expression type-checks with those source types",
                    source_types_of_the_implementation=st0, source_types_expected=spec_st,
                    inlined_expression=text, workflow_graph=listing(base), inlined_graph=listing(so_)),
                    has_input=True)
        # --- (c) listing orders and descriptions
        for j, (ao, so) in enumerate(orders[1:], start=1):
            o = run_wf(lang, wf, "listed", pt, ao, so)
            acc["impl_runs"] += 1
            if j == len(orders) - 1 or (tier != "quick" and j % 7 == 3):
                case.model_jobs.append((pt, ao, so, o))
            ok = iso(base, o) if (base.error is None and o.error is None) else same_outcome(base, o)
            if base.error is not None and o.error is not None and base.error != o.error:
                acc["error_class_differs_by_order"] += 1
            if not ok:
                acc["order_dependent_graphs"] += 1
                sig = SIG_SRC if st_diff is not None else None
                rep.violation(f"order_{tag}_{idx}", case.payload(kind="oracle", passthrough=pt,
                    what="the graph (or success/failure) of add_workflow depends on the listing order",
                    order_a=orders[0][0], sources_a=orders[0][1], result_a=listing(base),
                    order_b=ao, sources_b=so, result_b=listing(o)), has_input=True, signature=sig)
                break
        for how in ("dict", "rdf"):
            o = run_wf(lang, wf, how, pt)
            acc["impl_runs"] += 1
            ok = iso(base, o) if (base.error is None and o.error is None) else same_outcome(base, o)
            if not ok:
                acc["description_dependent_graphs"] += 1
                sig = SIG_SRC if st_diff is not None else None
                rep.violation(f"describe_{how}_{tag}_{idx}", case.payload(kind="oracle", passthrough=pt,
                    what=f"the workflow given as {how} and as the listed in-memory description give "
                         "different graphs", result_listed=listing(base), result_other=listing(o)),
                    has_input=True, signature=sig)
        if not case.dom:
            if case.dom2 and base.error is not None and not is_typing_error(base.error):
                acc["unexpected_errors"] += 1
                rep.violation(f"raised_{tag}_{idx}", case.payload(kind="oracle", passthrough=pt,
                    what="add_workflow raised something other than a typing error on a well-formed "
                         "workflow (a tool here is a bare source)", error=list(base.error)), has_input=True)
            if case.dom2 and base.error is None:
                # bare-source tools: the property structurally (types: only through the model-free
                # order/description comparisons above)
                sp = spec_obs(lang, wf, pt)
                acc["bare_source_tool_workflows_checked"] += 1
                if not iso(base, sp, structural=True):
                    acc["structure_violations"] += 1
                    rep.violation(f"structure_{tag}_{idx}", case.payload(kind="oracle", passthrough=pt,
                        what="from/via/internal triples, input/output marks or the resource->node map differ "
                             "from the tool trees plugged together (a tool here is a bare source)",
                        impl=listing(base), expected=listing(sp)), has_input=True)
            continue
        if base.error is not None:
            if not is_typing_error(base.error):
                acc["unexpected_errors"] += 1
                rep.violation(f"raised_{tag}_{idx}", case.payload(kind="oracle", passthrough=pt,
                    what="add_workflow raised something other than a typing error on a well-formed "
                         "workflow", error=list(base.error)), has_input=True)
            elif pt and inlinable:
                # ill-typed as a workflow: then the inlined expression must be ill-typed too
                io, text = inline_obs(lang, wf, True)
                acc["inline_compared_failures"] += 1
                if io.error is None:
                    acc["inline_violations"] += 1
                    open_sources = [q for q, t in st0.items() if t == "_" or t.startswith("τ")]
                    rep.violation(f"inline_{idx}", case.payload(kind="oracle",
                        what="add_workflow rejects the workflow but the inlined expression type-checks",
                        inlined_expression=text, error=list(base.error),
                        sources_left_to_inference=open_sources, inlined_graph=listing(io)),
                        has_input=True,
                        # the recorded finding shows in this direction only when the open source meets a
                        # compound-typed parameter (bound at once, parameters included)
                        signature=SIG_INFER if open_sources and open_source_meets_compound(lang, wf, open_sources)
                        else None)
            continue
        # --- (a) the property, structurally
        sp = spec_obs(lang, wf, pt)
        if not iso(base, sp, structural=True):
            acc["structure_violations"] += 1
            rep.violation(f"structure_{tag}_{idx}", case.payload(kind="oracle", passthrough=pt,
                what="from/via/internal triples, input/output marks or the resource->node map differ from "
                     "the tool trees plugged together", impl=listing(base), expected=listing(sp)),
                has_input=True)
        # --- (b) typed: against the inlined expression
        if pt and not inlinable:
            acc["inline_skipped_unmentioned_input"] += 1
        elif pt:
            io, text = inline_obs(lang, wf, True)
            shared = case.shape["shared_intermediates"] > 0
            if io.error is not None:
                ok = False
            elif shared:
                ok = unfolding_equal(base, io)
            else:
                ok = iso(base, io, with_map=False)
            acc["inline_compared_" + ("merged" if shared else "isomorphic")] += 1
            if not ok:
                acc["inline_violations"] += 1
                open_sources = [q for q, t in st0.items() if t == "_" or t.startswith("τ")]
                # the recorded finding: the workflow type-checks (tools inferred producer-first, a
                # source resolved by the first tool is concrete for the next) while the inlined
                # expression keeps that source a variable (aliased by unify(var, var), or bound to a
                # compound type at once) and raises, or types differently
                sig = SIG_INFER if open_sources else None
                rep.violation(f"inline_{idx}", case.payload(kind="oracle",
                    what="the workflow graph and the graph of the inlined expression disagree "
                         "(operators, types, labels or wiring)", inlined_expression=text,
                    sources_left_to_inference=open_sources,
                    workflow_graph=listing(base), inlined_graph=listing(io)), has_input=True,
                    signature=sig)
        else:
            # --- (d) the sources made for tool inputs
            try:
                exp = isolated_input_types(lang, wf)
            except Exception:       # noqa: BLE001
                exp = None
            if exp is None:
                acc["nopass_type_check_skipped"] += 1
            else:
                got = indirection_labels(base)
                acc["nopass_input_sources_checked"] += sum(exp.values())
                if got != exp:
                    acc["nopass_type_violations"] += 1
                    rep.violation(f"nopass_types_{idx}", case.payload(kind="oracle",
                        what="with passthrough off the source nodes made for tool inputs do not carry the "
                             "types the tools give those inputs when typed on their own",
                        expected=dict(exp), got=dict(got), impl=listing(base)), has_input=True)


def unmentioned_inputs(wf) -> list:
    """(tool, position) of declared inputs the tool's expression does not mention"""
    return [(a["out"], k) for a in wf["apps"] for k in range(len(a["ins"]))
            if k not in set(slots_of(a["term"]))]


def open_source_meets_compound(lang: Lang, wf, open_sources) -> bool:
    """does a source that is left to inference feed a parameter of compound type (F(..), a
    function type, or the F-side of wrap/unwrap)?  Only then can the order in which its uses
    are inferred matter (the recorded finding: a variable unified with a compound type is
    bound at once, parameters included); uses at base types of one chain are C05's theorem."""
    op_of = {o["name"]: o for o in lang.ops}
    hit = []

    def walk(a, t):
        if t[0] != "ap":
            return
        o = op_of[t[1]]
        for p, x in zip(o["params"], t[2]):
            if x[0] == "in" and a["ins"][x[1]] in open_sources and isinstance(p, tuple):
                hit.append((a["out"], t[1]))
            walk(a, x)
    for a in wf["apps"]:
        walk(a, a["term"])
    return bool(hit)


def all_reached(wf) -> bool:
    prod = producers(wf)
    tg = targets_of(wf)
    seen, todo = set(), list(tg)
    while todo:
        r = todo.pop()
        if r in seen:
            continue
        seen.add(r)
        if r in prod:
            todo += prod[r]["ins"]
    return seen >= set(wf["sources"]) | set(prod)


def correspondence(rep: C.Report, cases, tag, acc: Counter):
    jobs = []
    for ci, case in enumerate(cases):
        for (pt, ao, so, io) in case.model_jobs:
            term, res = coq_wf(case.lang, case.wf, ao, so)
            jobs.append((ci, pt, ao, so, io, res, f"Eval vm_compute in obs {coq_bool(pt)} {term}.\n"))
    if not jobs:
        return
    outs = C.coq_eval_blocks(f"C12_{tag}", HDR, [(j[-1], 1) for j in jobs], nfiles=4)
    for (ci, pt, ao, so, io, res, _), vals in zip(jobs, outs):
        case = cases[ci]
        v = vals[0]
        val, same, dom = v[:5], v[5], v[6]
        mo = model_obs(case.lang, res, val)
        acc["evaluations"] += 1
        if bool(dom) != case.dom:
            rep.violation(f"domain_{tag}_{ci}", case.payload(kind="harness",
                what="in_domain (harness) and wf_okb (Coq) disagree"), has_input=False)
        # (node numbers are compared literally: meaningful only when the repaired code's extra pass
        # over all resources visits nothing new, i.e. every resource is reached from the target)
        if case.dom and not same and all_reached(case.wf):
            rep.violation(f"wiring_{tag}_{ci}", case.payload(kind="correspondence",
                what="the models of the pinned and of the repaired add_expr wiring differ on a workflow "
                     "in the theorem's domain"), has_input=False)
        if not case.dom:
            acc["out_of_domain_model_only"] += 1
            # outside the domain only success/failure is compared where the model decides it
            if mo.error is not None and io.error is None:
                acc["model_rejects_impl_accepts_out_of_domain"] += 1
            if case.dom2 and io.error is None:
                acc["compared_graphs"] += 1
                acc["compared_graphs_bare_source_tools"] += 1
                if mo.error is not None or not iso(io, mo, structural=True):
                    acc["disagreements"] += 1
                    rep.violation(f"disagree_{tag}_{ci}_{'p' if pt else 'n'}", case.payload(kind="correspondence",
                        passthrough=pt, app_order=ao, source_order=so,
                        what="TransformationGraph.add_workflow differs from the model add_workflow (K_C12)",
                        impl=listing(io), model=listing(mo)), has_input=False)
            nt = len(targets_of(case.wf))
            if nt != 1 and (io.error is None or io.error[0] != "ValueError"):
                # Workflow.target: exactly one final application, else ValueError
                rep.violation(f"target_{tag}_{ci}", case.payload(kind="oracle", passthrough=pt,
                    final_applications=targets_of(case.wf),
                    what="a workflow without a unique final tool application was not rejected with "
                         "ValueError", impl=listing(io)), has_input=True)
            continue
        if io.error is not None:
            acc["in_domain_impl_raised"] += 1      # typing errors: the structural model has no types
            continue
        acc["compared_graphs"] += 1
        if mo.error is not None or not iso(io, mo, structural=True):
            acc["disagreements"] += 1
            rep.violation(f"disagree_{tag}_{ci}_{'p' if pt else 'n'}", case.payload(kind="correspondence",
                passthrough=pt, app_order=ao, source_order=so,
                what="TransformationGraph.add_workflow differs from the model add_workflow (K_C12)",
                impl=listing(io), model=listing(mo)), has_input=False)


ST_HDR = """From Coq Require Import List Arith Bool.
Import ListNotations.
From TF Require Import Base.Hier Base.Ty Graph.SourceTypes.
Definition enc (l : list (nat * option ty)) : list (list nat) :=
  map (fun p => fst p :: match snd p with Some t => 1 :: ty_enc t | None => [0] end) l.
Definition st (H : hier) (srcs : list nat) (uses : list (nat * option ty)) :=
  (enc (source_types (upd_fixed H) srcs uses), enc (source_types (upd_pinned H) srcs uses)).
"""


def st_encode(lang: Lang, wf, app_order, source_order):
    """the uses Workflow.source_types meets, in its order, as a Gallina term; None when an
    input carries annotations that are not comparable (the parse itself fails then)"""
    names = list(lang.parents)
    opid = {b: 5 + i for i, b in enumerate(names)}
    fid = 5 + len(names)

    def ty(t):
        return f"(TOp {fid} [{ty(t[1])}])" if isinstance(t, tuple) else f"(TOp {opid[t]} [])"
    prod = producers(wf)
    sid = {q: i for i, q in enumerate(wf["sources"])}
    uses = []
    for out in app_order:
        a = prod[out]
        per = {k: [] for k in range(len(a["ins"]))}

        def walk(t):
            if t[0] == "in":
                if t[2] is not None:
                    per[t[1]].append(t[2])
            elif t[0] == "ap":
                for x in t[2]:
                    walk(x)
        walk(a["term"])
        for k, q in enumerate(a["ins"]):
            if q not in sid:
                continue
            ans = per[k]
            if not ans:
                uses.append(f"({sid[q]}, None)")
                continue
            m = ans[0]
            for x in ans[1:]:
                m = lang.meet(m, x)
                if m is None:
                    return None
            uses.append(f"({sid[q]}, Some {ty(m)})")
    ps = C.coq_list([(opid[b], opid[p]) for b, p in lang.parents.items() if p is not None],
                    lambda kv: f"({kv[0]}, {kv[1]})")
    H = f"(mk_hier {ps} [({fid}, [true])])"
    srcs = C.coq_list([sid[q] for q in source_order])
    return f"Eval vm_compute in st {H} {srcs} {C.coq_list(uses)}.\n"


def st_decode(lang: Lang, wf, rows):
    names = list(lang.parents)
    out = {}

    def dec(xs, i):
        o, n = xs[i], xs[i + 1]
        i += 2
        args = []
        for _ in range(n):
            a, i = dec(xs, i)
            args.append(a)
        if o == 5 + len(names):
            return f"F({args[0]})", i
        return names[o - 5], i
    for row in rows:
        s, flag = wf["sources"][row[0]], row[1]
        out[s] = dec(row, 2)[0] if flag else None
    return out


def source_types_correspondence(rep: C.Report, cases, acc: Counter, tag):
    jobs = []
    for ci, case in enumerate(cases):
        if not case.wf["sources"] or len(targets_of(case.wf)) < 1:
            continue
        for (ao, so) in case.st_jobs:
            t = st_encode(case.lang, case.wf, ao, so)
            if t is None:
                acc["source_types_not_modelled"] += 1
                continue
            impl = source_types_obs(case.lang, case.wf, ao, so)
            jobs.append((ci, ao, so, impl, t))
    if not jobs:
        return
    outs = C.coq_eval_blocks(f"C12_st_{tag}", ST_HDR, [(j[-1], 1) for j in jobs], nfiles=2)
    for (ci, ao, so, impl, _), vals in zip(jobs, outs):
        case = cases[ci]
        if "error" in impl:
            acc["source_types_impl_raised"] += 1
            continue
        fixed = st_decode(case.lang, case.wf, vals[0][0])
        pinned = st_decode(case.lang, case.wf, vals[0][1])
        got = {s: (None if (t == "_" or t.startswith("τ")) else t) for s, t in impl.items()}
        acc["source_types_compared"] += 1
        acc["source_types_typed_sources"] += sum(1 for t in got.values() if t is not None)
        if got != fixed:
            acc["source_types_disagreements"] += 1
            sig = SIG_SRC if got == pinned else None
            rep.violation(f"source_types_model_{tag}_{ci}", case.payload(kind="correspondence",
                app_order=ao, source_order=so, impl=got, model=fixed, model_of_pinned_code=pinned,
                what="Workflow.source_types differs from the model source_types (upd_fixed)"),
                has_input=False, signature=sig)


def ensure_own_built():
    """the C12 theories are compiled here when their .vo is missing or stale (they may
    not be listed in _CoqProject yet)"""
    import fcntl
    files = ["Graph/AddExpr.v", "Graph/AddExprSpec.v", "Graph/AddExprProofs.v", "Graph/Workflow.v",
             "Graph/WorkflowSpec.v", "Graph/WorkflowProofs.v", "Graph/WorkflowInline.v",
             "Graph/SourceTypes.v"]
    C.BUILD.mkdir(exist_ok=True)
    lock = open(C.BUILD / ".lock", "w")
    fcntl.flock(lock, fcntl.LOCK_EX)
    try:
        newest = 0.0
        for f in files:
            src = C.COQ / "theories" / f
            vo = src.with_suffix(".vo")
            stale = (not vo.exists()) or vo.stat().st_mtime < src.stat().st_mtime \
                or (f != "Graph/SourceTypes.v" and vo.stat().st_mtime < newest)
            if stale:
                r = C.run(["coqc", "-Q", "theories", "TF", "-Q", "props", "TFP", f"theories/{f}"],
                          600, cwd=C.COQ)
                if r.returncode != 0:
                    return False, r.stdout[-2000:]
            if f != "Graph/SourceTypes.v":
                newest = max(newest, vo.stat().st_mtime)
        return True, ""
    finally:
        fcntl.flock(lock, fcntl.LOCK_UN)
        lock.close()


def main(tier: str, seed: int, replay: str | None = None) -> int:
    C.force_repo_on_path()
    rep = C.Report(PID, tier, seed)
    if replay:
        return do_replay(rep, replay)
    ok, log = ensure_own_built()
    if not ok:
        rep.violation("proof_stage_build", {"kind": "proof", "what": "C12 theories do not compile",
            "log_tail": log}, has_input=False)
    rep.proof_stage()
    rep.proof_stage("C12_handon")   # C12_plugged extended to tools that hand an input on (`1`, `1: T`)
    rep.proof_stage("C12_handon_inline")   # ... and C12_inline: the graph is the flow of the inlined expression
    rng = random.Random(seed)
    acc = Counter()
    shapes = Counter()
    cases = []
    for name, lang, wf in fixed_cases():
        lang.build()
        cases.append(Case(name, lang, wf))
    for sig, items in finding_cases().items():
        if rep.known(sig) is not None:
            for name, lang, wf in items:
                lang.build()
                cases.append(Case(name, lang, wf))
    nfixed = len(cases)
    nlang, per = (45, 4) if tier == "quick" else (300, 5)
    for _ in range(nlang):
        lang = gen_lang(rng)
        lang.build()
        for _ in range(per):
            wf = gen_workflow(rng, lang, rng.choice([1, 2, 2, 3, 3, 4, 4, 5, 5]))
            if wf is None:
                acc["generator_gave_up"] += 1
                continue
            cases.append(Case("random", lang, wf))
    tstats = Counter()
    distinct = set()
    samples = []
    nall = 0
    for idx, case in enumerate(cases):
        for k, v in case.shape.items():
            if k in ("apps", "sources"):
                shapes[f"{k}={v}"] += 1
            elif v:
                shapes[k] += 1
        for a in case.wf["apps"]:
            term_stats(case.lang, a["term"], tstats)
        # thorough: every listing order for some of the five-application workflows
        allo = tier == "thorough" and case.shape["apps"] == 5 and case.dom and nall < 12
        if allo:
            nall += 1
        check_case(rep, rng, case, tier, acc, idx, all_orders=allo)
        if case.dom and len(case.wf["apps"]) >= 2:
            distinct.add(json.dumps([case.lang.to_json(), case.wf], sort_keys=True, default=str))
        if len(samples) < 4 and case.dom and case.shape["shared_intermediates"] and case.name == "random":
            samples.append({"operators": [(o["name"], case.lang.sig_text(o)) for o in case.lang.ops],
                            "parents": case.lang.parents, "workflow": wf_text(case.lang, case.wf)})
    shard = 400
    for k in range(0, len(cases), shard):
        correspondence(rep, cases[k:k + shard], f"{tier}_{k // shard}", acc)
        source_types_correspondence(rep, cases[k:k + shard], acc, f"{tier}_{k // shard}")
    ok_runs = acc["outcome_pass_ok"]
    rep.coverage.update({
        "evaluations": acc["evaluations"],
        "distinct_nontrivial": len(distinct),
        "disagreements": acc["disagreements"],
        "rule": "random languages (2-6 base types in a forest, optionally a unary compound F with canonical "
                "instances; first-order, polymorphic (x ** x, x ** x ** x, x ** F(x), F(x) ** x with bounds) and "
                "higher-order operators) and random acyclic workflows of 1-5 tool applications with type-directed "
                "tool expressions (depth <= 3, partial applications passed as functions, anonymous sources, "
                "inputs used twice, annotations present / absent / more specific / occasionally wrong), shared "
                "sources and shared intermediate results; about one tool in ten is a bare source (`-: T` providing "
                "data, or `1` / `1: T` handing its input on - the latter outside the Coq theorem's domain, compared "
                "with the model and the structural specification); each run with passthrough on and off, under several "
                "listing orders of applications and sources, as WorkflowDict, as WorkflowGraph loaded from RDF "
                f"and as the harness' own Workflow; {nfixed} fixed cases; evaluations = model runs compared "
                "with the implementation; non-trivial = in the theorem's domain with at least two applications, "
                "distinct by language and workflow",
        "samples": samples,
        "distribution": {
            "cases": len(cases), "fixed": nfixed, "in_domain": sum(1 for c in cases if c.dom),
            "with_hand_on_tools": sum(1 for c in cases if c.dom2 and not c.dom),
            "with_providing_tools": sum(1 for c in cases if any(a["term"][0] == "anon" for a in c.wf["apps"])),
            "bare_source_tool_graphs_compared_with_model": acc["compared_graphs_bare_source_tools"],
            "implementation_runs": acc["impl_runs"] + 2 * len(cases),
            "listing_orders_run": acc["listing_orders_run"],
            "workflows_with_every_listing_order": nall,
            "shapes": dict(shapes), "tool_expressions": dict(tstats),
            "outcomes": {k: v for k, v in acc.items() if k.startswith("outcome_")},
            "oracles": {k: acc[k] for k in (
                "inline_compared_isomorphic", "inline_compared_merged", "inline_compared_failures",
                "inline_violations", "source_spec_departures_checked", "source_spec_violations",
                "unexpected_errors",
                "structure_violations", "nopass_input_sources_checked", "nopass_type_check_skipped",
                "nopass_type_violations", "order_dependent_graphs", "description_dependent_graphs",
                "source_types_order_dependent", "source_types_differs_on_incomparable_annotations",
                "error_class_differs_by_order")},
            "correspondence": {k: acc[k] for k in (
                "compared_graphs", "in_domain_impl_raised", "out_of_domain_model_only",
                "model_rejects_impl_accepts_out_of_domain", "source_types_compared",
                "source_types_typed_sources", "source_types_disagreements",
                "source_types_impl_raised", "source_types_not_modelled")},
            "generator_gave_up": acc["generator_gave_up"]},
        "exhaustive": False})
    rep.assumptions = [
        "domain of the structural theorem (wf_okb): one final application, every input defined, acyclic, "
        "every tool expression an operator application (or one anonymous source) that uses inputs as data; "
        "other workflows are only compared with the model",
        "the structural model has no types: whether an argument is function-typed is taken from the declared "
        "operator signature; typing failures of the implementation are compared between runs of the "
        "implementation only (success / failure; the error class may differ and is counted)",
        "typed half (node types of the workflow graph = node types of the inlined expression, sources typed "
        "as Workflow.source_types derives them) is checked implementation against implementation",
        "add_from adds (a, from, b) and otherwise only tf:depends triples (add_from_ok, C09)",
        "distinct Python objects have distinct identities (the memo expr_nodes is keyed by identity)",
        "agreement between model and implementation is tested on the generated cases, not proved",
    ]
    return rep.finish(C.TRUSTED)


def do_replay(rep: C.Report, path: str) -> int:
    d = json.loads(open(path).read())
    lang = Lang.from_json(d["language"])
    lang.build()

    def term(t):
        if t[0] == "ap":
            return ("ap", t[1], [term(x) for x in t[2]])
        if t[0] == "in":
            an = t[2]
            return ("in", t[1], tuple(an) if isinstance(an, list) else an)
        return ("anon", tuple(t[1]) if isinstance(t[1], list) else t[1])
    wf = {"sources": d["workflow"]["sources"],
          "apps": [{"out": a["out"], "term": term(a["term"]), "ins": a["ins"]} for a in d["workflow"]["apps"]]}
    case = Case(d.get("name", "replay"), lang, wf)
    print("replay:", wf_text(lang, wf))
    acc = Counter()
    check_case(rep, random.Random(0), case, "thorough", acc, 0,
               all_orders=len(wf["apps"]) <= 5)
    correspondence(rep, [case], "replay", acc)
    source_types_correspondence(rep, [case], acc, "replay")
    print("replay:", {k: v for k, v in acc.items() if v})
    rep.coverage.update({"evaluations": acc["evaluations"], "replay_of": path})
    return rep.finish(C.TRUSTED)
