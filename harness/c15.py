"""C15  Expanding composite operators is beta-reduction and preserves types.

proof stage     coq/props/C15.v (primitive reaches THE δβ-normal form: sound,
                normal, unique by confluence, idempotent; subject reduction for
                the declarative type discipline)
correspondence  Expr.primitive() of /repo vs the model `primitive` (Lam/Primitive.v)
                on generated languages of primitive + composite operators and
                type-directed (mostly well-typed) expressions over them
oracle          on the implementation's own result: no composite operator, no
                reducible application, expanding again changes nothing, the type
                is the same or more specific than before, no error while expanding
"""
from __future__ import annotations

import json
import random
import sys
import traceback

from . import common as C

FUEL = 1500
LO_MAX = 14     # largest expression on which the call-by-name evaluator is also run

HDR = f"""From Coq Require Import List Arith Bool.
Import ListNotations.
From TF Require Import Lam.Term Lam.Primitive.
Definition FUEL := {FUEL}.
Definition enc_o (r : option tm) : list nat := match r with Some u => 0 :: tm_enc u | None => [9] end.
Definition agree (a b : option tm) : nat :=
  match a, b with Some u, Some v => if tm_eqb u v then 1 else 0 | _, _ => 2 end.
(* [with_lo]: also run the leftmost-outermost evaluator (call-by-name without
   sharing: exponential on deep chains of duplicating combinators, so only on
   small expressions); 3 = not run *)
Definition obs (L : lang) (p : bool * tm) : list (list nat) :=
  let (with_lo, e) := p in
  let r := primitive L FUEL e in
  [ enc_o r;
    [if with_lo then agree r (lo L FUEL e) else 3];
    [match r with Some u => agree r (primitive L FUEL u) | None => 2 end] ].
"""

# --------------------------------------------------------------------------
# simple types of the generator: ('b', i) base type i, ('f', a, b) function,
# ('v', j) schematic variable j

def fn(ps, r):
    for p in reversed(ps):
        r = ('f', p, r)
    return r


def unfn(t):
    ps = []
    while t[0] == 'f':
        ps.append(t[1])
        t = t[2]
    return ps, t


def tvars(t, acc=None):
    acc = set() if acc is None else acc
    if t[0] == 'v':
        acc.add(t[1])
    elif t[0] == 'f':
        tvars(t[1], acc)
        tvars(t[2], acc)
    return acc


def tsubst(t, th):
    if t[0] == 'v':
        return th.get(t[1], t)
    if t[0] == 'f':
        return ('f', tsubst(t[1], th), tsubst(t[2], th))
    return t


def tstr(t):
    if t[0] == 'b':
        return f"B{t[1]}"
    if t[0] == 'v':
        return "abcdefgh"[t[1]]
    return f"({tstr(t[1])} ** {tstr(t[2])})"


V = lambda j: ('v', j)
a_, b_, c_ = V(0), V(1), V(2)
P = lambda j: ('par', j)


def app(f, *xs):
    for x in xs:
        f = ('app', f, x)
    return f


# the combinators named by the property, and a few more that use a parameter
# twice (the shape that breaks in-place binding); (name, nvars, type, nparams, body)
COMBINATORS = [
    ("ident", 1, fn([a_], a_), 1, P(0)),
    ("const", 2, fn([a_, b_], a_), 2, P(0)),
    ("konst2", 2, fn([a_, b_], b_), 2, P(1)),
    ("flip", 3, fn([fn([a_, b_], c_), b_, a_], c_), 3, app(P(0), P(2), P(1))),
    ("compose", 3, fn([fn([b_], c_), fn([a_], b_), a_], c_), 3, app(P(0), app(P(1), P(2)))),
    ("apply", 2, fn([fn([a_], b_), a_], b_), 2, app(P(0), P(1))),
    ("twice", 1, fn([fn([a_], a_), a_], a_), 2, app(P(0), app(P(0), P(1)))),
    ("thrice", 1, fn([fn([a_], a_), a_], a_), 2, app(P(0), app(P(0), app(P(0), P(1))))),
    ("scomb", 3, fn([fn([a_, b_], c_), fn([a_], b_), a_], c_), 3, app(P(0), P(2), app(P(1), P(2)))),
    ("wcomb", 2, fn([fn([a_, a_], b_), a_], b_), 2, app(P(0), P(1), P(1))),
    ("on", 3, fn([fn([b_, b_], c_), fn([a_], b_), a_, a_], c_), 4,
        app(P(0), app(P(1), P(2)), app(P(1), P(3)))),
    ("compose2", 4, fn([fn([c_], V(3)), fn([a_, b_], c_), a_, b_], V(3)), 4,
        app(P(0), app(P(1), P(2), P(3)))),
]
PRIM_POLY = [
    ("pid", 1, fn([a_], a_)),
    ("papply", 2, fn([fn([a_], b_), a_], b_)),
    ("pchoose", 1, fn([a_, a_], a_)),
]


class Lang:
    """A generated language: base-type forest, typed sources, operators
    (primitive or composite).  JSON-serialisable (replay)."""

    def __init__(self, nbase, parents, srcs, ops):
        self.nbase = nbase
        self.parents = parents          # {child: parent}
        self.srcs = srcs                # [base index]
        self.ops = ops                  # [{name, nvars, type, body: None | [k, term]}]

    def to_json(self):
        return {"nbase": self.nbase, "parents": {str(k): v for k, v in self.parents.items()},
                "srcs": self.srcs, "ops": self.ops}

    @staticmethod
    def from_json(d):
        def tup(x):
            return tuple(tup(y) for y in x) if isinstance(x, list) else x
        ops = []
        for o in d["ops"]:
            body = None if o["body"] is None else (o["body"][0], tup(o["body"][1]))
            ops.append({"name": o["name"], "nvars": o["nvars"], "type": tup(o["type"]), "body": body,
                        "slack": o.get("slack")})
        return Lang(d["nbase"], {int(k): v for k, v in d["parents"].items()}, list(d["srcs"]), ops)

    def sub_base(self, i, j):
        while i is not None:
            if i == j:
                return True
            i = self.parents.get(i)
        return False

    def composite(self, k):
        return self.ops[k]["body"] is not None


# --------------------------------------------------------------------------
# type-directed generation of applicative terms

class Gen:
    def __init__(self, rng: random.Random, lang: Lang):
        self.rng = rng
        self.lang = lang

    def pool_type(self, allow_fn=True):
        r = self.rng.random()
        if allow_fn and r < 0.25:
            return ('f', ('b', self.rng.randrange(self.lang.nbase)), ('b', self.rng.randrange(self.lang.nbase)))
        return ('b', self.rng.randrange(self.lang.nbase))

    def match(self, pat, t, th, top=True):
        """first-order matching of a schema type against a ground target;
        a base result may be a subtype of the target (top level only)"""
        if pat[0] == 'v':
            if pat[1] in th:
                return th[pat[1]] == t
            th[pat[1]] = t
            return True
        if pat[0] == 'b':
            if t[0] != 'b':
                return False
            return pat[1] == t[1] or (top and self.lang.sub_base(pat[1], t[1]))
        return t[0] == 'f' and self.match(pat[1], t[1], th, False) and self.match(pat[2], t[2], th, False)

    def heads(self, nops, params):
        hs = [(('src', s), ('b', b), 0) for s, b in enumerate(self.lang.srcs)]
        hs += [(('op', k), self.lang.ops[k]["type"], self.lang.ops[k]["nvars"]) for k in range(nops)]
        hs += [(('par', j), t, 0) for j, t in enumerate(params)]
        return hs

    def gen(self, T, nops, params, depth, budget):
        """a term of type T over operators < nops, sources and params; None if
        the attempt fails"""
        if budget[0] <= 0:
            return None
        budget[0] -= 1
        opts = []
        for h, sig, nv in self.heads(nops, params):
            ps, r = unfn(sig)
            for k in range(len(ps) + 1):
                th = {}
                if self.match(fn(ps[k:], r), T, th):
                    opts.append((h, ps[:k], th, nv, 0))
            # over-application: the result is a schematic variable that is
            # instantiated by a function type (ident f x, twice twice f x, ...)
            if r[0] == 'v' and depth > 0:
                for extra in (1, 2):
                    xs = [self.pool_type(allow_fn=False) for _ in range(extra)]
                    th = {r[1]: fn(xs, T)}
                    opts.append((h, ps + xs, th, nv, extra))
        if not opts:
            return None
        leaf = [o for o in opts if not o[1]]
        for _ in range(4):
            if depth <= 0 and leaf:
                h, ps, th, nv, extra = self.rng.choice(leaf)
            elif depth <= -2:
                return None
            elif depth <= 0:
                m = min(len(o[1]) for o in opts)
                h, ps, th, nv, extra = self.rng.choice([o for o in opts if len(o[1]) == m])
            else:
                # favour applications and composite heads
                ws = [(3 if o[1] else 1) * (3 if o[0][0] == 'op' and self.lang.composite(o[0][1]) else 1)
                      * (2 if o[0][0] == 'par' else 1) for o in opts]
                h, ps, th, nv, extra = self.rng.choices(opts, ws)[0]
            th = dict(th)
            for j in range(nv):
                if j not in th:
                    th[j] = self.pool_type()
            t = h
            ok = True
            for p in ps:
                x = self.gen(tsubst(p, th), nops, params, depth - 1, budget)
                if x is None:
                    ok = False
                    break
                t = ('app', t, x)
            if ok:
                return t
        return None


def gen_lang(rng: random.Random) -> Lang:
    nbase = rng.choice([1, 2, 2, 3, 3, 4])
    parents = {}
    for i in range(1, nbase):
        if rng.random() < 0.75:
            parents[i] = rng.randrange(i)
    srcs = [rng.randrange(nbase) for _ in range(rng.randint(1, 3))]
    # every base type with no source below it gets one, so arguments exist
    for i in range(nbase):
        if not any(_sub(parents, s, i) for s in srcs):
            srcs.append(i)
    lang = Lang(nbase, parents, srcs, [])
    B = lambda: ('b', rng.randrange(nbase))
    # primitive operators
    for k in range(rng.randint(2, 4)):
        ar = rng.randint(1, 3)
        ps = [B() for _ in range(ar)]
        if rng.random() < 0.3:
            ps[rng.randrange(ar)] = ('f', B(), B())
        lang.ops.append({"name": f"p{k}", "nvars": 0, "type": fn(ps, B()), "body": None})
    for name, nv, t in rng.sample(PRIM_POLY, rng.randint(0, 2)):
        lang.ops.append({"name": name, "nvars": nv, "type": t, "body": None})
    # combinators, in random order, interleaved with generated definitions
    combs = rng.sample(COMBINATORS, rng.randint(3, 7))
    ndefs = rng.randint(2, 5)
    slots = ["c"] * len(combs) + ["d"] * ndefs
    rng.shuffle(slots)
    g = Gen(rng, lang)
    di = 0
    for s in slots:
        if s == "c":
            name, nv, t, k, body = combs.pop()
            lang.ops.append({"name": name, "nvars": nv, "type": t, "body": (k, body)})
            continue
        # a definition: monomorphic signature, type-directed body over what is
        # declared so far; zero parameters = a partial application with a name
        k = rng.choice([0, 1, 1, 2, 2, 3])
        ps = [g.pool_type() for _ in range(k)]
        res = ('b', rng.randrange(nbase)) if k > 0 else ('f', ('b', rng.randrange(nbase)), ('b', rng.randrange(nbase)))
        if k > 0 and rng.random() < 0.15:
            res = ('f', ('b', rng.randrange(nbase)), res)
        body = None
        for _ in range(6):
            body = g.gen(res, len(lang.ops), ps, rng.randint(1, 3), [40])
            if body is not None and (k == 0 or _uses_par(body)):
                break
            body = None
        if body is None:
            continue
        # subtyping between declaration and definition: declare a narrower
        # parameter / wider result than the body was generated for (sound), or
        # the other way round (unsound where the body needs it: validate()
        # should then reject the definition)
        r = rng.random()
        slack = None
        if r < 0.5:
            sound = r < 0.3
            pos = [j for j, p_ in enumerate(ps) if p_[0] == 'b'] + ([-1] if res[0] == 'b' else [])
            rng.shuffle(pos)
            for j in pos:
                cur = res[1] if j < 0 else ps[j][1]
                up = (j < 0) == sound        # move this position up the hierarchy?
                cands = [i for i in range(nbase) if i != cur and
                         (_sub(parents, cur, i) if up else _sub(parents, i, cur))]
                if cands:
                    if j < 0:
                        res = ('b', rng.choice(cands))
                    else:
                        ps[j] = ('b', rng.choice(cands))
                    slack = "declared_narrower_than_body" if sound else "declared_wider_than_body"
                    break
        nvars = 0
        if slack is None and r > 0.88:
            # declare one base position with a schematic variable instead (`wrap : x ** B` over a
            # body that needs A): more general than the body allows, validate() has to refuse it
            pos = [j for j, p_ in enumerate(ps) if p_[0] == 'b'] + ([-1] if res[0] == 'b' else [])
            if pos:
                j = rng.choice(pos)
                if j < 0:
                    res = ('v', 0)
                else:
                    ps[j] = ('v', 0)
                nvars, slack = 1, "declared_with_a_variable"
        lang.ops.append({"name": f"d{di}", "nvars": nvars, "type": fn(ps, res), "body": (k, body), "slack": slack})
        if not small_normal_form(lang, ('op', len(lang.ops) - 1), max_nodes=300):
            lang.ops.pop()      # thrice (thrice thrice) ... : the definition alone is astronomic
            continue
        di += 1
    return lang


def _sub(parents, i, j):
    while i is not None:
        if i == j:
            return True
        i = parents.get(i)
    return False


def _uses_par(t):
    return t[0] == 'par' or (t[0] == 'app' and (_uses_par(t[1]) or _uses_par(t[2])))


def term_size(t):
    return 1 + (term_size(t[1]) + term_size(t[2]) if t[0] == 'app' else 0)


def term_ops(t, acc=None):
    acc = [] if acc is None else acc
    if t[0] == 'op':
        acc.append(t[1])
    elif t[0] == 'app':
        term_ops(t[1], acc)
        term_ops(t[2], acc)
    return acc


def par_count(t, j):
    if t[0] == 'par':
        return int(t[1] == j)
    if t[0] == 'app':
        return par_count(t[1], j) + par_count(t[2], j)
    return 0


def spine(t):
    args = []
    while t[0] == 'app':
        args.append(t[2])
        t = t[1]
    return t, args[::-1]


def shares_abstraction(lang: Lang, t) -> bool:
    """some composite operator that uses a parameter at least twice receives,
    at that position, an argument containing a composite operator (which
    primitive() turns into an abstraction): the shape on which in-place
    binding and substitution differ"""
    h, args = spine(t)
    if h[0] == 'op' and lang.composite(h[1]):
        k, body = lang.ops[h[1]]["body"]
        for j, x in enumerate(args[:k]):
            if par_count(body, j) >= 2 and any(lang.composite(o) for o in term_ops(x)):
                return True
    return any(shares_abstraction(lang, x) for x in args) or (
        h[0] == 'op' and lang.composite(h[1]) and shares_abstraction(lang, lang.ops[h[1]]["body"][1]))


# --------------------------------------------------------------------------
# generator-side filter: duplicating combinators nest into normal forms of
# astronomic size (thrice thrice (wcomb pchoose) has 2^27 nodes); a budgeted
# evaluation discards such expressions before anything is run on them.  Not an
# oracle: nothing is compared with its result.

class _Budget(Exception):
    pass


def small_normal_form(lang: Lang, t, max_nodes=1200, max_work=150000, max_depth=400) -> bool:
    work = [0]

    def tick():
        work[0] += 1
        if work[0] > max_work:
            raise _Budget

    def db(t, k):
        if t[0] == 'par':
            return ('var', k - 1 - t[1])
        if t[0] == 'app':
            return ('app', db(t[1], k), db(t[2], k))
        return t

    def shift(t, d, c):
        tick()
        if t[0] == 'var':
            return ('var', t[1] + d) if t[1] >= c else t
        if t[0] == 'app':
            return ('app', shift(t[1], d, c), shift(t[2], d, c))
        if t[0] == 'lam':
            return ('lam', shift(t[1], d, c + 1))
        return t

    def subst(b, x, k):
        tick()
        if b[0] == 'var':
            return shift(x, k, 0) if b[1] == k else (('var', b[1] - 1) if b[1] > k else b)
        if b[0] == 'app':
            return ('app', subst(b[1], x, k), subst(b[2], x, k))
        if b[0] == 'lam':
            return ('lam', subst(b[1], x, k + 1))
        return b

    def norm(t, d=0):
        tick()
        if d > max_depth:          # the model's fuel bounds the nesting of evaluation
            raise _Budget
        if t[0] == 'op' and lang.composite(t[1]):
            k, body = lang.ops[t[1]]["body"]
            u = db(body, k)
            for _ in range(k):
                u = ('lam', u)
            return norm(u, d + 1)
        if t[0] == 'app':
            f, x = norm(t[1], d + 1), norm(t[2], d + 1)
            return norm(subst(f[1], x, 0), d + 1) if f[0] == 'lam' else ('app', f, x)
        if t[0] == 'lam':
            return ('lam', norm(t[1], d + 1))
        return t

    def size(t):
        return 1 + (size(t[1]) + size(t[2]) if t[0] == 'app' else size(t[1]) if t[0] == 'lam' else 0)

    try:
        return size(norm(t)) <= max_nodes
    except (_Budget, RecursionError):
        return False


def duplicates_abstraction(lang: Lang, t, max_work=40000):
    """Input shape of the pinned tree's defect, decided in the order the code
    works (bind first, normalise afterwards): during leftmost-outermost
    evaluation some argument that contains a composite operator or an
    abstraction is substituted for a parameter that occurs at least twice.
    Returns True / False, or None when the budget runs out."""
    work = [0]

    def tick():
        work[0] += 1
        if work[0] > max_work:
            raise _Budget

    def db(t, k):
        if t[0] == 'par':
            return ('var', k - 1 - t[1])
        if t[0] == 'app':
            return ('app', db(t[1], k), db(t[2], k))
        return t

    def shift(t, d, c):
        tick()
        if t[0] == 'var':
            return ('var', t[1] + d) if t[1] >= c else t
        if t[0] == 'app':
            return ('app', shift(t[1], d, c), shift(t[2], d, c))
        if t[0] == 'lam':
            return ('lam', shift(t[1], d, c + 1))
        return t

    def subst(b, x, k):
        tick()
        if b[0] == 'var':
            return shift(x, k, 0) if b[1] == k else (('var', b[1] - 1) if b[1] > k else b)
        if b[0] == 'app':
            return ('app', subst(b[1], x, k), subst(b[2], x, k))
        if b[0] == 'lam':
            return ('lam', subst(b[1], x, k + 1))
        return b

    def has_abs(t):
        return t[0] == 'lam' or (t[0] == 'op' and lang.composite(t[1])) or \
            (t[0] == 'app' and (has_abs(t[1]) or has_abs(t[2])))

    def occurs(t, k):
        if t[0] == 'var':
            return int(t[1] == k)
        if t[0] == 'app':
            return occurs(t[1], k) + occurs(t[2], k)
        if t[0] == 'lam':
            return occurs(t[1], k + 1)
        return 0

    class Found(Exception):
        pass

    def whnf(t, d):
        tick()
        if d > 600:
            raise _Budget
        if t[0] == 'op' and lang.composite(t[1]):
            k, body = lang.ops[t[1]]["body"]
            u = db(body, k)
            for _ in range(k):
                u = ('lam', u)
            return whnf(u, d + 1)
        if t[0] == 'app':
            f = whnf(t[1], d + 1)
            if f[0] == 'lam':
                if occurs(f[1], 0) >= 2 and has_abs(t[2]):
                    raise Found
                return whnf(subst(f[1], t[2], 0), d + 1)
            return ('app', f, t[2])
        return t

    def nf(t, d):
        t = whnf(t, d)
        if t[0] == 'lam':
            nf(t[1], d + 1)
        elif t[0] == 'app':
            nf(t[1], d + 1)
            nf(t[2], d + 1)

    try:
        nf(t, 0)
        return False
    except Found:
        return True
    except (_Budget, RecursionError):
        return None


# --------------------------------------------------------------------------
# model side: de Bruijn terms as Coq text

def tm_coq(t, k=0):
    if t[0] == 'op':
        return f"(Op {t[1]})"
    if t[0] == 'src':
        return f"(Src {t[1]})"
    if t[0] == 'par':
        return f"(Var {k - 1 - t[1]})"
    return f"(App {tm_coq(t[1], k)} {tm_coq(t[2], k)})"


def lang_coq(lang: Lang, valid) -> str:
    items = []
    for i, o in enumerate(lang.ops):
        if o["body"] is not None and valid[i]:
            k, body = o["body"]
            items.append(f"({i}, " + "(Lam " * k + tm_coq(body, k) + ")" * k + ")")
    return "(mk_lang " + C.coq_list(items) + ")"


# --------------------------------------------------------------------------
# implementation side

def _callable(n, f):
    names = [f"a{i}" for i in range(n)]
    return eval("lambda " + ", ".join(names) + ": f((" + "".join(x + ", " for x in names) + "))", {"f": f})


class Impl:
    """The language as real transforge objects."""

    def __init__(self, lang: Lang):
        import transforge.type as T
        import transforge.expr as E
        self.T, self.E, self.lang = T, E, lang
        self.bases = []
        for i in range(lang.nbase):
            p = lang.parents.get(i)
            self.bases.append(T.TypeOperator(f"B{i}", supertype=self.bases[p] if p is not None else None))
        self.srcs = [E.Source(type=self.bases[b]) for b in lang.srcs]
        self.src_index = {id(s): i for i, s in enumerate(self.srcs)}
        self.ops = []
        for o in lang.ops:
            self.ops.append(self._operator(o))
        self.op_index = {id(o): i for i, o in enumerate(self.ops)}

    def ty(self, t, vs):
        if t[0] == 'b':
            return self.bases[t[1]]()
        if t[0] == 'v':
            return vs[t[1]]
        return self.ty(t[1], vs) ** self.ty(t[2], vs)

    def _operator(self, o):
        typ = self.ty(o["type"], ()) if o["nvars"] == 0 else \
            _callable(o["nvars"], lambda vs, t=o["type"]: self.ty(t, vs))
        body = None
        if o["body"] is not None:
            k, term = o["body"]
            body = _callable(k, lambda ps, term=term: self.build(term, ps))
        return self.E.Operator(type=typ, body=body, name=o["name"])

    def build(self, t, params=()):
        if t[0] == 'op':
            return self.ops[t[1]].instance()
        if t[0] == 'src':
            return self.srcs[t[1]]
        if t[0] == 'par':
            return params[t[1]]
        return self.build(t[1], params)(self.build(t[2], params))

    # canonical observation: prefix code of the de Bruijn term (as tm_enc)
    def enc(self, e, env, depth, notes):
        E = self.E
        if isinstance(e, E.Variable):
            if e.bound is not None:
                notes["bound_variable_in_result"] = notes.get("bound_variable_in_result", 0) + 1
                return self.enc(e.bound, env, depth, notes)
            if e in env:
                return [2, depth - 1 - env[e]]
            notes["free_variable"] = notes.get("free_variable", 0) + 1
            return [7, 0]
        if isinstance(e, E.Operation):
            return [0, self.op_index.get(id(e.operator), 10 ** 6)]
        if isinstance(e, E.Source):
            if id(e) not in self.src_index:
                notes["unknown_source"] = notes.get("unknown_source", 0) + 1
            return [1, self.src_index.get(id(e), 10 ** 6)]
        if isinstance(e, E.Application):
            return [3] + self.enc(e.f, env, depth, notes) + self.enc(e.x, env, depth, notes)
        assert isinstance(e, E.Abstraction), type(e)
        env = dict(env)
        for p in e.params:
            env[p] = depth
            depth += 1
        return [4] * len(e.params) + self.enc(e.body, env, depth, notes)

    def defects(self, e, out):
        """the property's first clause, on the raw result tree"""
        E = self.E
        while isinstance(e, E.Variable) and e.bound is not None:
            e = e.bound
        if isinstance(e, E.Operation):
            if e.operator.body:
                out.append(f"composite operator {e.operator} left in the result")
        elif isinstance(e, E.Application):
            f = e.f
            while isinstance(f, E.Variable) and f.bound is not None:
                f = f.bound
            if isinstance(f, E.Abstraction):
                out.append("reducible application left in the result")
            self.defects(e.f, out)
            self.defects(e.x, out)
        elif isinstance(e, E.Abstraction):
            self.defects(e.body, out)

    def ill_typed_nodes(self, e, out, stats):
        """every application in the expansion must itself be well-typed: the
        argument's type fits the function's parameter type (decided when both
        are concrete; counted otherwise)"""
        E, T = self.E, self.T
        while isinstance(e, E.Variable) and e.bound is not None:
            e = e.bound
        if isinstance(e, E.Application):
            f, x = e.f, e.x
            while isinstance(f, E.Variable) and f.bound is not None:
                f = f.bound
            while isinstance(x, E.Variable) and x.bound is not None:
                x = x.bound
            ft, xt = self.snap(f.type), self.snap(x.type)
            if ft[0] == 'op' and ft[1] is T.Function and self.ground(ft[2][0]) and self.ground(xt):
                stats["application_nodes_checked"] = stats.get("application_nodes_checked", 0) + 1
                if not self.more_specific(xt, ft[2][0])[0]:
                    out.append(f"ill-typed application in the expansion: argument of type {self.snap_str(xt)} "
                               f"for a parameter of type {self.snap_str(ft[2][0])}")
            elif ft[0] == 'op' and ft[1] is not T.Function and ft[1] is not T.Top:
                out.append(f"application of a non-function of type {self.snap_str(ft)} in the expansion")
            else:
                stats["application_nodes_with_variables"] = stats.get("application_nodes_with_variables", 0) + 1
            self.ill_typed_nodes(e.f, out, stats)
            self.ill_typed_nodes(e.x, out, stats)
        elif isinstance(e, E.Abstraction):
            self.ill_typed_nodes(e.body, out, stats)

    # --- types -------------------------------------------------------------
    def snap(self, t):
        """immutable picture of a type instance as it is now"""
        T = self.T
        t = t.follow()
        if isinstance(t, T.TypeOperation):
            return ('op', t.operator, tuple(self.snap(p) for p in t.params))
        return ('var', id(t), t.lower, t.upper, bool(t.wildcard))

    def snap_str(self, s):
        if s[0] == 'op':
            if s[1] is self.T.Function:
                return f"({self.snap_str(s[2][0])} ** {self.snap_str(s[2][1])})"
            return str(s[1]) + ("(" + ", ".join(self.snap_str(p) for p in s[2]) + ")" if s[2] else "")
        b = []
        if s[2]:
            b.append(f">={s[2]}")
        if s[3]:
            b.append(f"<={s[3]}")
        return f"v{s[1] % 9973}" + ("[" + ",".join(b) + "]" if b else "")

    def ground(self, s):
        return s[0] == 'op' and all(self.ground(p) for p in s[2])

    def more_specific(self, after, before):
        """after <= theta(before) for some instantiation theta of the variables
        of `before`; the variables of `after` are rigid.  Returns (ok, why)."""
        T = self.T
        lows: dict = {}    # flexible var id -> things that must be <= it
        ups: dict = {}
        flex: dict = {}
        rigid = set()

        def mark(s, acc):
            if s[0] == 'var':
                acc.add(s[1])
            else:
                for p in s[2]:
                    mark(p, acc)
        mark(after, rigid)
        bv = set()
        mark(before, bv)
        shared = rigid & bv   # the very same variable on both sides is itself

        def is_flex(s):
            return s[0] == 'var' and s[1] in bv and s[1] not in shared

        recording = [True]

        def leq(x, y, depth=0):
            if depth > 40:
                return True
            if x[0] == 'var' and y[0] == 'var' and x[1] == y[1]:
                return True
            if is_flex(x) or is_flex(y):
                if not recording[0]:
                    # second phase (bounds against bounds): a flexible variable
                    # inside a bound can still be chosen
                    return True
                if is_flex(y):
                    flex[y[1]] = y
                    lows.setdefault(y[1], []).append(x)
                    return compatible(y, x, lower=True)
                flex[x[1]] = x
                ups.setdefault(x[1], []).append(y)
                return compatible(x, y, lower=False)
            if x[0] == 'op' and y[0] == 'op':
                if x[1] is T.Bottom or y[1] is T.Top:
                    return True
                if not x[2] and not y[2]:
                    return x[1].subtype(y[1])
                if x[1] is not y[1]:
                    return False
                for v, p, q in zip(x[1].variance, x[2], y[2]):
                    if not (leq(p, q, depth + 1) if v == T.Variance.CO else leq(q, p, depth + 1)):
                        return False
                return True
            if x[0] == 'var' and y[0] == 'op':     # rigid variable below a type
                if y[1] is T.Top:
                    return True
                return bool(x[3]) and not y[2] and x[3].subtype(y[1])
            if x[0] == 'op' and y[0] == 'var':
                if x[1] is T.Bottom:
                    return True
                return bool(y[2]) and not x[2] and x[1].subtype(y[2])
            # two different rigid variables
            return bool(x[3]) and bool(y[2]) and x[3].subtype(y[2])

        def compatible(v, s, lower):
            """can the flexible variable v (with its own basic bounds) take a
            value above (lower=True) / below s?"""
            _, _, lo, up, _ = v
            if s[0] == 'op':
                if s[2] or s[1] in (T.Top, T.Bottom):
                    # compound value: only an unbounded variable can take it
                    if s[2]:
                        return not lo and not up
                    return True
                if lower:
                    return not up or s[1].subtype(up)
                return not lo or lo.subtype(s[1])
            # a variable: bounds must not contradict
            if lower:
                return not (up and s[2] and not s[2].subtype(up))
            return not (lo and s[3] and not lo.subtype(s[3]))

        if not leq(after, before):
            return False, "structure"
        recording[0] = False
        for vid in flex:
            for l in lows.get(vid, []):
                for u in ups.get(vid, []):
                    if not leq(l, u, 30):
                        return False, "bounds of a variable of the unexpanded type cannot be met"
        return True, ""


def crash_signature(ex: BaseException) -> tuple[str, str]:
    """root cause of an exception escaping primitive(): class @ function : source line"""
    if isinstance(ex, RecursionError):
        return "RecursionError@transforge.expr", "maximum recursion depth"
    tb = traceback.extract_tb(ex.__traceback__)
    fr = [f for f in tb if "/transforge/" in f.filename]
    f = fr[-1] if fr else tb[-1]
    return f"{type(ex).__name__}@{f.name}:{(f.line or '').strip()}", f"{f.filename.split('/')[-1]}:{f.lineno}"


# --------------------------------------------------------------------------

STD_LANG = Lang(2, {1: 0}, [0, 1], [
    {"name": "add", "nvars": 0, "type": fn([('b', 0), ('b', 0)], ('b', 0)), "body": None},
    {"name": "f", "nvars": 0, "type": fn([('b', 0)], ('b', 0)), "body": None},
    {"name": "add1", "nvars": 0, "type": fn([('b', 0)], ('b', 0)), "body": (1, app(('op', 0), P(0), ('src', 0)))},
] + [{"name": n, "nvars": nv, "type": t, "body": (k, b)} for n, nv, t, k, b in COMBINATORS] + [
    {"name": "inc2", "nvars": 0, "type": fn([('b', 0)], ('b', 0)), "body": (0, app(('op', 7), ('op', 2), ('op', 2)))},
    {"name": "quad", "nvars": 0, "type": fn([fn([('b', 0)], ('b', 0)), ('b', 0)], ('b', 0)),
     "body": (2, app(('op', 9), app(('op', 9), P(0)), P(1)))},
    {"name": "pid", "nvars": 1, "type": fn([a_], a_), "body": None},
    # subtyping between declaration and definition (B1 <= B0): `narrow` declares a
    # wider result than its body has (sound); `wide` declares a wider parameter
    # than its body accepts (unsound: validate() must reject it, and then it is
    # not used)
    {"name": "low", "nvars": 0, "type": fn([('b', 1)], ('b', 1)), "body": None},
    {"name": "narrow", "nvars": 0, "type": fn([('b', 1)], ('b', 0)), "body": (1, app(('op', 18), P(0)))},
    {"name": "wide", "nvars": 0, "type": fn([('b', 0)], ('b', 1)), "body": (1, app(('op', 18), P(0)))},
    {"name": "wide2", "nvars": 0, "type": fn([('b', 0)], ('b', 0)), "body": (0, ('op', 18))},
])
_N = {o["name"]: ('op', i) for i, o in enumerate(STD_LANG.ops)}
_one, _sub1 = ('src', 0), ('src', 1)


def corpus_exprs():
    n = _N
    return [
        app(n["compose"], n["add1"], n["add1"], _one),
        app(n["twice"], n["f"], _one),
        app(n["twice"], n["add1"], _one),                       # shared abstraction
        app(n["twice"], n["ident"], _one),
        app(n["twice"], app(n["twice"], n["f"]), _one),
        app(n["twice"], n["twice"], n["f"], _one),              # RecursionError on the pinned tree
        app(n["twice"], n["twice"], n["add1"], _one),
        app(n["thrice"], n["inc2"], _sub1),
        app(n["scomb"], n["add"], n["add1"], _one),
        app(n["scomb"], n["const"], n["ident"], _one),
        app(n["wcomb"], n["add"], _sub1),
        app(n["wcomb"], app(n["flip"], n["add"]), _one),
        app(n["on"], n["add"], n["add1"], _one, _sub1),
        app(n["on"], n["add"], n["inc2"], _one, _one),
        app(n["quad"], n["add1"], _one),
        app(n["quad"], n["inc2"], _sub1),
        app(n["flip"], n["add"], _one),
        app(n["flip"], n["add"]),
        app(n["compose"], n["f"]),
        app(n["compose"], n["add1"]),
        app(n["compose"], n["add1"], n["ident"]),
        app(n["const"], _one),
        n["ident"], n["twice"], n["compose"], n["inc2"], n["quad"],
        app(n["flip"], n["const"], _one, _sub1),
        app(n["const"], n["add1"], _one, _sub1),
        app(n["ident"], n["add1"], _one),
        app(n["ident"], n["ident"], _sub1),
        app(n["apply"], n["inc2"], _one),
        app(n["apply"], app(n["twice"], n["add1"]), _one),
        app(n["compose"], app(n["compose"], n["add1"], n["add1"]), n["add1"], _one),
        app(n["flip"], n["compose"], n["add1"], n["add1"], _one),
        app(n["compose2"], n["add1"], n["add"], _one, _sub1),
        app(n["konst2"], n["add1"], _one),
        app(n["pid"], app(n["twice"], n["inc2"], _one)),
        app(n["f"], app(n["add"], _one, _sub1)),                # nothing composite: unchanged
        app(n["twice"], app(n["compose"], n["add1"], n["add1"]), _one),
        app(n["twice"], app(n["flip"], n["add"], _one), _sub1),
        app(n["thrice"], n["twice"], n["add1"], _one),
        app(n["narrow"], _sub1), n["narrow"], app(n["f"], app(n["narrow"], _sub1)),
        app(n["compose"], n["f"], n["narrow"], _sub1), app(n["apply"], n["narrow"]),
        app(n["wide"], _one), n["wide"], app(n["wide2"], _one), n["wide2"], app(n["twice"], n["wide2"], _one),
    ]


def gen_cases(rng: random.Random, nlang: int, nexpr: int, depth: int):
    cases = [(STD_LANG, corpus_exprs())]
    for _ in range(nlang):
        lang = gen_lang(rng)
        g = Gen(rng, lang)
        exprs = []
        tries = 0
        while len(exprs) < nexpr and tries < nexpr * 6:
            tries += 1
            T = g.pool_type() if rng.random() < 0.8 else fn([g.pool_type(False)], g.pool_type(False))
            t = g.gen(T, len(lang.ops), [], rng.randint(1, depth), [60])
            if t is None or term_size(t) > 60 or not small_normal_form(lang, t):
                continue
            exprs.append(t)
        cases.append((lang, exprs))
    return cases


# Root cause of the silent failures of the pinned tree (wrong tree, wrong type,
# ill-typed result, with no exception): a parameter that occurs twice in a
# definition is bound to ONE abstraction object, which the first occurrence
# reduces in place.  Without a hook the heap history cannot be observed, so the
# signature is given to those three symptoms on inputs of exactly that shape
# (never to a composite operator or a reducible application left behind, nor
# to a second expansion that changes something: the defect does not cause those).
SHARE_SIG = "C15:abstraction-bound-to-a-parameter-used-twice-is-reduced-in-place"


class Runner:
    def __init__(self, rep: C.Report):
        self.rep = rep
        self.n = 0
        self.distinct = set()
        self.dis = 0
        self.dist = {"expanded_ok": 0, "raised_while_expanding": 0, "rejected_at_construction": 0,
                     "contains_composite": 0, "result_is_abstraction": 0, "type_ground": 0,
                     "type_with_variables": 0, "parameter_used_twice_gets_abstraction": 0,
                     "definitions_dropped_by_validate": 0, "definitions_validated": 0,
                     "model_lo_agrees": 0, "unchanged_by_expansion": 0}
        self.sizes = {}
        self.samples = []
        self.nviol = 0
        self.kinds = {}

    def viol(self, name, payload, **kw):
        self.nviol += 1
        key = f"{name.split('_')[0]}|{kw.get('signature')}"
        self.kinds[key] = self.kinds.get(key, 0) + 1
        if self.kinds[key] <= 3 or (kw.get("signature") and self.rep.known(kw["signature"])):
            self.rep.violation(name, payload, **kw)

    def validate(self, lang: Lang, impl: Impl, li: int):
        """Operator.validate() on every composite operator; those that do not
        validate are removed from the language (the property speaks of
        languages that validate)."""
        E = impl.E
        valid = [True] * len(lang.ops)
        for i, o in enumerate(lang.ops):
            if o["body"] is None:
                continue
            if any(not valid[k] for k in term_ops(o["body"][1])):
                valid[i] = False
                self.dist["definitions_dropped_by_validate"] += 1
                continue
            sk = o.get("slack")
            try:
                impl.ops[i].validate()
                why = self.unusable_at_declared_type(impl, i)
                if why is not None:
                    # validate() let through a definition that cannot stand in
                    # for the operator: reported once, here, with its root
                    # cause, and the operator is not used further
                    valid[i] = False
                    self.dist["validated_but_unusable_at_declared_type"] = \
                        self.dist.get("validated_but_unusable_at_declared_type", 0) + 1
                    self.viol(f"declared_{li}_{i}", {
                        "kind": "oracle", "language": lang.to_json(), "operator": o["name"],
                        "declared_type": tstr(o["type"]), "definition": term_str(lang, o["body"][1]),
                        "what": "Operator.validate() accepts a definition whose inferred type is not a subtype of "
                                "the declared type, so a well-typed use expands to an ill-typed or less specifically "
                                "typed expression: " + why},
                        has_input=True, signature="C15:validate-accepts-definition-not-subtype-of-declaration")
                    continue
                self.dist["definitions_validated"] += 1
                if sk:
                    self.dist[f"validated:{sk}"] = self.dist.get(f"validated:{sk}", 0) + 1
            except E.DeclarationError:
                valid[i] = False
                self.dist["definitions_dropped_by_validate"] += 1
                if sk:
                    self.dist[f"dropped:{sk}"] = self.dist.get(f"dropped:{sk}", 0) + 1
            except Exception as ex:   # noqa: the defect surfacing inside validate()
                valid[i] = False
                sig, where = crash_signature(ex)
                self.viol(f"validate_{li}_{i}", {
                    "kind": "oracle", "what": "Operator.validate() of a definition crashed while expanding it",
                    "language": lang.to_json(), "operator": o["name"], "exception": type(ex).__name__,
                    "message": str(ex)[:200], "where": where}, has_input=True, signature=sig)
        return valid

    def unusable_at_declared_type(self, impl: Impl, i: int):
        """the definition's inferred type must be a subtype of (an instance
        of) the declared type; None if it is"""
        T, E = impl.T, impl.E
        op = impl.ops[i]
        try:
            inferred = op.instance().primitive(unify=False).type
            declared = op.type.instance()
            inferred.unify(declared, subtype=True)
        except T.TypingError as ex:
            return f"{type(ex).__name__}: {ex}"
        except Exception:   # noqa: crashes are reported where they occur in use
            return None
        return None

    def run(self, cases, tag):
        blocks, kept = [], []
        for li, (lang, exprs) in enumerate(cases):
            impl = Impl(lang)
            valid = self.validate(lang, impl, li)
            rows = []
            for t in exprs:
                if any(not valid[k] for k in term_ops(t) if lang.composite(k)):
                    continue
                rows.append((t, self.observe(lang, impl, t, li, len(rows))))
            rows = [r for r in rows if r[1] is not None]
            if not rows:
                continue
            body = f"Definition L_{li} := {lang_coq(lang, valid)}.\n" \
                   f"Eval vm_compute in map (obs L_{li}) " + C.coq_list(
                       [f"({'true' if li == 0 or term_size(t) <= LO_MAX else 'false'}, {tm_coq(t)})"
                        for t, _ in rows]) + ".\n"
            blocks.append((body, 1))
            kept.append((li, lang, rows))
        outs = C.coq_eval_blocks(f"C15_{tag}", HDR, blocks, nfiles=4)
        for (li, lang, rows), vals in zip(kept, outs):
            model = vals[0]
            assert len(model) == len(rows), (len(model), len(rows))
            for ei, ((t, ob), mo) in enumerate(zip(rows, model)):
                self.compare(lang, t, ob, mo, li, ei)

    def observe(self, lang: Lang, impl: Impl, t, li, ei):
        """run the implementation on one expression; oracle on its own answers"""
        E, T = impl.E, impl.T
        payload = {"language": lang.to_json(), "expr": t, "expr_text": term_str(lang, t)}
        try:
            e = impl.build(t)
        except (E.ApplicationError, T.TypingError):
            self.dist["rejected_at_construction"] += 1
            return None
        except Exception as ex:   # noqa
            sig, where = crash_signature(ex)
            self.viol(f"construct_{li}_{ei}", dict(payload, kind="oracle",
                what="building the expression crashed", exception=type(ex).__name__, where=where),
                has_input=True, signature=sig)
            return None
        self.n += 1
        ops = term_ops(t)
        comp = any(lang.composite(k) for k in ops)
        self.dist["contains_composite"] += comp
        share = False
        if comp:
            share = duplicates_abstraction(lang, t)
            if share is None:
                share = shares_abstraction(lang, t)
        self.dist["parameter_used_twice_gets_abstraction"] += share
        sz = term_size(t)
        self.sizes[sz] = self.sizes.get(sz, 0) + 1
        if comp:
            self.distinct.add((li, repr(t)))
        before = impl.snap(e.type)
        ob = {"raised": None, "share": share}
        try:
            p = e.primitive()
        except Exception as ex:   # noqa
            sig, where = crash_signature(ex)
            self.dist["raised_while_expanding"] += 1
            ob["raised"] = (type(ex).__name__, sig)
            is_type_error = isinstance(ex, (T.TypingError, E.ApplicationError))
            self.viol(f"raised_{li}_{ei}", dict(payload, kind="oracle",
                what=("a type error was raised while expanding a well-typed expression of a validated language"
                      if is_type_error else "primitive() crashed on a well-typed expression of a validated language"),
                exception=type(ex).__name__, message=str(ex)[:200], where=where,
                unexpanded_type=impl.snap_str(before), parameter_used_twice_gets_abstraction=share),
                has_input=True, signature=sig)
            return ob
        self.dist["expanded_ok"] += 1
        notes = {}
        enc = impl.enc(p, {}, 0, notes)
        ob["enc"] = enc
        ob["notes"] = notes
        after = impl.snap(p.type)
        ob["before"], ob["after"] = impl.snap_str(before), impl.snap_str(after)
        payload = dict(payload, result=enc, unexpanded_type=ob["before"], expanded_type=ob["after"])
        self.dist["result_is_abstraction"] += enc[0] == 4
        self.dist["type_ground" if impl.ground(before) else "type_with_variables"] += 1
        # (1) no composite operator, no reducible application
        bad = []
        impl.defects(p, bad)
        if notes.get("free_variable") or notes.get("unknown_source"):
            bad.append("result mentions a variable bound nowhere / a source that is not in the language")
        ssig = SHARE_SIG if share else None
        if bad:
            self.viol(f"notnormal_{li}_{ei}", dict(payload, kind="oracle", what="; ".join(sorted(set(bad)))),
                has_input=True)
        # the expansion is itself well-typed at every application
        bad = []
        impl.ill_typed_nodes(p, bad, self.dist)
        if bad:
            self.viol(f"illtyped_{li}_{ei}", dict(payload, kind="oracle", what="; ".join(sorted(set(bad)))),
                has_input=True, signature=ssig)
        # (3) same or more specific type
        ok, why = impl.more_specific(after, before)
        if not ok:
            self.viol(f"type_{li}_{ei}", dict(payload, kind="oracle",
                what="the type of the expansion is not the same as or more specific than the type of "
                     f"the unexpanded expression ({why})"), has_input=True, signature=ssig)
        # (4) expanding again changes nothing
        try:
            p2 = p.primitive()
            enc2 = impl.enc(p2, {}, 0, {})
            after2 = impl.snap(p2.type)
            if enc2 != enc:
                self.viol(f"idem_{li}_{ei}", dict(payload, kind="oracle", second=enc2,
                    what="expanding the expansion again changes the expression"), has_input=True)
            elif not (impl.more_specific(after2, after)[0] and impl.more_specific(after, after2)[0]):
                self.viol(f"idemtype_{li}_{ei}", dict(payload, kind="oracle",
                    second_type=impl.snap_str(after2),
                    what="expanding the expansion again changes its type"), has_input=True)
        except Exception as ex:   # noqa
            sig, where = crash_signature(ex)
            self.viol(f"idemraise_{li}_{ei}", dict(payload, kind="oracle",
                what="expanding the expansion again raised", exception=type(ex).__name__, where=where),
                has_input=True, signature=sig)
        if len(self.samples) < 4 and share and enc[0] != 4 and li > 0:
            self.samples.append({"language_ops": [o["name"] for o in lang.ops], "expr": term_str(lang, t),
                "result": enc, "type_before": ob["before"], "type_after": ob["after"]})
        return ob

    def compare(self, lang, t, ob, mo, li, ei):
        m_enc, m_lo, m_idem = mo[0], mo[1][0], mo[2][0]
        payload = {"language": lang.to_json(), "expr": t, "expr_text": term_str(lang, t),
                   "model": m_enc, "encoding": "prefix code: 0 o = operator, 1 s = source, 2 i = variable (de Bruijn), "
                   "3 f x = application, 4 b = abstraction; model results start with 0, [9] = fuel exhausted"}
        if m_lo == 2:
            # only the call-by-name evaluator ran out of fuel (it nests much
            # deeper than primitive on towers of duplicating combinators):
            # nothing to compare it with, nothing wrong with the code
            self.dist["model_lo_out_of_fuel"] = self.dist.get("model_lo_out_of_fuel", 0) + 1
            m_lo = 3
        if m_enc == [9] or m_idem == 2:
            # the model ran out of fuel: a limit of the harness, not of the code
            self.dis += 1
            self.viol(f"fuel_{li}_{ei}", dict(payload, kind="harness", what="model evaluation ran out of fuel"),
                has_input=False)
            return
        self.dist["model_lo_agrees"] += m_lo == 1
        if m_lo not in (1, 3) or m_idem != 1:
            self.viol(f"model_{li}_{ei}", dict(payload, kind="proof",
                what="model evaluators disagree although C15_independent / C15_idempotent are proved"), has_input=False)
        if ob["raised"]:
            return            # already reported with its own signature
        if m_enc[1:] == enc_term(t):
            self.dist["unchanged_by_expansion"] += 1
        if ob["enc"] != m_enc[1:]:
            self.dis += 1
            # the model's answer is proved to be the unique normal form
            # (C15_normal, C15_normal_form): the implementation's is not
            self.viol(f"disagree_{li}_{ei}", dict(payload, kind="correspondence+oracle", impl=ob["enc"],
                what="primitive() differs from the δβ-normal form (model proved: C15_normal, C15_normal_form)",
                parameter_used_twice_gets_abstraction=ob["share"]), has_input=True,
                signature=SHARE_SIG if ob["share"] else None)


def enc_term(t, k=0):
    if t[0] == 'op':
        return [0, t[1]]
    if t[0] == 'src':
        return [1, t[1]]
    if t[0] == 'par':
        return [2, k - 1 - t[1]]
    return [3] + enc_term(t[1], k) + enc_term(t[2], k)


def term_str(lang: Lang, t, top=True):
    if t[0] == 'op':
        return lang.ops[t[1]]["name"]
    if t[0] == 'src':
        return f"(s{t[1]} : B{lang.srcs[t[1]]})"
    if t[0] == 'par':
        return f"x{t[1]}"
    h, args = spine(t)
    s = " ".join([term_str(lang, h, False)] + [term_str(lang, x, False) for x in args])
    return s if top else f"({s})"


class _PrintReport:
    """stand-in for C.Report in replay mode: prints instead of writing files"""

    def __init__(self):
        self.count = 0

    def known(self, signature):
        return None

    def violation(self, name, payload, *, has_input=True, signature=None):
        self.count += 1
        print(f"  {name}: {payload.get('what')}" + (f"  [{signature}]" if signature else ""))
        for k in ("exception", "message", "where", "unexpanded_type", "expanded_type", "impl", "model"):
            if payload.get(k) is not None:
                print(f"      {k}: {payload[k]}")


def replay_file(path: str) -> int:
    """re-run one recorded input (language, and expression if any) through
    the same oracles and the model; exit 1 if it still fails"""
    d = json.loads(open(path).read())
    lang = Lang.from_json(d["language"])

    def tup(x):
        return tuple(tup(y) for y in x) if isinstance(x, list) else x
    exprs = [tup(d["expr"])] if "expr" in d else []
    for t in exprs:
        print("expression:", term_str(lang, t))
    rep = _PrintReport()
    run = Runner(rep)
    run.run([(lang, exprs)], "replay")
    print(f"{rep.count} violation(s) on this input; outcome: "
          + ", ".join(f"{k}={v}" for k, v in run.dist.items() if v))
    return 1 if rep.count else 0


def main(tier: str, seed: int, replay: str | None = None) -> int:
    C.force_repo_on_path()
    sys.setrecursionlimit(max(sys.getrecursionlimit(), 3000))
    if replay:
        return replay_file(replay)
    rep = C.Report("C15", tier, seed)
    rep.proof_stage()
    rng = random.Random(seed)
    if tier == "quick":
        cases = gen_cases(rng, 40, 25, 4)
    else:
        cases = gen_cases(rng, 400, 40, 4)
    run = Runner(rep)
    run.run(cases, tier)
    rep.coverage.update({
        "evaluations": run.n, "distinct_nontrivial": len(run.distinct), "disagreements": run.dis,
        "rule": "a fixed language with every combinator (ident const flip compose apply twice thrice S W on "
                "compose2, a parameterless nested definition, a definition using twice twice) and 40 fixed "
                "expressions, plus random languages: 1-4 base types in a forest, 2-4 monomorphic primitives "
                "(30% with a function parameter), 0-2 polymorphic primitives, 3-7 of the 12 combinators and 2-5 "
                "generated definitions (0-3 parameters, type-directed bodies over everything declared before, "
                "so definitions nest); expressions are generated type-directed to depth <= 4 (80% of base type, "
                "20% function type = partial applications; over-application through type variables allowed). "
                "Only definitions accepted by Operator.validate() are used. "
                "non-trivial = the expression mentions at least one composite operator",
        "samples": run.samples,
        "outcome_distribution": run.dist,
        "expression_size_distribution": {str(k): v for k, v in sorted(run.sizes.items())},
        "violations_found": run.nviol, "violations_by_kind_and_signature": run.kinds,
        "exhaustive": False,
        "model_fuel": FUEL,
    })
    rep.assumptions = [
        "terms are compared as de Bruijn trees: n-ary abstractions are read as nested unary ones, bound "
        "variables left in a result are read through their binding",
        "the model substitutes where the code binds in place; model/implementation agreement is tested on the "
        "generated cases, not proved",
        "typed clauses: proved for the declarative simple-type discipline with subsumption (Lam/Typing.v); on the "
        "implementation they are checked with the implementation's own types: the expanded type must be an "
        "instance-or-subtype of the unexpanded type (its variables rigid), no exception while expanding",
        "termination of the model on well-typed terms is not proved; fuel exhaustion is reported as a harness limit",
    ]
    return rep.finish(C.TRUSTED)
