"""C03  Every accepted polymorphic application has a witnessing instantiation.

proof stage     coq/props/C03.v: the witness checker is sound w.r.t. Sub
correspondence  engine programs (schema instance + apply chain) on /repo vs
                the faithful engine model (full canonical store dump)
oracle          (a) the verified checker on the model's final state of every
                accepted case (equal to the implementation's by the dump),
                (b) the same conditions re-evaluated in Python directly on the
                implementation's final objects
"""
from __future__ import annotations

import random

from . import common as C
from . import engine as E


def run_engine_cases(rep: C.Report, tag: str, items, *, check=True, nfiles=4,
        on_case=None, max_report=5):
    """Shared loop: evaluate (hierarchy, [(prog, sched)]) on model and
    implementation, compare canonical dumps.  on_case(h, prog, sched, err,
    impl_obs, model_obs, check_row, mvals) -> None is called per case."""
    dumps = E.model_eval(tag, items, nfiles=nfiles, check=check)
    n = dis = 0
    for (h, progs), rows_list in zip(items, dumps):
        for (prog, sched), rows in zip(progs, rows_list):
            n += 1
            crow = None
            if check:
                crow = rows[-1]
                rows = rows[:-1]
            err, vals, io, pts = E.observe_impl(h, prog, sched)
            mo = E.observe_model(rows)
            if io != mo:
                dis += 1
                if dis <= max_report:
                    names = {i: f"op{i}" for i in h.ops}
                    rep.violation(f"K_{tag}_{n}", {
                        "kind": "correspondence",
                        "what": f"engine model and implementation differ (K_{rep.pid}: canonical store dump after the program)",
                        "hierarchy": h.to_json(), "program": prog, "schedule": sched,
                        "program_text": [c if c[0] != "inst" else E.schema_py(c[1], names) for c in prog],
                        "impl": io, "model": mo}, has_input=False)
            if on_case:
                mvals = E.snap_impl(h, vals)
                on_case(h, prog, sched, err, io, mo, crow, mvals)
    return n, dis


def main(tier: str, seed: int, replay: str | None = None) -> int:
    C.force_repo_on_path()
    rep = C.Report("C03", tier, seed)
    rep.proof_stage()
    rep.proof_stage("C03_core")     # unconditional soundness for the constraint-free fragment
    rep.proof_stage("C03_elim")     # ... and with elimination constraints over base-type alternatives
    rep.proof_stage("C03_sub")      # ... and for schemas with subtype constraints x <= A / x < A, incl. clause (iii)
    rep.proof_stage("C03_conc")     # clause (iii) for CONCRETE targets/alternatives of any shape (compound, function types), strictness included
    rep.proof_stage("C03_gen")      # the main clause (witness, bounds, satisfiability) for ARBITRARY constraints
    rng = random.Random(seed)
    nh, npg = (12, 50) if tier == "quick" else (120, 100)
    items = []
    for _ in range(nh):
        h = E.gen_engine_hier(rng)
        h.build()
        def one(k):
            if k % 5 == 4:
                return E.gen_bound_then_other(rng, h)
            if k % 5 == 3:
                return E.gen_elim_two_step(rng, h)
            if k % 10 == 2:
                return E.gen_wp_program(rng, h)
            if k % 10 == 7:
                return E.gen_misc_program(rng, h)
            if k % 10 in (1, 6):
                return E.gen_merge_program(rng, h)
            if k % 10 == 8:
                return E.gen_reentrant_elim(rng, h)
            if k % 20 == 10:
                return E.gen_rise_program(rng, h)
            return E.gen_program(rng, h, constrained=(k % 4 != 0))
        items.append((h, [(one(k), []) for k in range(npg)]))
    stats = {"accepted": 0, "rejected": 0, "checker_validated": 0, "groundings": 0,
             "resolved_constraints_checked": 0, "errors": {}}
    distinct = set()
    samples = []

    def on_case(h, prog, sched, err, io, mo, crow, mvals):
        names = {i: f"op{i}" for i in h.ops}
        text = [c if c[0] != "inst" else E.schema_py(c[1], names) for c in prog]
        if err is None:
            stats["accepted"] += 1
            nap = sum(1 for c in prog if c[0] == "apply")
            ncons = len(prog[0][1][2])
            if nap >= 2 or ncons >= 1:
                distinct.add(repr((h.to_json(), prog)))
            # (a) verified checker on the model's final state
            if crow[1:4] == [1, 1, 1] and crow[4] > 0:
                stats["checker_validated"] += 1
                stats["groundings"] += crow[4]
                stats["resolved_constraints_checked"] += crow[6]
            elif io == mo:
                which = [w for w, f in zip(("steps", "constraints", "bounded"), crow[1:4]) if f != 1]
                if crow[4] == 0:
                    which.append("no instantiation within the reported bounds")
                rep.violation(f"witness_{stats['accepted']}", {
                    "kind": "oracle (verified checker)",
                    "what": "accepted application without a witnessing instantiation: " + ",".join(which),
                    "hierarchy": h.to_json(), "program": prog, "program_text": text,
                    "checker_row": crow, "final_state": io}, has_input=True)
            # (b) the same conditions on the implementation's own objects
            probs = E.py_witness(h, prog, mvals)
            if probs:
                rep.violation(f"pywitness_{stats['accepted']}", {
                    "kind": "oracle (implementation state)",
                    "what": "accepted application violates the witness conditions: " + str(probs[0][0]),
                    "hierarchy": h.to_json(), "program": prog, "program_text": text,
                    "problems": [repr(p) for p in probs[:5]], "final_state": io}, has_input=True)
            if len(samples) < 3 and nap >= 2 and ncons >= 1:
                samples.append({"hierarchy": h.to_json(), "program_text": text,
                    "result": repr(io["vals"][-1]), "vars": repr(io["vars"])})
        else:
            stats["rejected"] += 1
            stats["errors"][err[0]] = stats["errors"].get(err[0], 0) + 1

    lc = C.LineCoverage("transforge/type.py", [
        "Type.apply", "TypeSchema.instance", "TypeInstance.fix", "TypeInstance.follow", "TypeInstance.match",
        "TypeInstance.unify", "TypeInstance.__contains__", "TypeInstance.variables", "TypeVariable.check_constraints",
        "TypeVariable.bind", "TypeVariable.above", "TypeVariable.below", "Constraint.inform", "Constraint.variables",
        "SubtypeConstraint.fulfill", "EliminationConstraint.minimize", "EliminationConstraint.fulfill",
        "TypeOperator.subtype", "with_parameters"])
    lc.start()
    n, dis = run_engine_cases(rep, f"C03_{tier}", items, on_case=on_case)
    rep.coverage["anchored_code_lines_executed_by_this_run"] = lc.stop()
    rep.coverage.update({
        "evaluations": n, "distinct_nontrivial": len(distinct), "disagreements": dis,
        "rule": "random hierarchies (3-7 base types in a forest, unary/binary/contravariant compound operators); "
                "schemas with 1-3 variables, 1-3 nested parameters, wildcards, 0-3 subtype/elimination constraints "
                "(3 of 4 cases constrained); arguments derived from the parameters by instantiating variables along "
                "chains (88%) or random; non-trivial = accepted case with >= 2 applications or >= 1 constraint",
        "samples": samples, "outcome_distribution": stats, "exhaustive": False})
    rep.assumptions = [
        "universal soundness is proved for constraint-free schemas (C03_core_sound: every satisfying grounding, "
        "satisfiability, boundedness); for constrained schemas it is decided per instance by the verified checker",
        "unresolved variables are instantiated from a finite pool (all base types, Top, Bottom, Unit, two compound samples), at most 60 groundings per case",
    ]
    return rep.finish(C.TRUSTED)
