"""C14  Type notation and type URIs round-trip, and URIs identify types uniquely.

proof stage     coq/props/C14.v (text round trip, aliases denote their definitions, names kept
                distinct by Language.add, URI round trip, URI injectivity for types and operators;
                refutations of the pinned decoder / `*` branch)
correspondence  Language.uri, Language.parse_type_uri, str(t), Language.parse_type, Language.add
                of /repo vs the Gallina models, on generated languages (operators of arity 0-3,
                synonyms, namespaces), types to depth 3, alias texts, damaged texts and URIs
oracle          on the implementation alone: parse_type(str(t)) == t; alias text == definition built
                through the Python API; parse_type_uri(uri(c)) == c for EVERY c in lang.canon;
                URIs pairwise distinct over canonical types and over operators; a query built from
                a type re-emits exactly that type's URI
"""
from __future__ import annotations

import itertools
import json
import random
import re

from . import common as C

HDR = """From Coq Require Import List Arith Bool NArith String Ascii.
Import ListNotations.
From TF Require Import Base.Hier Base.Ty Parse.Lang Parse.Tok Parse.TypeText Uri.Uri.
Definition eres (r : res ty) : list nat :=
  match r with
  | Ok t => 0 :: ty_enc t
  | Err EBracket => [1] | Err EParse => [2] | Err EUndefined => [3] | Err ETypeParam => [4]
  | Err EAssert => [5] | Err EIndex => [6] | Err EWildcard => [7]
  end.
Definition eures (r : ures ty) : list nat :=
  match r with UOk t => 0 :: ty_enc t | UErr UKey => [1] | UErr UAssert => [2] end.
Definition eopt (o : option (list nat)) : list nat := match o with Some u => 0 :: u | None => [1] end.
Definition b2n (b : bool) : nat := if b then 1 else 0.
(* a result equal to "Ok t" for the input type t is abbreviated to [10] *)
Definition same (t : ty) (r : list nat) : list nat :=
  if name_eqb r (0 :: ty_enc t) then [10] else r.
(* results are printed as binary numbers: printing unary nat literals is slow *)
Definition nn (l : list nat) : list N := map N.of_nat l.
(* strings are written as Coq string literals (lexed natively; numeric list
   literals are slow to parse); "~123;" stands for code point 123 *)
Fixpoint sdec (s : string) (num : option nat) : list nat :=
  match s with
  | EmptyString => []
  | String c r =>
      let n := nat_of_ascii c in
      match num with
      | None => if n =? 126 then sdec r (Some 0) else n :: sdec r None
      | Some k => if n =? 59 then k :: sdec r None else sdec r (Some (10 * k + (n - 48)))
      end
  end.
Definition sd (s : string) : list nat := sdec s None.
Definition same_s (impl model : list nat) : list nat := if name_eqb impl model then [10] else model.
(* the implementation's URI and text are passed in and compared here; the
   model's value is printed only when they differ (printing is the slow part) *)
Definition obs_ty L ns canon (c : ty * (nat * string * string)) : list (list N) :=
  let '(t, (fl, iu, it)) := c in map nn (
  let u := uri L ns canon t in
  [ same_s (if fl =? 0 then 0 :: sd iu else [fl]) (eopt u);
    match u with Some s => same t (eures (parse_type_uri L s)) | None => [9] end;
    match u with Some s => same t (eures (parse_type_uri_pinned L s)) | None => [9] end;
    same_s (sd it) (text_std L t);
    same t (eres (parse_type L (text_std L t)));
    same t (eres (parse_type_pinned L (text_std L t)));
    [b2n (uri_domb L t); b2n (text_domb L t)] ]).
Definition obs_str L s : list (list N) := map nn [eres (parse_type L s); eres (parse_type_pinned L s)].
Definition obs_sty L s : list (list N) := map nn
  [stext L s; ty_enc (expand L s); eres (parse_type L (stext L s));
   eres (parse_type_pinned L (stext L s)); [b2n (swfb L s)]].
Definition obs_uri L s : list (list N) := map nn [eures (parse_type_uri L s); eures (parse_type_uri_pinned L s)].
Fixpoint add_hist (L : lang) (h : list (name * item_kind)) : list nat * lang :=
  match h with
  | [] => ([], L)
  | (n, k) :: r =>
      match add L n k with
      | Some L' => let (bs, Lf) := add_hist L' r in (1 :: bs, Lf)
      | None => let (bs, Lf) := add_hist L r in (0 :: bs, Lf)
      end
  end.
(* lang.py:186  name = item.name = name.rstrip("_")  (a scope key such as `min_` names the symbol `min`) *)
Definition rstrip_us (n : list nat) : list nat :=
  rev ((fix go (l : list nat) := match l with 95 :: r => go r | _ => l end) (rev n)).
Definition obs_hist (h : list (list nat * item_kind)) :=
  let (bs, Lf) := add_hist empty_lang (map (fun p => (rstrip_us (fst p), snd p)) h) in (nn bs, map nn (all_names Lf)).
Definition obs_lang L ns (xs : list opref) :=
  (nn [b2n (lang_text_okb L); b2n (lang_uri_okb L); b2n (wf_nsb ns)], map nn (map (uri_op L ns) xs)).
"""

BUILTIN = {0: "Top", 1: "Bottom", 2: "Unit", 3: "Function", 4: "Product"}
RESERVED = ("via", "type", "signature", "expression", "Unit", "Top", "Bottom", "Product",
    "Intersection", "Union")
PERR = {"BracketMismatch": 1, "ParseError": 2, "UndefinedTokenError": 3, "TypeParameterError": 4,
    "AssertionError": 5, "IndexError": 6}
UERR = {"KeyError": 1, "AssertionError": 2}
NAMESPACES = ["https://example.com/#", "http://x.org/vocab/", "http://geo.example/ns#",
    "https://example.com/a/b#", "urn:x/"]
SIG_URI = "parse_type_uri:decoded-types-used-as-queue"
SIG_TEXT = "parse_type:star-takes-last-parameter-of-unapplied-left-operand"


def norm_err(obs):
    """Which class rejects a `*` that has no left operand (AssertionError on
    the pinned code, ParseError after the parser repair of C13/C17) is C17's
    subject; here such a rejection counts as a ParseError on both sides."""
    return [2] if obs in ([5], [6]) else obs


def cps(s: str) -> list[int]:
    return [ord(c) for c in s]


def coq_lit(s: str) -> str:
    out = []
    for ch in s:
        o = ord(ch)
        if 32 <= o < 126 and ch != '"':
            out.append(ch)
        else:
            out.append(f"~{o};")
    return '"' + "".join(out) + '"%string'


def coq_str(s: str) -> str:
    # a Coq string literal decoded inside Coq: numeric list literals are slow to parse
    return "(sd " + coq_lit(s) + ")"


def ty_enc(t) -> list[int]:
    o, args = t
    r = [o, len(args)]
    for a in args:
        r += ty_enc(a)
    return r


def ty_depth(t) -> int:
    return 1 + max(map(ty_depth, t[1])) if t[1] else 0


def ty_leaves(t) -> int:
    return sum(map(ty_leaves, t[1])) if t[1] else 1


def ty_ops(t) -> set:
    r = {t[0]}
    for a in t[1]:
        r |= ty_ops(a)
    return r


def body_coq(b) -> str:
    if b[0] == "v":
        return f"(AVar {b[1]})"
    return f"(AOp {b[1]} {C.coq_list(b[2], body_coq)})"


def body_subst(b, env):
    if b[0] == "v":
        return env[b[1]]
    return (b[1], [body_subst(x, env) for x in b[2]])


def sty_coq(s) -> str:
    k, i, args = s
    return f"({'STy' if k == 'T' else 'SAl'} {i} {C.coq_list(args, sty_coq)})"


class Spec:
    """A generated language: type operators (id = 5 + index), synonyms,
    transformation operators (names only), namespace."""

    def __init__(self, types, syns, ops, ns, incl_top=False, incl_bottom=False):
        self.types = types    # [{"name", "arity", "parent": index|None, "variance": [bool]}]
        self.syns = syns      # [{"name", "arity", "body"}]
        self.ops = ops        # [name]
        self.ns = ns
        self.incl_top = incl_top
        self.incl_bottom = incl_bottom

    def to_json(self):
        return {"types": self.types, "syns": self.syns, "ops": self.ops, "ns": self.ns,
            "incl_top": self.incl_top, "incl_bottom": self.incl_bottom}

    @staticmethod
    def from_json(d) -> "Spec":
        return Spec(d["types"], d["syns"], d["ops"], d["ns"], d.get("incl_top", False),
            d.get("incl_bottom", False))

    def arity(self, o: int) -> int:
        if o in (3, 4):
            return 2
        if o < 5:
            return 0
        return self.types[o - 5]["arity"]

    def name(self, o: int) -> str:
        return BUILTIN[o] if o < 5 else self.types[o - 5]["name"]

    def flat(self) -> bool:
        return not self.incl_top and not self.incl_bottom and \
            all(t["parent"] is None for t in self.types)

    def uri_safe(self) -> bool:
        names = [t["name"] for t in self.types] + [s["name"] for s in self.syns] + self.ops
        return all(n and not (set(n) & set("-#/")) and n not in BUILTIN.values() for n in names) \
            and len(set(names)) == len(names)

    def coq(self) -> str:
        ts = C.coq_list(self.types, lambda t: f"({coq_str(t['name'])}, {t['arity']})")
        ss = C.coq_list(self.syns,
            lambda s: f"({coq_str(s['name'])}, ({s['arity']}, {body_coq(s['body'])}))")
        os_ = C.coq_list(self.ops, coq_str)
        return f"(mkLang {ts} {ss} {os_})"

    def text(self, t) -> str:
        """the harness's own rendering of type notation (checked against str(t)
        and the model on every case)"""
        o, args = t
        if o == 4:
            return f"({self.text(args[0])} * {self.text(args[1])})"
        if o == 3:
            a = self.text(args[0])
            if args[0][0] == 3:
                a = f"({a})"
            return f"{a} ** {self.text(args[1])}"
        n = self.name(o)
        return n + ("(" + ", ".join(self.text(a) for a in args) + ")" if args else "")

    def stext(self, s) -> str:
        k, i, args = s
        if k == "T" and i == 4:
            return f"({self.stext(args[0])} * {self.stext(args[1])})"
        n = self.name(i) if k == "T" else self.syns[i]["name"]
        return n + ("(" + ", ".join(self.stext(a) for a in args) + ")" if args else "")

    def expand(self, s):
        k, i, args = s
        es = [self.expand(a) for a in args]
        if k == "T":
            return (i, es)
        return body_subst(self.syns[i]["body"], es)

    def prefix(self, t) -> list[str]:
        o, args = t
        r = [self.name(o)]
        for a in args:
            r += self.prefix(a)
        return r


class Impl:
    """The language of a Spec instantiated with /repo's transforge."""

    def __init__(self, spec: Spec, seeds):
        import transforge.type as T
        from transforge.lang import Language
        from transforge.expr import Operator
        self.T = T
        self.spec = spec
        ops = {0: T.Top, 1: T.Bottom, 2: T.Unit, 3: T.Function, 4: T.Product}
        scope = {}
        for i, t in enumerate(spec.types):
            if t["arity"] == 0:
                p = t["parent"]
                op = T.TypeOperator(supertype=ops[5 + p] if p is not None else None)
            else:
                op = T.TypeOperator(params=[T.Variance.CO if v else T.Variance.CONTRA
                    for v in t["variance"]])
            ops[5 + i] = op
            scope[t["name"]] = op
        self.ops = ops
        self.inv = {id(op): i for i, op in ops.items()}
        self.aliases = []
        for s in spec.syns:
            if s["arity"] == 0:
                al = T.TypeAlias(self.inst(body_subst(s["body"], [])))
            else:
                ps = ", ".join(f"a{i}" for i in range(s["arity"]))
                fn = eval(f"lambda {ps}: _b(_body, ({ps},))",
                    {"_b": self.inst_body, "_body": s["body"]})
                al = T.TypeAlias(fn)
            self.aliases.append(al)
            scope[s["name"]] = al
        self.operators = []
        for n in spec.ops:
            f = Operator(type=ops[5])
            self.operators.append(f)
            scope[n] = f
        canon = set(self.inst(t) for t in seeds)
        if spec.incl_top:
            canon.add(T.Top)
        if spec.incl_bottom:
            canon.add(T.Bottom)
        self.lang = Language(scope=scope, namespace=spec.ns, canon=canon)

    def inst(self, t):
        o, args = t
        return self.ops[o](*(self.inst(a) for a in args))

    def inst_body(self, b, env):
        if b[0] == "v":
            return env[b[1]]
        return self.ops[b[1]](*(self.inst_body(x, env) for x in b[2]))

    def back(self, t):
        t = t.follow()
        assert isinstance(t, self.T.TypeOperation), t
        return (self.inv[id(t.operator)], [self.back(p) for p in t.params])

    # observations -------------------------------------------------------
    def uri(self, t):
        """URI string, or None with the exception's class name"""
        from transforge.lang import NonCanonicalTypeError
        try:
            return str(self.lang.uri(self.inst(t)))
        except NonCanonicalTypeError:
            self.uri_error = "NonCanonicalTypeError"
        except Exception as e:  # noqa: BLE001
            self.uri_error = type(e).__name__
        return None

    def decode(self, u: str):
        from rdflib import URIRef
        try:
            r = self.lang.parse_type_uri(URIRef(u))
        except Exception as e:  # noqa: BLE001 - the class is the observation
            return [UERR.get(type(e).__name__, 8)], type(e).__name__
        return [0] + ty_enc(self.back(r)), None

    def parse(self, s: str):
        try:
            r = self.lang.parse_type(s)
        except Exception as e:  # noqa: BLE001
            return norm_err([PERR.get(type(e).__name__, 8)]), type(e).__name__
        try:
            return [0] + ty_enc(self.back(r)), None
        except AssertionError:
            return [7], "variable"


# --------------------------------------------------------------------------
# generators

FIRST = "ABCDEFGHIJKLMNOPQRSTUVWXYZabcdefghijklmnopqrstuvwxyz"
REST = FIRST + "0123456789_"
ODD_FIRST = "éλΩ"
EXOTIC = "-.+/#'"


def gen_name(rng: random.Random, taken: set, exotic: bool) -> str:
    while True:
        n = rng.choice(ODD_FIRST if rng.random() < 0.06 else FIRST)
        k = rng.choice([0, 0, 0, 1, 1, 2, 3, 5])
        for _ in range(k):
            n += rng.choice(EXOTIC) if exotic and rng.random() < 0.35 else rng.choice(REST)
        n = n.rstrip("_") or "Q"
        if n in taken or n in RESERVED or n in BUILTIN.values() or n == "_":
            continue
        taken.add(n)
        return n


def gen_body(rng, spec_types, arity, depth):
    """type expression over parameters 0..arity-1"""
    leaves = [("v", i) for i in range(arity)]
    base = [5 + i for i, t in enumerate(spec_types) if t["arity"] == 0]
    comp = [5 + i for i, t in enumerate(spec_types) if t["arity"] > 0] + [4]
    if depth <= 0 or rng.random() < 0.3:
        if leaves and rng.random() < 0.7:
            return rng.choice(leaves)
        r = rng.random()
        if r < 0.1:
            return ("o", rng.choice([0, 1, 2]), [])
        return ("o", rng.choice(base), [])
    o = rng.choice(comp + ([3] if rng.random() < 0.1 else []))
    ar = 2 if o in (3, 4) else spec_types[o - 5]["arity"]
    return ("o", o, [gen_body(rng, spec_types, arity, depth - 1) for _ in range(ar)])


def gen_spec(rng: random.Random, exotic=False, flat=True, arities=None) -> Spec:
    taken: set = set()
    nbase = rng.randint(1, 3)
    types = []
    for i in range(nbase):
        p = None
        if not flat and i > 0 and rng.random() < 0.6:
            p = rng.randrange(i)
        types.append({"name": gen_name(rng, taken, exotic), "arity": 0, "parent": p, "variance": []})
    if arities is None:
        arities = [rng.randint(1, 3) for _ in range(rng.randint(1, 3))]
    for ar in arities:
        types.append({"name": gen_name(rng, taken, exotic), "arity": ar, "parent": None,
            "variance": [rng.random() < 0.7 for _ in range(ar)]})
    # declaration order: base types keep their relative order (a supertype is
    # declared before its subtypes), compound operators are interleaved at random
    nb = nbase
    bases, comps = types[:nb], types[nb:]
    rng.shuffle(comps)
    order = [bases[0]]
    bi, ci = 1, 0
    while bi < len(bases) or ci < len(comps):
        if ci >= len(comps) or (bi < len(bases) and rng.random() < 0.5):
            order.append(bases[bi]); bi += 1
        else:
            order.append(comps[ci]); ci += 1
    pos = {id(t): i for i, t in enumerate(order)}
    newpar = [None if t["parent"] is None else pos[id(bases[t["parent"]])] for t in bases]
    for t, p in zip(bases, newpar):
        t["parent"] = p
    types = order
    assert all(t["parent"] is None or t["parent"] < i for i, t in enumerate(types))
    syns = []
    for _ in range(rng.choice([0, 1, 2, 2, 3])):
        ar = rng.choice([0, 0, 1, 1, 2, 3])
        body = gen_body(rng, types, ar, rng.randint(1, 2))
        if body[0] == "v" and ar == 0:
            continue
        syns.append({"name": gen_name(rng, taken, exotic), "arity": ar, "body": body})
    ops = [gen_name(rng, taken, exotic) for _ in range(rng.choice([0, 1, 2]))]
    top = (not flat) and rng.random() < 0.4
    bot = (not flat) and rng.random() < 0.3
    return Spec(types, syns, ops, rng.choice(NAMESPACES), top, bot)


def gen_type(rng, spec: Spec, depth, specials=(0, 1), allow_fun=False, p_leaf=0.3):
    base = [5 + i for i, t in enumerate(spec.types) if t["arity"] == 0]
    comp = [5 + i for i, t in enumerate(spec.types) if t["arity"] > 0] + [4]
    if allow_fun:
        comp = comp + [3]
    if depth <= 0 or rng.random() < p_leaf:
        if specials and rng.random() < 0.2:
            return (rng.choice(list(specials)), [])
        return (rng.choice(base), [])
    o = rng.choice(comp)
    ar = spec.arity(o)
    args = []
    for i in range(ar):
        # compound parameters in non-final positions are what the property singles out
        pl = 0.15 if i < ar - 1 else 0.45
        args.append(gen_type(rng, spec, depth - 1, specials, allow_fun, pl))
    return (o, args)


def enum_types(spec: Spec, ops, depth: int, cap=None) -> list:
    level = [(o, []) for o in ops if spec.arity(o) == 0]
    allt = list(level)
    for _ in range(depth):
        seen = set(map(repr, allt))
        new = []
        for o in ops:
            ar = spec.arity(o)
            if ar == 0:
                continue
            for combo in itertools.product(allt, repeat=ar):
                t = (o, list(combo))
                if repr(t) not in seen:
                    seen.add(repr(t))
                    new.append(t)
        allt += new
        if cap and len(allt) > cap:
            break
    return allt


def gen_sty(rng, spec: Spec, depth):
    base = [5 + i for i, t in enumerate(spec.types) if t["arity"] == 0]
    comp = [("T", 5 + i) for i, t in enumerate(spec.types) if t["arity"] > 0] + [("T", 4)]
    plain = [("A", k) for k, s in enumerate(spec.syns) if s["arity"] == 0]
    par = [("A", k) for k, s in enumerate(spec.syns) if s["arity"] > 0]
    if depth <= 0 or rng.random() < 0.3:
        if plain and rng.random() < 0.4:
            return ("A", rng.choice(plain)[1], [])
        if rng.random() < 0.15:
            return ("T", rng.choice([0, 1]), [])
        return ("T", rng.choice(base), [])
    pool = comp + par * 3
    k, i = rng.choice(pool)
    ar = spec.arity(i) if k == "T" else spec.syns[i]["arity"]
    return (k, i, [gen_sty(rng, spec, depth - 1) for _ in range(ar)])


def has_alias(s) -> bool:
    return s[0] == "A" or any(has_alias(a) for a in s[2])


def inner_then_more(spec, t) -> bool:
    """some node has a compound parameter followed by further parameters"""
    o, args = t
    for i, a in enumerate(args):
        if a[1] and i < len(args) - 1:
            return True
    return any(inner_then_more(spec, a) for a in args)


def prod_compound_left(t) -> bool:
    o, args = t
    if o == 4 and args[0][1] and args[0][0] != 4:
        return True
    return any(prod_compound_left(a) for a in args)


def sprod_compound_left(s) -> bool:
    k, i, args = s
    if k == "T" and i == 4 and args[0][2] and not (args[0][0] == "T" and args[0][1] == 4):
        return True
    return any(sprod_compound_left(a) for a in args)


def tokens_of(text: str) -> list[str]:
    return re.findall(r"[*(),]|[^\s*(),]+", text)


def render_tokens(rng, toks: list[str], loose: bool) -> str:
    out = ""
    prev_id = False
    for tk in toks:
        is_id = tk not in "*(),"
        sp = ""
        if loose:
            sp = rng.choice(["", "", " ", "  ", "\t", " \r"])
        if prev_id and is_id and not sp:
            sp = " "
        out += sp + tk
        prev_id = is_id
    return out + (rng.choice(["", " "]) if loose else "")


def fuzz_text(rng, spec: Spec, text: str) -> str:
    toks = tokens_of(text)
    vocab = ["(", ")", ",", "*", "Top", "Bottom", "Zq9"] + [t["name"] for t in spec.types] + \
        [s["name"] for s in spec.syns]
    r = rng.random()
    if r < 0.2:
        return render_tokens(rng, toks, True)            # spacing only: still valid
    if r < 0.3:
        # unparenthesised chain of products over compound and base operands
        parts = []
        for _ in range(rng.choice([2, 3, 3, 4])):
            parts.append(tokens_of(spec.text(gen_type(rng, spec, rng.choice([0, 1, 1, 2])))))
        chain = parts[0]
        for q in parts[1:]:
            chain = chain + ["*"] + q
        if rng.random() < 0.3:
            chain = ["("] + chain + [")"]
        return render_tokens(rng, chain, rng.random() < 0.3)
    if r < 0.4 and len(toks) > 2 and toks[0] == "(" and toks[-1] == ")":
        return render_tokens(rng, toks[1:-1], rng.random() < 0.5)   # bare product at top level
    if r < 0.5:
        # redundant parentheses around one identifier
        ids = [i for i, t in enumerate(toks) if t not in "*(),"]
        i = rng.choice(ids)
        j = i + 1
        if j < len(toks) and toks[j] == "(":
            return render_tokens(rng, ["("] + toks + [")"], rng.random() < 0.5)
        return render_tokens(rng, toks[:i] + ["(", toks[i], ")"] + toks[j:], rng.random() < 0.5)
    for _ in range(rng.choice([1, 1, 2])):
        k = rng.random()
        i = rng.randrange(len(toks)) if toks else 0
        if k < 0.3 and toks:
            del toks[i]
        elif k < 0.6:
            toks.insert(i, rng.choice(vocab))
        elif k < 0.8 and toks:
            toks[i] = rng.choice(vocab)
        elif len(toks) > 1:
            i = rng.randrange(len(toks) - 1)
            toks[i], toks[i + 1] = toks[i + 1], toks[i]
    return render_tokens(rng, toks, rng.random() < 0.3)


def gen_history(rng, spec: Spec):
    """insertion history for Language.add: the spec's symbols in an order that
    mixes kinds, with duplicate / reserved / built-in names attempted in
    between; returns [(name, kind, expected_accept)]"""
    items = [(t["name"], ("T", t["arity"])) for t in spec.types] + \
        [(s["name"], ("S", s["arity"], s["body"])) for s in spec.syns] + \
        [(n, ("O",)) for n in spec.ops]
    rng.shuffle(items)
    hist = []
    seen = []
    kinds = [("T", 0), ("T", 2), ("S", 0, ("o", 0, [])), ("O",)]
    for n, k in items:
        if seen and rng.random() < 0.4:
            hist.append((rng.choice(seen), rng.choice(kinds), False))
        if seen and rng.random() < 0.15:
            # the same symbol under a scope key with trailing underscores (stripped by add)
            hist.append((rng.choice(seen) + "_" * rng.randint(1, 2), rng.choice(kinds), False))
        if rng.random() < 0.08:
            hist.append((rng.choice(RESERVED) + "_", rng.choice(kinds), False))
        if rng.random() < 0.12:
            n = n + "_" * rng.randint(1, 2)
        if rng.random() < 0.25:
            hist.append((rng.choice(RESERVED), rng.choice(kinds), False))
        if rng.random() < 0.1:
            hist.append(("Function", rng.choice(kinds), True))   # not reserved (noted in the report)
            seen.append("Function")
        hist.append((n, k, True))
        seen.append(n)
    # `Function` may have been offered twice
    out = []
    acc = set()
    for n, k, _ in hist:
        st = n.rstrip("_")
        ok = st not in acc and st not in RESERVED
        out.append((n, k, ok))
        if ok:
            acc.add(st)
    return out


def kind_coq(k) -> str:
    if k[0] == "T":
        return f"(KType {k[1]})"
    if k[0] == "S":
        return f"(KSyn {k[1]} {body_coq(k[2])})"
    return "KOp"


def run_history(hist):
    import transforge.type as T
    from transforge.lang import Language
    from transforge.expr import Operator
    lang = Language()
    bits = []
    for n, k, _ in hist:
        if k[0] == "T":
            item = T.TypeOperator(params=k[1])
        elif k[0] == "S":
            item = T.TypeAlias(T.Top() if k[1] == 0 else eval(
                "lambda " + ", ".join(f"a{i}" for i in range(k[1])) + ": a0"))
        else:
            item = Operator(type=T.Top)
        try:
            lang.add(item, n)
            bits.append(1)
        except ValueError:
            bits.append(0)
    names = list(lang.types) + list(lang.synonyms) + list(lang.operators)
    return bits, [cps(n) for n in names]


# --------------------------------------------------------------------------
# one language = one block of cases

class Block:
    def __init__(self, spec: Spec, seeds, types, stys, strings, uris, hist, label):
        self.spec, self.seeds, self.types, self.stys = spec, seeds, types, stys
        self.strings, self.uris, self.hist, self.label = strings, uris, hist, label
        self.impl: Impl | None = None
        self.canon_model: list = []

    def prepare(self, rng, canon_cap):
        """build the implementation side; draw the URI cases from the
        implementation's expanded canonical set"""
        self.impl = Impl(self.spec, self.seeds)
        canon = [self.impl.back(c) for c in self.impl.lang.canon]
        canon.sort(key=repr)
        self.canon_all = canon
        if self.spec.flat() and self.seeds:
            want = {repr(t) for t in self.seeds} | {repr(t) for t in canon if not t[1]}
            self.canon_sane = {repr(t) for t in canon} == want
        else:
            self.canon_sane = True
        extra = [c for c in canon if c[1]]
        if len(extra) > canon_cap:
            keep = {repr(t) for t in self.seeds} | {repr(t) for t in self.types}
            rest = [c for c in extra if repr(c) not in keep]
            rng.shuffle(rest)
            kept = [c for c in extra if repr(c) in keep]
            extra = kept + rest[:max(0, canon_cap - len(kept))]
        self.canon_model = extra
        have = {repr(t) for t in self.types}
        for c in extra + [(o, []) for o in [0, 1, 2]]:
            if repr(c) not in have:
                have.add(repr(c))
                self.types.append(c)
        # the implementation's URI and printed text of every type case
        self.impl_obs = {}
        for t in self.types:
            u = self.impl.uri(t)
            iu = ([1] if self.impl.uri_error == "NonCanonicalTypeError" else [2]) if u is None else [0] + cps(u)
            try:
                it = cps(str(self.impl.inst(t)))
            except Exception as e:  # noqa: BLE001
                it = cps(f"<{type(e).__name__}>")
            self.impl_obs[repr(t)] = (iu, it)

    def coq(self, i: int):
        L = f"L_{i}"
        ns = coq_str(self.spec.ns)
        n = 0
        txt = [f"Definition {L} := {self.spec.coq()}.",
               f"Definition CN_{i} : list ty := {C.coq_list(self.canon_model, C.ty_coq)}."]
        def case(t):
            iu, it = self.impl_obs[repr(t)]
            us = "".join(map(chr, iu[1:]))
            return f"({C.ty_coq(t)}, ({iu[0]}, {coq_lit(us)}, {coq_lit(''.join(map(chr, it)))}))"
        txt.append(f"Eval vm_compute in map (obs_ty {L} {ns} CN_{i}) {C.coq_list(self.types, case)}.")
        txt.append(f"Eval vm_compute in map (obs_sty {L}) {C.coq_list(self.stys, sty_coq)}.")
        txt.append(f"Eval vm_compute in map (obs_str {L}) {C.coq_list(self.strings, coq_str)}.")
        txt.append(f"Eval vm_compute in map (obs_uri {L}) {C.coq_list(self.uris, coq_str)}.")
        hs = C.coq_list(self.hist, lambda h: f"({coq_str(h[0])}, {kind_coq(h[1])})")
        txt.append(f"Eval vm_compute in obs_hist {hs}.")
        refs = [f"(OTy {o})" for o in range(5 + len(self.spec.types))] + \
            [f"(OOp {j})" for j in range(len(self.spec.ops))]
        txt.append(f"Eval vm_compute in obs_lang {L} {ns} {C.coq_list(refs)}.")
        return "\n".join(txt) + "\n", 6


def make_block(rng, spec: Spec, n_types, n_sty, n_fuzz, n_uri, label, types=None, seeds=None):
    flat = spec.flat()
    if types is None:
        types = []
        for _ in range(n_types):
            d = rng.choice([1, 2, 2, 3, 3, 3])
            types.append(gen_type(rng, spec, d, specials=(0, 1, 2) if rng.random() < 0.3 else (0, 1)))
    if seeds is None:
        if flat:
            seeds = [t for t in types if t[1] and 3 not in ty_ops(t)]
            # keep some compound types out of the canonical set
            noncanon = seeds[-3:] if len(seeds) > 6 else []
            seeds = seeds[:len(seeds) - len(noncanon)]
        else:
            small = [t for t in types if t[1] and ty_leaves(t) <= (4 if spec.incl_top or spec.incl_bottom else 6)]
            seeds = small[:3]
    # a few function-containing types: printer correspondence only
    for _ in range(2 if n_types else 0):
        types.append(gen_type(rng, spec, 2, allow_fun=True))
    stys = []
    if n_sty:
        for _ in range(n_sty):
            stys.append(gen_sty(rng, spec, rng.choice([1, 2, 2, 3])))
    strings = []
    pool = [spec.text(t) for t in types if 3 not in ty_ops(t) and 2 not in ty_ops(t)] + \
        [spec.stext(s) for s in stys]
    for _ in range(n_fuzz):
        if pool:
            strings.append(fuzz_text(rng, spec, rng.choice(pool)))
    uris = []
    names = [t["name"] for t in spec.types] + ["Top", "Bottom", "Unit", "Product", "Function", "Zq9"]
    for _ in range(n_uri):
        r = rng.random()
        if r < 0.5:
            t = gen_type(rng, spec, rng.choice([1, 2, 3]), specials=(0, 1, 2))
            toks = spec.prefix(t)
        else:
            t = gen_type(rng, spec, rng.choice([1, 2]), specials=(0, 1, 2))
            toks = spec.prefix(t)
            k = rng.random()
            i = rng.randrange(len(toks))
            if k < 0.35:
                del toks[i]
            elif k < 0.7:
                toks.insert(i, rng.choice(names))
            else:
                toks[i] = rng.choice(names)
        uris.append(rng.choice([spec.ns, "https://github.com/quangis/transforge#", "", "a/b/"])
            + "-".join(toks))
    hist = gen_history(rng, spec)
    return Block(spec, seeds, types, stys, strings, uris, hist, label)


def fixed_specs():
    def ty(n, a):
        return {"name": n, "arity": a, "parent": None, "variance": [True] * a}
    e1 = Spec([ty("A", 0), ty("B", 0), ty("F", 1), ty("G", 2)], [], ["f"], "https://example.com/#")
    e2 = Spec([ty("A", 0), ty("K", 3), ty("F", 1)], [], [], "http://x.org/vocab/")
    e3 = Spec([ty("A", 0), ty("F", 1)], [{"name": "S", "arity": 1, "body": ("o", 6, [("v", 0)])}], [],
        "https://example.com/#")
    return e1, e2, e3


def corpus_blocks(rng):
    """the witnesses of the *_pinned_refuted theorems and the design probe"""
    e1, e2, e3 = fixed_specs()
    A, B = (5, []), (6, [])
    t1 = (8, [(8, [B, A]), (7, [A])])
    b1 = make_block(rng, e1, 0, 0, 0, 0, "corpus:uri G(G(B,A),F(A))", types=[t1,
        (4, [(7, [A]), B]), (8, [(4, [(8, [A, B]), A]), (7, [(1, [])])])], seeds=[t1])
    b3 = make_block(rng, e3, 0, 0, 0, 0, "corpus:alias (S(A) * A)", types=[(4, [(6, [A]), A])], seeds=[])
    b3.stys = [("T", 4, [("A", 0, [("T", 5, [])]), ("T", 5, [])]),
               ("A", 0, [("T", 4, [("A", 0, [("T", 5, [])]), ("T", 5, [])])])]
    return [b1, b3]


def exhaustive_blocks(rng, tier):
    e1, e2, e3 = fixed_specs()
    out = []
    if tier == "quick":
        ts = enum_types(e1, [5, 6, 7, 8], 2)
        out.append(make_block(rng, e1, 0, 0, 0, 0, "exhaustive depth 2 over A,B,F/1,G/2", types=ts,
            seeds=[t for t in ts if t[1]]))
        ts = enum_types(e2, [5, 6, 7, 4], 2)
        out.append(make_block(rng, e2, 0, 0, 0, 0, "exhaustive depth 2 over A,K/3,F/1,Product", types=ts,
            seeds=[t for t in ts if t[1]]))
        ts = enum_types(e1, [5, 7, 8], 3)
        out.append(make_block(rng, e1, 0, 0, 0, 0, "exhaustive depth 3 over A,F/1,G/2", types=ts,
            seeds=[t for t in ts if t[1]]))
    else:
        ts = enum_types(e1, [5, 6, 7, 8], 3)
        out.append(make_block(rng, e1, 0, 0, 0, 0, "exhaustive depth 3 over A,B,F/1,G/2", types=ts,
            seeds=[t for t in ts if t[1]]))
        ts = enum_types(e2, [5, 6], 3)
        out.append(make_block(rng, e2, 0, 0, 0, 0, "exhaustive depth 3 over A,K/3", types=ts,
            seeds=[t for t in ts if t[1]]))
        ts = enum_types(e2, [5, 7, 4, 0], 3)
        out.append(make_block(rng, e2, 0, 0, 0, 0, "exhaustive depth 3 over A,Top,F/1,Product", types=ts,
            seeds=[t for t in ts if t[1]]))
        ts = enum_types(e2, [5, 6, 7, 4], 2)
        out.append(make_block(rng, e2, 0, 0, 0, 0, "exhaustive depth 2 over A,K/3,F/1,Product", types=ts,
            seeds=[t for t in ts if t[1]]))
    return out


# --------------------------------------------------------------------------
# oracles that need the implementation only

def query_uris(impl: Impl, t1, t2):
    """URIs that a query built from two typed steps emits for :subtypeOf and
    :containsType (query.py decodes and re-encodes each type URI)"""
    from rdflib import BNode, Graph
    from transforge.namespace import RDF, TF
    from transforge.query import TransformationQuery
    lang = impl.lang
    g = Graph()
    root, o, i = BNode(), BNode(), BNode()
    g.add((root, RDF.type, TF.Task))
    g.add((root, TF.output, o))
    g.add((root, TF.input, i))
    g.add((o, TF.type, lang.uri(impl.inst(t1))))
    g.add((o, TF["from"], i))
    g.add((i, TF.type, lang.uri(impl.inst(t2))))
    q = TransformationQuery(lang, g, root=root)
    s = q.sparql()
    return set(re.findall(r":(?:subtypeOf|containsType) <([^>]*)>", s))


class Stats:
    def __init__(self):
        self.n = 0
        self.dis = 0
        self.distinct = set()
        self.dist = {"uri_types": 0, "uri_noncanonical": 0, "text_types": 0, "alias_texts": 0,
            "fuzz_texts": 0, "fuzz_texts_ok": 0, "raw_uris": 0, "raw_uris_ok": 0, "add_attempts": 0,
            "add_rejected": 0, "operator_uris": 0, "canon_oracle_types": 0, "query_checks": 0,
            "inner_compound_then_more": 0, "product_compound_left": 0, "alias_product_left": 0,
            "exotic_languages": 0, "hierarchical_languages": 0}
        self.depth = {}
        self.arity = {}
        self.viol = {}
        self.samples = []

    def limited(self, kind, cap=4):
        self.viol[kind] = self.viol.get(kind, 0) + 1
        return self.viol[kind] <= cap


def check_block(rep: C.Report, st: Stats, b: Block, vals, bi: int):
    spec, impl = b.spec, b.impl
    v_ty, v_sty, v_str, v_uri, v_hist, v_lang = vals
    base = {"spec": spec.to_json(), "seeds": b.seeds, "label": b.label}
    flags, op_uris_model = v_lang
    text_ok, uri_ok, ns_ok = flags
    in_uri_domain = bool(uri_ok and ns_ok)
    assert bool(uri_ok) == spec.uri_safe(), (uri_ok, spec.to_json())
    if not uri_ok:
        st.dist["exotic_languages"] += 1
    if not spec.flat():
        st.dist["hierarchical_languages"] += 1

    def disagree(name, payload, concrete=False, sig=None):
        st.dis += 1
        if st.limited("disagree_" + name + ("_known" if sig else "")):
            rep.violation(f"disagree_{name}_{bi}_{st.dis}", dict(base, kind="correspondence", **payload),
                has_input=concrete, signature=sig)

    def guard(name, payload, fn, *args):
        """an exception escaping the implementation (or the comparison) on a
        generated case is reported with that case, never as a harness crash"""
        try:
            fn(*args)
        except Exception as e:  # noqa: BLE001
            import traceback
            if st.limited("crash_" + name):
                rep.violation(f"crash_{name}_{bi}_{st.n}", dict(base, kind="oracle", **payload,
                    what=f"unexpected {type(e).__name__} while observing the implementation on this case",
                    traceback=traceback.format_exc()[-1500:]))

    if not b.canon_sane:
        disagree("canon", {"what": "Language.canon of a flat language is not its seeds plus base types",
            "canon": b.canon_all})

    # ---- types: uri / decode / str / parse
    seen_uri: dict = {}

    def one_type(t, mo):
        m_uri, m_dec, m_dec_p, m_text, m_parse, m_parse_p, (udom, tdom) = mo
        ok_t = [0] + ty_enc(t)
        m_dec, m_dec_p, m_parse, m_parse_p = [ok_t if x == [10] else x for x in (m_dec, m_dec_p, m_parse, m_parse_p)]
        m_parse, m_parse_p = norm_err(m_parse), norm_err(m_parse_p)
        st.n += 1
        i_uri, i_text = b.impl_obs[repr(t)]
        u = impl.uri(t)
        assert (([1] if impl.uri_error == "NonCanonicalTypeError" else [2]) if u is None else [0] + cps(u)) == i_uri
        s = "".join(map(chr, i_text))
        if m_uri == [10]:
            m_uri = i_uri
        if m_text == [10]:
            m_text = i_text
        payload = {"type": t, "type_text": spec.text(t)}
        if s != spec.text(t) or i_text != m_text:
            disagree("text", dict(payload, what="str(t) differs from the model printer text_std",
                impl=s, model="".join(map(chr, m_text))))
        if i_uri != m_uri:
            disagree("uri", dict(payload, what="Language.uri differs from the model",
                impl=u if u is not None else impl.uri_error,
                model=None if m_uri == [1] else "".join(map(chr, m_uri[1:]))))
        d = ty_depth(t)
        st.depth[d] = st.depth.get(d, 0) + 1
        for o in ty_ops(t):
            a = spec.arity(o)
            st.arity[a] = st.arity.get(a, 0) + 1
        itm = inner_then_more(spec, t)
        pcl = prod_compound_left(t)
        if u is not None:
            st.dist["uri_types"] += 1
            i_dec, ename = impl.decode(u)
            if i_dec != m_dec:
                known = i_dec == m_dec_p and m_dec_p != m_dec
                disagree("decode", dict(payload, uri=u, what="parse_type_uri(uri(t)) differs from the model",
                    impl=i_dec, impl_exception=ename, model=m_dec, model_pinned=m_dec_p),
                    sig=SIG_URI if known else None)
            if udom and in_uri_domain:
                if itm:
                    st.dist["inner_compound_then_more"] += 1
                    st.distinct.add(("u", bi, repr(t)))
                # property: decoding inverts encoding
                if i_dec != [0] + ty_enc(t):
                    known = i_dec == m_dec_p and m_dec_p != [0] + ty_enc(t)
                    if st.limited("uri_roundtrip" + ("_known" if known else "")):
                        rep.violation(f"uri_roundtrip_{bi}_{st.n}", dict(base, kind="oracle", **payload, uri=u,
                            decoded=i_dec, decoded_text=(spec.text(dec_ty(i_dec)) if i_dec[0] == 0 else ename),
                            what="parse_type_uri(uri(t)) is not t"), signature=SIG_URI if known else None)
                # property: URIs identify types
                if u in seen_uri and seen_uri[u] != t:
                    if st.limited("uri_shared"):
                        rep.violation(f"uri_shared_{bi}_{st.n}", dict(base, kind="oracle", **payload, uri=u,
                            other=seen_uri[u], what="two different types share a URI"))
                seen_uri[u] = t
        else:
            st.dist["uri_noncanonical"] += 1
        # text round trip
        i_parse, ename = impl.parse(s)
        if i_parse != m_parse:
            known = i_parse == m_parse_p and m_parse_p != m_parse
            disagree("parse", dict(payload, what="parse_type(str(t)) differs from the model", impl=i_parse,
                impl_exception=ename, model=m_parse, model_pinned=m_parse_p),
                sig=SIG_TEXT if known else None)
        if tdom and text_ok:
            st.dist["text_types"] += 1
            if pcl:
                st.dist["product_compound_left"] += 1
                st.distinct.add(("t", bi, repr(t)))
            bad = i_parse != [0] + ty_enc(t)
            if not bad:
                # equality as the library sees it
                bad = not (impl.lang.parse_type(s) == impl.inst(t))
            if bad:
                known = i_parse == m_parse_p and m_parse_p != [0] + ty_enc(t)
                if st.limited("text_roundtrip" + ("_known" if known else "")):
                    rep.violation(f"text_roundtrip_{bi}_{st.n}", dict(base, kind="oracle", **payload, text=s,
                        parsed=i_parse, parsed_text=(spec.text(dec_ty(i_parse)) if i_parse[0] == 0 else ename),
                        what="parse_type(str(t)) is not t"), signature=SIG_TEXT if known else None)
        if len(st.samples) < 4 and itm and pcl and u is not None:
            st.samples.append({"language": spec.to_json(), "type": spec.text(t), "uri": u,
                "decoded": i_dec, "parsed": i_parse, "model": [m_dec, m_parse]})

    for t, mo in zip(b.types, v_ty):
        guard("type", {"type": t, "type_text": spec.text(t)}, one_type, t, mo)

    # ---- every canonical type of the implementation (not only the evaluated sample)
    uris: dict = {}

    def one_canon(c):
        if 3 in ty_ops(c):
            return
        st.dist["canon_oracle_types"] += 1
        u = impl.uri(c)
        if u is None:
            if st.limited("canon_nouri"):
                rep.violation(f"canon_nouri_{bi}_{len(uris)}", dict(base, kind="oracle", type=c,
                    type_text=spec.text(c), error=impl.uri_error,
                    what="Language.uri raises on a member of lang.canon"))
            return
        i_dec, ename = impl.decode(u)
        if i_dec != [0] + ty_enc(c):
            known = i_dec[0] == 0 and i_dec == [0] + ty_enc(pinned_decode(spec, c))
            if st.limited("uri_roundtrip" + ("_known" if known else "")):
                rep.violation(f"canon_roundtrip_{bi}_{len(uris)}", dict(base, kind="oracle", type=c,
                    type_text=spec.text(c), uri=u, decoded=i_dec,
                    decoded_text=(spec.text(dec_ty(i_dec)) if i_dec[0] == 0 else ename),
                    what="parse_type_uri(uri(t)) is not t for a member of lang.canon"),
                    signature=SIG_URI if known else None)
        if u in uris and uris[u] != c:
            if st.limited("uri_shared"):
                rep.violation(f"canon_shared_{bi}_{len(uris)}", dict(base, kind="oracle", type=c, other=uris[u],
                    uri=u, what="two different canonical types share a URI"))
        uris[u] = c

    if in_uri_domain:
        for c in b.canon_all + [(o, []) for o in (0, 1, 2)]:
            guard("canon", {"type": c, "type_text": spec.text(c)}, one_canon, c)

    # ---- alias texts
    def one_sty(s_, mo):
        m_text, m_exp, m_parse, m_parse_p, (wf,) = mo
        m_parse, m_parse_p = norm_err(m_parse), norm_err(m_parse_p)
        st.n += 1
        text = spec.stext(s_)
        expected = spec.expand(s_)
        payload = {"sty": s_, "text": text, "expected": expected}
        if cps(text) != m_text or ty_enc(expected) != m_exp or not wf:
            disagree("stext", dict(payload, what="harness rendering / expansion differs from stext / expand",
                model_text="".join(map(chr, m_text)), model_expand=m_exp, swfb=wf))
        i_parse, ename = impl.parse(text)
        if i_parse != m_parse:
            known = i_parse == m_parse_p and m_parse_p != m_parse
            disagree("alias_parse", dict(payload, what="parse_type of alias text differs from the model",
                impl=i_parse, impl_exception=ename, model=m_parse, model_pinned=m_parse_p),
                sig=SIG_TEXT if known else None)
        if text_ok:
            if has_alias(s_):
                st.dist["alias_texts"] += 1
                st.distinct.add(("a", bi, repr(s_)))
            if sprod_compound_left(s_):
                st.dist["alias_product_left"] += 1
            # the definition, built through the Python API
            want = impl_expand(impl, s_)
            bad = i_parse != [0] + ty_enc(expected)
            if not bad:
                bad = not (impl.lang.parse_type(text) == want) or ty_enc(impl.back(want)) != ty_enc(expected)
            if bad:
                known = i_parse == m_parse_p and m_parse_p != [0] + ty_enc(expected)
                if st.limited("alias" + ("_known" if known else "")):
                    rep.violation(f"alias_{bi}_{st.n}", dict(base, kind="oracle", **payload, parsed=i_parse,
                        parsed_text=(spec.text(dec_ty(i_parse)) if i_parse[0] == 0 else ename),
                        expected_text=spec.text(expected),
                        what="type text with a synonym does not denote the synonym's definition"),
                        signature=SIG_TEXT if known else None)

    for s_, mo in zip(b.stys, v_sty):
        guard("alias", {"sty": s_, "text": spec.stext(s_)}, one_sty, s_, mo)

    # ---- free-form / damaged texts
    def one_string(s, mo):
        m_parse, m_parse_p = norm_err(mo[0]), norm_err(mo[1])
        st.n += 1
        st.dist["fuzz_texts"] += 1
        if "_" in tokens_of(s):
            return
        i_parse, ename = impl.parse(s)
        if i_parse[0] == 0:
            st.dist["fuzz_texts_ok"] += 1
        if i_parse != m_parse:
            known = i_parse == m_parse_p and m_parse_p != m_parse
            disagree("fuzz", {"text": s, "what": "parse_type on free-form text differs from the model",
                "impl": i_parse, "impl_exception": ename, "model": m_parse, "model_pinned": m_parse_p},
                sig=SIG_TEXT if known else None)

    for s, mo in zip(b.strings, v_str):
        guard("fuzz", {"text": s}, one_string, s, mo)

    # ---- raw URIs
    def one_uri(u, mo):
        m_dec, m_dec_p = mo
        st.n += 1
        st.dist["raw_uris"] += 1
        i_dec, ename = impl.decode(u)
        if i_dec[0] == 0:
            st.dist["raw_uris_ok"] += 1
        if i_dec != m_dec:
            known = i_dec == m_dec_p and m_dec_p != m_dec
            disagree("rawuri", {"uri": u, "what": "parse_type_uri differs from the model", "impl": i_dec,
                "impl_exception": ename, "model": m_dec, "model_pinned": m_dec_p},
                sig=SIG_URI if known else None)

    for u, mo in zip(b.uris, v_uri):
        guard("rawuri", {"uri": u}, one_uri, u, mo)

    # ---- Language.add histories
    def history():
        m_bits, m_names = v_hist
        i_bits, i_names = run_history(b.hist)
        want_bits = [1 if h[2] else 0 for h in b.hist]
        st.n += len(b.hist)
        st.dist["add_attempts"] += len(b.hist)
        st.dist["add_rejected"] += want_bits.count(0)
        if not (m_bits == i_bits == want_bits) or m_names != i_names:
            concrete = i_bits != want_bits
            disagree("add", {"history": [(h[0], h[1]) for h in b.hist], "impl": i_bits, "model": m_bits,
                "expected": want_bits, "impl_names": i_names, "model_names": m_names,
                "what": "Language.add accepts/rejects differently from the model "
                        "(names must stay unique and unreserved)"}, concrete=concrete)

    guard("add", {"history": [(h[0], h[1]) for h in b.hist]}, history)

    # ---- operator URIs
    def operators():
        objs = [impl.ops[o] for o in range(5 + len(spec.types))] + impl.operators
        labels = [f"type operator {spec.name(o)}" for o in range(5 + len(spec.types))] + \
            [f"operator {n}" for n in spec.ops]
        i_ops = [str(impl.lang.uri(x)) for x in objs]
        st.n += len(objs)
        st.dist["operator_uris"] += len(objs)
        if [cps(u) for u in i_ops] != op_uris_model:
            disagree("opuri", {"impl": i_ops, "model": ["".join(map(chr, u)) for u in op_uris_model],
                "what": "Language.uri on operators differs from the model"})
        if in_uri_domain:
            seen: dict = {}
            for u, lab in zip(i_ops, labels):
                if u in seen and st.limited("op_shared"):
                    rep.violation(f"op_shared_{bi}", dict(base, kind="oracle", uri=u, a=seen[u], b=lab,
                        what="two different operators share a URI"))
                seen[u] = lab

    guard("operators", {}, operators)

    # ---- queries re-encode what they decode
    def one_query(t1, t2):
        st.dist["query_checks"] += 1
        st.n += 1
        want = {impl.uri(t1), impl.uri(t2)}
        try:
            got = query_uris(impl, t1, t2)
            err = None
        except Exception as e:  # noqa: BLE001
            got, err = set(), f"{type(e).__name__}: {e}"
        if got != want:
            misdecoded = [pinned_decode(spec, t) for t in (t1, t2)]
            known = misdecoded != [t1, t2] and (
                bool(err and err.startswith("NonCanonicalTypeError"))
                or got == {spec.ns + "-".join(spec.prefix(t)) for t in misdecoded})
            if st.limited("query" + ("_known" if known else "")):
                rep.violation(f"query_{bi}_{st.n}", dict(base, kind="oracle", types=[t1, t2],
                    types_text=[spec.text(t1), spec.text(t2)], expected=sorted(want), emitted=sorted(got),
                    error=err, what="a query built from typed steps does not emit exactly those types' URIs "
                                    "(query.py decodes and re-encodes every type URI)"),
                    signature=SIG_URI if known else None)

    if in_uri_domain:
        cands = [t for t in b.types if t[1] and impl.uri(t) is not None and 3 not in ty_ops(t)]
        cands.sort(key=lambda t: (not inner_then_more(spec, t), repr(t)))
        for t1, t2 in list(zip(cands[0::2], cands[1::2]))[:3]:
            guard("query", {"types": [t1, t2]}, one_query, t1, t2)


def dec_ty(enc):
    """inverse of ty_enc on [0] + enc"""
    pos = [1]

    def go():
        o, n = enc[pos[0]], enc[pos[0] + 1]
        pos[0] += 2
        return (o, [go() for _ in range(n)])
    return go()


def pinned_decode(spec: Spec, t):
    """what the pinned queue discipline makes of t's prefix code (only used to
    label a reproduced finding; the verdict never depends on it)"""
    ops = []

    def pre(x):
        ops.append(x[0])
        for a in x[1]:
            pre(a)
    pre(t)
    types: list = []
    while ops:
        o = ops.pop()
        k = spec.arity(o)
        if len(types) < k:
            return t
        types, new = types[k:], (o, list(reversed(types[:k])))
        types.append(new)
    return types[0] if len(types) == 1 else t


def impl_expand(impl: Impl, s):
    k, i, args = s
    es = [impl_expand(impl, a) for a in args]
    if k == "T":
        return impl.ops[i](*es)
    return impl.inst_body(impl.spec.syns[i]["body"], es)


# --------------------------------------------------------------------------

def replay_file(path: str) -> int:
    """re-run one recorded case on the implementation"""
    d = json.loads(open(path).read())

    def tup(x):
        return (x[0], [tup(a) for a in x[1]])

    def stup(x):
        return (x[0], x[1], [stup(a) for a in x[2]])

    def btup(x):
        return ("v", x[1]) if x[0] == "v" else ("o", x[1], [btup(a) for a in x[2]])
    spec = Spec.from_json(d["spec"])
    for s in spec.syns:
        s["body"] = btup(s["body"])
    impl = Impl(spec, [tup(t) for t in d.get("seeds", [])])
    bad = None
    if "sty" in d:
        s = stup(d["sty"])
        got, _ = impl.parse(spec.stext(s))
        want = [0] + ty_enc(spec.expand(s))
        bad = got != want
        print(f"parse_type({spec.stext(s)!r}) = {got}; definition = {want}")
    elif "types" in d:
        t1, t2 = [tup(t) for t in d["types"]]
        want = {impl.uri(t1), impl.uri(t2)}
        try:
            got = query_uris(impl, t1, t2)
        except Exception as e:  # noqa: BLE001
            got = {f"{type(e).__name__}: {e}"}
        bad = got != want
        print(f"query emits {sorted(got)}; expected {sorted(want)}")
    elif "type" in d:
        t = tup(d["type"])
        u = impl.uri(t)
        if u is not None and 2 >= 0:
            got, _ = impl.decode(u)
            print(f"parse_type_uri({u!r}) = {got}; type = {[0] + ty_enc(t)}")
            bad = got != [0] + ty_enc(t)
        if 2 not in ty_ops(t) and 3 not in ty_ops(t):
            s = str(impl.inst(t))
            got, _ = impl.parse(s)
            print(f"parse_type({s!r}) = {got}; type = {[0] + ty_enc(t)}")
            bad = bool(bad) or got != [0] + ty_enc(t)
    elif "text" in d:
        print(f"parse_type({d['text']!r}) = {impl.parse(d['text'])}; model = {d.get('model')}")
        bad = impl.parse(d["text"])[0] != d.get("model")
    elif "uri" in d:
        print(f"parse_type_uri({d['uri']!r}) = {impl.decode(d['uri'])}; model = {d.get('model')}")
        bad = impl.decode(d["uri"])[0] != d.get("model")
    if bad:
        print(f"VIOLATION property=C14 replay={path}")
        return 1
    print("OK property=C14 replay: the recorded case does not fail on this tree")
    return 0


def main(tier: str, seed: int, replay: str | None = None) -> int:
    C.force_repo_on_path()
    if replay:
        return replay_file(replay)
    rep = C.Report("C14", tier, seed)
    rep.proof_stage()
    rng = random.Random(seed)
    blocks = corpus_blocks(rng) + exhaustive_blocks(rng, tier)
    if tier == "quick":
        nl, nt, ns_, nf, nu, cap = 90, 24, 14, 28, 12, 120
    else:
        nl, nt, ns_, nf, nu, cap = 220, 40, 25, 50, 20, 300
    for i in range(nl):
        exotic = i % 7 == 6
        flat = i % 3 != 2
        ar = [1, 2, 3] if i % 5 == 0 else None
        spec = gen_spec(rng, exotic=exotic, flat=flat, arities=ar)
        blocks.append(make_block(rng, spec, nt, ns_ if spec.syns else 0, nf, nu, f"random language {i}"))
    ready = []
    for b in blocks:
        try:
            b.prepare(rng, 10 ** 9 if b.label.startswith(("exhaustive", "corpus")) else cap)
            ready.append(b)
        except Exception as e:  # noqa: BLE001
            import traceback
            rep.violation(f"build_{len(ready)}", {"kind": "oracle", "spec": b.spec.to_json(), "seeds": b.seeds,
                "what": f"{type(e).__name__} while building the language / its canonical set",
                "traceback": traceback.format_exc()[-1500:]})
    blocks = ready
    texts = [b.coq(i) for i, b in enumerate(blocks)]
    outs = C.coq_eval_blocks(f"C14_{tier}", HDR, texts, nfiles=4)
    st = Stats()
    for bi, (b, vals) in enumerate(zip(blocks, outs)):
        check_block(rep, st, b, vals, bi)
    rep.coverage.update({
        "evaluations": st.n, "distinct_nontrivial": len(st.distinct), "disagreements": st.dis,
        "rule": "per generated language (1-3 base types, 1-3 operators of arity 1-3, 0-3 synonyms of arity 0-3, "
                "0-2 transformation operators, five namespaces; every third language has supertypes and possibly "
                "Top/Bottom in the canonical set, every seventh has names with - . + / # '): random types to depth 3 "
                "biased towards compound parameters in non-final positions, alias texts, damaged/re-spaced texts, "
                "raw and damaged URIs, an insertion history for Language.add with duplicate and reserved names, all "
                "operator URIs; plus exhaustive enumerations over fixed small languages "
                + ("(depth 2, and depth 3 over A,F/1,G/2)" if tier == "quick" else "(depth 3)") + " and the witnesses of the refutation theorems. "
                "non-trivial = a URI case whose type has a compound parameter followed by further parameters, a text "
                "case with a product whose left operand is a compound type, or an alias text",
        "samples": st.samples, "input_distribution": st.dist,
        "type_depth_histogram": {str(k): v for k, v in sorted(st.depth.items())},
        "operator_arity_histogram": {str(k): v for k, v in sorted(st.arity.items())},
        "languages": len(blocks), "exhaustive": False})
    rep.assumptions = [
        "names are identifiers: no '-', '#', '/' (URIs), no whitespace or '*(,)' (text), none is '_' or 'Function' "
        "(the other reserved words are refused by Language.add, proved as C14_names_from_add)",
        "namespace ends in '#', or contains no '#' and ends in '/'",
        "canonical types contain no Function (uri() prints functions infix, ' ** ', which is not a decodable URI; "
        "rdflib itself warns about such URIs); Unit has a URI but no type notation",
        "synonym bodies are type expressions over the synonym's parameters",
        "model/implementation agreement is tested, not proved",
    ]
    return rep.finish(C.TRUSTED)
