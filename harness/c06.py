"""C06  Elimination constraints select exactly the alternatives the argument fits.

proof stage     coq/props/C06.v (Infer/Fits.v): the matcher fitsb decides the declarative
                Fits (exists an instantiation with x <= alt) for linear alternatives;
                engine link for the single-alternative family
correspondence  programs `a ** r(b) [a << alts]` applied to a concrete argument on /repo vs
                the engine model
oracle          accepted  <->  accept_spec (the verified matcher, evaluated in Coq on the
                same case); unique fit determines the result; with concrete alternatives
                the result lies between the argument and a fitting alternative
"""
from __future__ import annotations

import random

from . import common as C
from . import engine as E
from .c03 import run_engine_cases

FITS_HDR = E.HDR + "From TF Require Import Infer.Fits.\n"


def hierarchies():
    # A(5) > B(6) > C(7), D(8); F(9) unary co, G(10) binary co
    h1 = C.Hierarchy({6: 5, 7: 6}, {9: [True], 10: [True, True]}, 4)
    # A > {B, C}; unrelated D; F unary co, G binary (contra, co)
    h2 = C.Hierarchy({6: 5, 7: 5}, {9: [True], 10: [False, True]}, 4)
    # two roots with a child each; F unary contra, G binary co
    h3 = C.Hierarchy({7: 5, 8: 6}, {9: [False], 10: [True, True]}, 4)
    return [h1, h2, h3]


def concrete_types(h, depth):
    ops = [0, 1] + h.ids
    ts = C.enum_types(h, 1, ops)
    if depth >= 2:
        small = [t for t in ts if C.ty_size(t) <= 2]
        extra = []
        for o in h.ids:
            if h.arity(o) == 1:
                extra += [(o, [t]) for t in ts if C.ty_size(t) <= 3]
            elif h.arity(o) == 2:
                extra += [(o, [s, t]) for s in small for t in small]
        seen = set(map(repr, ts))
        for t in extra:
            if repr(t) not in seen:
                ts.append(t)
                seen.add(repr(t))
    return ts


def pattern_alts(rng, h):
    """Alternatives of the forms the property lists; b = ("v", 1)."""
    F, G = 9, 10
    b, w = ("v", 1), ("w",)
    base = [("o", o, []) for o in range(5, 5 + h.nbase)]
    forms = [
        ("o", F, [b]), ("o", G, [b, w]), ("o", G, [w, b]), ("o", F, [("o", F, [b])]),
        ("o", G, [("o", F, [b]), w]), ("o", F, [w]), ("o", G, [w, w]),      # with_parameters(F), (G)
        ("o", G, [b, rng.choice(base)]), ("o", F, [rng.choice(base)]),
        ("o", G, [rng.choice(base), rng.choice(base)]), rng.choice(base), rng.choice(base),
    ]
    n = rng.randint(1, 4)
    return [rng.choice(forms) for _ in range(n)]


def sty_vars_list(t, acc):
    if t[0] == "v":
        acc.append(t[1])
    elif t[0] == "o":
        for a in t[2]:
            sty_vars_list(a, acc)
    return acc


def linear(alt):
    vs = sty_vars_list(alt, [])
    return len(vs) == len(set(vs))


def py_fits(h, x, alt, d=True):
    """One-way matching written from the property text: does concrete x fit
    alt (d=True: x <= alt, d=False: alt <= x) for some instantiation?"""
    if alt[0] in ("v", "w"):
        return True
    lo, ro = (x[0], alt[1]) if d else (alt[1], x[0])
    if lo == 1 or ro == 0:
        return True
    largs = x[1] if d else alt[2]
    if h.arity(lo) == 0:
        return lo == ro or ro in E.chain_of(h, lo)
    if lo != ro:
        return False
    return all(py_fits(h, xa, aa, d if v else not d)
        for v, xa, aa in zip(h.variance(lo), x[1], alt[2]))


def main(tier: str, seed: int, replay: str | None = None) -> int:
    C.force_repo_on_path()
    rep = C.Report("C06", tier, seed)
    rep.proof_stage()
    rep.proof_stage("C06_list")     # engine accepts iff fits, for any list of base-type alternatives
    rep.proof_stage("C06_conc")     # accept iff fits, exact outcome and result, for CONCRETE alternatives of any shape
    rep.proof_stage("C06_pat")      # pattern alternatives F(b), R(b, _): the unique fitting alternative determines b; exact final stores
    rng = random.Random(seed)
    quick = tier == "quick"
    items = []
    metas = []
    fits_blocks = []
    for hi, h in enumerate(hierarchies()):
        h.build()
        conc = concrete_types(h, 2)
        conc1 = [t for t in conc if C.ty_size(t) <= 3]
        progs = []
        ms = []
        # family 1: a ** a [a << concrete alternatives]
        n1 = 150 if quick else 1500
        for _ in range(n1):
            alts = [E.conc_to_sty(rng.choice(conc1)) for _ in range(rng.randint(1, 4))]
            x = rng.choice(conc)
            if rng.random() < 0.5:
                # make fitting common: specialise one alternative
                a0 = rng.choice(alts)
                x = C.mutate_ty(rng, h, to_conc(a0), 2)
            sig = (1, ("o", 3, [("v", 0), ("v", 0)]), [("elim", ("v", 0), alts)])
            progs.append(([("inst", sig), ("inst", (0, E.conc_to_sty(x), [])), ("apply", 0, 1, True)], []))
            ms.append(("concrete", x, alts, None))
        # family 2: a ** r(b) [a << pattern alternatives]
        n2 = 250 if quick else 3000
        for k2 in range(n2):
            alts = pattern_alts(rng, h)
            r = rng.choice([("v", 1), ("o", 9, [("v", 1)])])
            if k2 % 6 == 5:
                # base-type alternatives only, argument any base type (related or
                # not, Unit/Top/Bottom included): the variable a is not part of the
                # result, so nothing fixes it afterwards
                bases = [("o", o, []) for o in range(5, 5 + h.nbase)]
                alts = rng.sample(bases, rng.randint(2, min(3, len(bases))))
                x = rng.choice([(o, []) for o in list(range(5, 5 + h.nbase)) + [0, 1, 2]])
            elif rng.random() < 0.75:
                a0 = rng.choice(alts)
                x = inst_pattern(rng, h, a0, conc1)
                if rng.random() < 0.5:
                    x = C.mutate_ty(rng, h, x, 2)
            else:
                x = rng.choice(conc)
            sig = (2, ("o", 3, [("v", 0), r]), [("elim", ("v", 0), alts)])
            progs.append(([("inst", sig), ("inst", (0, E.conc_to_sty(x), [])), ("apply", 0, 1, True)], []))
            ms.append(("pattern", x, alts, r))
        # family 3: alternatives produced by with_parameters (built by the real
        # function on the implementation side, expanded for the model)
        n3 = 80 if quick else 800
        for _ in range(n3):
            prog = E.gen_wp_program(rng, h)
            c = prog[0][1][2][0]
            alts = E.expand_wp(h.arity, c[2], c[3], c[4])
            x = to_conc(prog[1][1][1])
            progs.append((prog, []))
            ms.append(("pattern", x, alts, prog[0][1][1][2][1]))
        items.append((h, progs))
        metas += ms
        cases = C.coq_list(ms, lambda m: f"({C.ty_coq(m[1])}, {C.coq_list(m[2], E.sty_coq)})")
        fits_blocks.append((f"Definition FH{hi} := {h.coq()}.\n"
            f"Eval vm_compute in map (fun p : ty * list sty => map (fun a => Nat.b2n (fitsb FH{hi} (fst p) a)) (snd p)) {cases}.\n", 1))
    fits_out = C.coq_eval_blocks(f"C06fits_{tier}", FITS_HDR, fits_blocks, nfiles=3)
    fits = [row for blk in fits_out for row in blk[0]]

    idx = {"i": 0}
    stats = {"accepted": 0, "rejected": 0, "unique_fit_checked": 0, "between_checked": 0,
             "nonlinear_skipped": 0, "fit_counts": {}}
    distinct = set()
    samples = []

    def on_case(h, prog, sched, err, io, mo, crow, mvals):
        fam, x, alts, r = metas[idx["i"]]
        frow = fits[idx["i"]]
        idx["i"] += 1
        names = {i: f"op{i}" for i in h.ops}
        text = [c if c[0] != "inst" else E.schema_py(c[1], names) for c in prog]
        payload = {"hierarchy": h.to_json(), "program": prog, "program_text": text,
            "fits_per_alternative (verified matcher)": frow}
        accepted = err is None
        stats["accepted" if accepted else "rejected"] += 1
        nfit = sum(frow)
        stats["fit_counts"][str(nfit)] = stats["fit_counts"].get(str(nfit), 0) + 1
        pyrow = [int(py_fits(h, x, a)) for a in alts]
        if pyrow != frow:
            rep.violation(f"oracle_mismatch_{idx['i']}", dict(payload, kind="harness",
                what="Python matcher and verified matcher disagree", py=pyrow), has_input=False)
        if x[1] or any(a[0] == "o" and a[2] for a in alts):
            distinct.add(repr((h.to_json(), x, alts)))
        if not all(linear(a) for a in alts):
            stats["nonlinear_skipped"] += 1
            return
        if err is not None and not err[3]:
            rep.violation(f"crash_{idx['i']}", dict(payload, kind="oracle",
                what=f"application raised {err[0]} instead of accepting or rejecting"))
            return
        if accepted != (nfit > 0):
            rep.violation(f"iff_{idx['i']}", dict(payload, kind="oracle",
                what=("accepted although the argument fits no alternative" if accepted else
                      f"rejected ({err[0]}) although the argument fits an alternative")))
            return
        if not accepted:
            return
        res = io["vals"][-1]
        if fam == "concrete":
            if is_conc(res):
                rc = from_canon(res)
                fitting = [to_conc(a) for a, f in zip(alts, frow) if f]
                if not E.py_sub(h, x, rc) or not any(E.py_sub(h, rc, a) for a in fitting):
                    rep.violation(f"between_{idx['i']}", dict(payload, kind="oracle", result=res,
                        what="result does not lie between the argument and a fitting alternative"))
                stats["between_checked"] += 1
        elif nfit == 1:
            alt = alts[frow.index(1)]
            t = binding_of_b(h, x, alt)
            if t is not None:
                want = to_canon_sty(r, t)
                if r[0] == "o" and not h.variance(r[1])[0]:
                    # b sits contravariantly in the result: it stays a variable whose
                    # reported lower bound is the determined type
                    ok = (res[0] == "o" and res[1] == r[1] and res[2][0][0] == "v"
                          and io["vars"][res[2][0][1]][1] == t[0])
                    want = ("variable with lower bound", t[0])
                else:
                    ok = res == want
                if not ok:
                    rep.violation(f"unique_{idx['i']}", dict(payload, kind="oracle", result=res, expected=want,
                        what="exactly one alternative fits but the result is not the correspondingly instantiated result type"))
                stats["unique_fit_checked"] += 1
        if len(samples) < 3 and fam == "pattern" and nfit == 1 and x[1]:
            samples.append({"program_text": text, "fits": frow, "result": repr(res)})

    n, dis = run_engine_cases(rep, f"C06_{tier}", items, check=False, on_case=on_case)
    rep.coverage.update({
        "evaluations": n, "distinct_nontrivial": len(distinct), "disagreements": dis,
        "rule": "three fixed hierarchies (chain, tree with mixed-variance G, two roots with contravariant F); "
                "family 1: a ** a [a << 1-4 concrete alternatives]; family 2: a ** r(b) [a << 1-4 alternatives drawn from "
                "concrete types, F(b), G(b,_), G(_,b), F(F(b)), G(F(b),_), F(_), G(_,_), partially concrete forms]; arguments: all "
                "concrete types to depth 2 sampled, 50-75% derived from an alternative; non-trivial = compound argument or alternative",
        "outcome_distribution": stats, "samples": samples, "exhaustive": False})
    rep.assumptions = [
        "accept <-> fits is proved on the engine model only for one base-type alternative (C06_engine_single); for the "
        "other families it is decided per generated case against the verified matcher",
        "non-linear alternatives are outside the iff (C06_nonlinear_refuted) and are only run for correspondence",
    ]
    return rep.finish(C.TRUSTED)


def to_conc(a):
    return (a[1], [to_conc(q) for q in a[2]])


def is_conc(v):
    return v[0] == "o" and all(is_conc(a) for a in v[2])


def from_canon(v):
    return (v[1], [from_canon(a) for a in v[2]])


def inst_pattern(rng, h, alt, pool):
    if alt[0] in ("v", "w"):
        return rng.choice(pool)
    return (alt[1], [inst_pattern(rng, h, a, pool) for a in alt[2]])


def binding_of_b(h, x, alt, pol=True):
    """The concrete type b is determined to, when b sits at a covariant
    position of the uniquely fitting alternative and x has a base type there."""
    if alt[0] == "v":
        if pol and not x[1] and x[0] not in (0, 1):
            return x
        return None
    if alt[0] == "w" or not alt[2]:
        return None
    if x[0] != alt[1]:
        return None
    for v, xa, aa in zip(h.variance(x[0]), x[1], alt[2]):
        if sty_vars_list(aa, []):
            return binding_of_b(h, xa, aa, pol if v else not pol)
    return None


def to_canon_sty(r, t):
    if r[0] == "v":
        return ("o", t[0], tuple())
    return ("o", r[1], tuple(to_canon_sty(a, t) for a in r[2]))
