"""C08  The from-edges reproduce the expression's data flow, including internal steps.

proof stage     coq/props/C08.v (add_expr model = declarative flow graph, for all
                well-formed expressions of any depth; first-order corollary)
correspondence  TransformationGraph.add_expr of /repo vs the Gallina model add_expr
                on generated first- and higher-order expressions (from/internal/via
                triples and the returned node, compared up to blank-node renaming)
oracle          an independently built graph (application tree + internal nodes,
                written from the property text, path-named nodes) must be isomorphic
                to the implementation's from/internal/via triples
"""
from __future__ import annotations

import json
import random
from collections import Counter

from . import common as C

PID = "C08"
SIG_CONST = "internal-node-misses-earlier-input-equal-to-function-result"

# --------------------------------------------------------------------------
# harness-side types: 'A' | ('F', a, b)

A = "A"


def F(*ts):
    r = ts[-1]
    for t in reversed(ts[:-1]):
        r = ("F", t, r)
    return r


def is_fun(t) -> bool:
    return t != A


def params_of(t):
    ps = []
    while t != A:
        ps.append(t[1])
        t = t[2]
    return ps


def residual(t, k):
    for _ in range(k):
        t = t[2]
    return t


def ty_text(t) -> str:
    if t == A:
        return "A"
    l = ty_text(t[1])
    if is_fun(t[1]):
        l = f"({l})"
    return f"{l} ** {ty_text(t[2])}"


AA = F(A, A)
AAA = F(A, A, A)
FIRST = [AA, AAA, F(A, A, A, A)]
HIGHER = [
    F(AA, A), F(AA, A, A), F(A, AA, A), F(AA, AA, A), F(AA, AA, A, A),
    F(AA, A, AA, A), F(AA, AA, AA, A, A), F(AAA, A, A), F(AAA, A, A, A),
    F(A, AAA, A), F(AA, A, A, A), F(A, AA, A, A), F(AA, AAA, A, A),
    F(A, A, A, AA, A), F(AA, A, A, AA, A), F(A, A, AA, AA, A), F(F(A, A, A, A), A, A),
]
THIRD = [F(F(AA, A), A), F(F(AA, A, A), A, A), F(F(AA, A), AA, A)]


class Lang:
    """A generated language: primitives and composite operators over one base type."""

    def __init__(self, ops):
        # ops: list of dicts {name, type, nbody (0 = primitive), body (term) }
        self.ops = ops
        self.index = {o["name"]: i for i, o in enumerate(ops)}

    def sig(self, name):
        return self.ops[self.index[name]]["type"]

    def to_json(self):
        return {"ops": [{"name": o["name"], "type": ty_text(o["type"]), "type_tree": o["type"],
                         "nbody": o["nbody"], "body": o.get("body")} for o in self.ops]}

    @staticmethod
    def from_json(d) -> "Lang":
        def tt(x):
            return A if x == A else ("F", tt(x[1]), tt(x[2]))

        def term(t):
            if t is None:
                return None
            if t[0] in ("ap", "vap"):
                return (t[0], t[1], [term(a) for a in t[2]])
            return tuple(t)
        return Lang([{"name": o["name"], "type": tt(o["type_tree"]), "nbody": o["nbody"],
                      "body": term(o.get("body"))} for o in d["ops"]])

    # -- instantiate with the real library
    def build(self):
        import transforge.type as T
        import transforge.expr as E
        from transforge.lang import Language
        self.Aop = T.TypeOperator("A")

        def pt(t):
            return self.Aop() if t == A else pt(t[1]) ** pt(t[2])
        self.py = {}
        scope = {"A": self.Aop}
        for o in self.ops:
            if o["nbody"]:
                body = self._make_body(o)
                op = E.Operator(type=pt(o["type"]), body=body)
            else:
                op = E.Operator(type=pt(o["type"]))
            self.py[o["name"]] = op
            scope[o["name"]] = op
        self.language = Language(scope, namespace="https://example.com/#")
        return self.language

    def _make_body(self, o):
        n = o["nbody"]
        term = o["body"]
        names = [f"p{i}" for i in range(n)]

        def run(*vs):
            return self.build_term(term, dict(zip(names, vs)), None)
        # Abstraction.__init__ counts inspect.signature parameters: exact arity needed
        if n == 1:
            return lambda p0: run(p0)
        if n == 2:
            return lambda p0, p1: run(p0, p1)
        if n == 3:
            return lambda p0, p1, p2: run(p0, p1, p2)
        return lambda p0, p1, p2, p3: run(p0, p1, p2, p3)

    def build_term(self, t, env, sources):
        if t[0] == "src":
            return sources[t[1]]
        if t[0] == "var":
            return env[t[1]]
        _, name, args = t
        if t[0] == "vap":
            return env[name](*[self.build_term(a, env, sources) for a in args])
        e = self.py[name].instance()
        if args:
            e = e(*[self.build_term(a, env, sources) for a in args])
        return e


def term_text(t) -> str:
    if t[0] == "src":
        return f"s{t[1]}"
    if t[0] == "var":
        return t[1]
    if not t[2]:
        return t[1]
    return "(" + " ".join([t[1]] + [term_text(a) for a in t[2]]) + ")"


# --------------------------------------------------------------------------
# generators

def gen_term(rng, lang_ops, T, env, depth, nsrc, p_partial=0.5):
    """A term of harness type T over operators lang_ops (list of (name, type)),
    variables env (list of (name, type)) and sources 0..nsrc-1."""
    cands = []
    for v, vt in env:
        if vt == T:
            cands.append(("var", v))
    if T == A and nsrc:
        cands.append(("src", None))
    apps = []
    for name, ot in lang_ops:
        n = len(params_of(ot))
        for k in range(n + 1):
            if residual(ot, k) == T:
                apps.append((name, ot, k))
    vapps = []
    for v, vt in env:
        for k in range(1, len(params_of(vt)) + 1):
            if residual(vt, k) == T:
                vapps.append((v, vt, k))
    leafy = [c for c in cands]
    bare = [(n, t, k) for (n, t, k) in apps if k == 0]
    if depth <= 0:
        pool = leafy + [("op",) + b for b in bare]
        if not pool and depth > -3:
            pool = [("op",) + a for a in sorted(apps, key=lambda a: a[2])[:2]]
    else:
        pool = []
        # weight: applications dominate, leaves keep terms finite
        pool += leafy * 2
        pool += [("op",) + a for a in apps for _ in range(3 if a[2] else 1)]
        pool += [("vop",) + a for a in vapps for _ in range(2)]
    if not pool:
        raise ValueError(f"no term of type {ty_text(T)}")
    c = rng.choice(pool)
    if c[0] == "var":
        return ("var", c[1])
    if c[0] == "src":
        return ("src", rng.randrange(nsrc))
    kind, name, ot, k = c
    ps = params_of(ot)[:k]
    return ("ap" if kind == "op" else "vap", name,
            [gen_term(rng, lang_ops, p, env, depth - 1, nsrc) for p in ps])


def gen_lang(rng, third=False):
    types = [AA, AAA]
    types += rng.sample(FIRST, rng.randint(0, 2))
    types += rng.sample(HIGHER, rng.randint(2, 5))
    if third:
        types += rng.sample(THIRD, rng.randint(1, 2))
    # every function-typed parameter type must be inhabited by a bare operator
    need = []

    def scan(t):
        for p in params_of(t):
            if is_fun(p):
                need.append(p)
                scan(p)
    for t in types:
        scan(t)
    for p in need:
        if p not in types:
            types.append(p)
    ops = []
    for i, t in enumerate(types):
        ops.append({"name": f"f{i}", "type": t, "nbody": 0, "body": None})
    prims = [(o["name"], o["type"]) for o in ops]
    avail = list(prims)
    if rng.random() < 0.4:      # constant functions: K x y = x, partially applied later
        ops.append({"name": "k0", "type": AAA, "nbody": 2, "body": ("var", rng.choice(["p0", "p1"]))})
        avail.append(("k0", AAA))
    for j in range(rng.randint(0, 3)):
        t = rng.choice([AA, AAA, AAA, F(A, A, A, A)] + HIGHER[:6] + ([THIRD[1]] if third else []))
        ps = params_of(t)
        n = len(ps) if rng.random() < 0.7 else rng.randint(1, len(ps))
        env = [(f"p{i}", ps[i]) for i in range(n)]
        try:
            body = gen_term(rng, avail, residual(t, n), env, rng.randint(0, 2), 0)
        except ValueError:
            continue
        name = f"c{j}"
        ops.append({"name": name, "type": t, "nbody": n, "body": body})
        avail.append((name, t))
    return Lang(ops)


# --------------------------------------------------------------------------
# the expression actually handed to add_expr, as a plain tree with identities

def walk(lang: Lang, e, ids: dict, keep: list):
    import transforge.expr as E
    import transforge.type as T

    def oid(x):
        if id(x) not in ids:
            ids[id(x)] = len(ids)
            keep.append(x)
        return ids[id(x)]
    if isinstance(e, E.Source):
        return {"k": "src", "id": oid(e)}
    if isinstance(e, E.Variable):
        return {"k": "var", "id": oid(e)}
    if isinstance(e, E.Operation):
        return {"k": "op", "id": oid(e), "op": e.operator.name}
    if isinstance(e, E.Abstraction):
        return {"k": "abs", "id": oid(e), "ps": [oid(p) for p in e.params],
                "b": walk(lang, e.body, ids, keep)}
    assert isinstance(e, E.Application), type(e)
    xt = e.x.type.follow()      # graph.py decides on the followed type (a4e52c5)
    fn_impl = isinstance(xt, T.TypeOperation) and xt.operator == T.Function
    return {"k": "app", "id": oid(e), "f": walk(lang, e.f, ids, keep),
            "x": walk(lang, e.x, ids, keep), "fn_impl": bool(fn_impl)}


def annotate(lang: Lang, w, venv=None):
    """Harness-side typing: set w['fn'] on every application from the DECLARED
    parameter type of the applied operator; returns the harness type or None."""
    venv = venv or {}
    k = w["k"]
    if k == "src":
        return A
    if k == "var":
        return venv.get(w["id"])
    if k == "op":
        return lang.sig(w["op"])
    if k == "abs":      # only reached for an abstraction that is not an argument (malformed)
        env2 = dict(venv)
        for p in w["ps"]:
            env2[p] = None
        annotate(lang, w["b"], env2)
        return None
    ft = annotate(lang, w["f"], venv)
    pt = ft[1] if (ft is not None and ft != A) else None
    x = w["x"]
    if x["k"] == "abs":
        env2 = dict(venv)
        pts = params_of(pt) if pt is not None else []
        for i, p in enumerate(x["ps"]):
            env2[p] = pts[i] if i < len(pts) else None
        bt = annotate(lang, x["b"], env2)
        w["fn"] = True if pt is None else is_fun(pt)
        if pt is not None and (len(pts) < len(x["ps"]) or
                (bt is not None and bt != residual(pt, len(x["ps"])))):
            w["illtyped"] = True
    elif x["k"] == "var":
        # a parameter handed on as an argument: function-typed iff the declared parameter
        # type of the receiving operator (equivalently the parameter's own type) is
        xt = venv.get(x["id"])
        w["fn"] = is_fun(pt) if pt is not None else (is_fun(xt) if xt is not None else w["fn_impl"])
        if pt is not None and xt is not None and pt != xt:
            w["illtyped"] = True
    else:
        xt = annotate(lang, x, venv)
        w["fn"] = is_fun(pt) if pt is not None else (is_fun(xt) if xt is not None else w["fn_impl"])
        if pt is not None and xt is not None and pt != xt:
            # the argument does not have the declared parameter type: the expression was
            # damaged by expansion (destructive beta-reduction, property C15), not C08's matter
            w["illtyped"] = True
    return ft[2] if (ft is not None and ft != A) else None


def spine(w):
    args = []
    while w["k"] == "app":
        args.append((w["x"], w["fn"]))
        w = w["f"]
    args.reverse()
    return w, args


def in_domain(w, bound=frozenset()) -> bool:
    """The expressions the property (and the Coq theorem, wfp) speak about:
    every application spine is headed by an operation; function-typed arguments
    are operations / partial applications, abstractions or parameters in scope;
    data arguments are
    sources, bound parameters or applications; parameters are in scope."""
    k = w["k"]
    if k == "src":
        return True
    if k == "var":
        return w["id"] in bound
    if k == "abs":
        return False
    head, args = spine(w)
    if head["k"] != "op":
        return False
    for x, fn in args:
        if fn:
            if x["k"] == "abs":
                if set(x["ps"]) & bound:
                    return False
                if not in_domain(x["b"], bound | set(x["ps"])):
                    return False
            elif x["k"] in ("op", "app", "var"):
                # var: a function-typed parameter in scope handed on as an argument
                if not in_domain(x, bound):
                    return False
            else:
                return False
        else:
            if x["k"] == "abs" or not in_domain(x, bound):
                return False
    return True


def wexpr_text(w) -> str:
    k = w["k"]
    if k == "src":
        return f"s{w['id']}"
    if k == "var":
        return f"x{w['id']}"
    if k == "op":
        return w["op"]
    if k == "abs":
        return "(λ" + " ".join(f"x{p}" for p in w["ps"]) + ". " + wexpr_text(w["b"]) + ")"
    head, args = spine(w)
    return "(" + " ".join([wexpr_text(head)] + [wexpr_text(x) for x, _ in args]) + ")"


def stats(w, acc: Counter, depth=0):
    k = w["k"]
    acc["nodes"] += 1
    acc["depth"] = max(acc["depth"], depth)
    if k == "abs":
        acc["abstractions"] += 1
        if w["b"]["k"] in ("var", "src"):
            acc["abs_leaf_body"] += 1
        stats(w["b"], acc, depth + 1)
    elif k == "app":
        head, args = spine(w)
        nfn = sum(1 for _, fn in args if fn)
        acc["spines"] += 1
        acc["fun_args"] += nfn
        acc["max_fun_args_on_one_step"] = max(acc["max_fun_args_on_one_step"], nfn)
        if nfn and depth_flag(w):
            acc["nested_internal"] += 1
        stats(head, acc, depth + 1)
        for x, fn in args:
            if fn and x["k"] == "app":
                acc["partial_app_args"] += 1
            stats(x, acc, depth + 1)
    elif k == "src":
        acc["source_uses"] += 1


def depth_flag(w) -> bool:
    """some function-typed argument of this spine itself has function-typed arguments"""
    _, args = spine(w)
    for x, fn in args:
        if fn:
            y = x["b"] if x["k"] == "abs" else x
            if y["k"] == "app" and any(f2 for _, f2 in spine(y)[1]):
                return True
    return False


# --------------------------------------------------------------------------
# the independently built graph (the property, literally)

def flow(w):
    """Return (result node, set of triples) with nodes named by tree position.
    Written from the property text; does not look at graph.py's algorithm:
    * one node per operator application (spine), edge to the node of each argument
    * one shared node per source object
    * per function-typed argument exactly one internal node attached to the
      receiving step; it feeds the passed operation (or stands for the
      abstraction's parameters); receives every other input of the receiving
      step, outputs of sibling passed operations included; internal nodes of
      the passed operation's own step are fed by it."""
    out = set()
    internals = {}

    def go(w, path, env):
        k = w["k"]
        if k == "src":
            return ("S", w["id"])
        if k == "var":
            return env[w["id"]]
        head, args = spine(w)
        c = ("N",) + path
        out.add((c, "via", head["op"]))
        ns, ints = [], []
        for i, (x, fn) in enumerate(args):
            if not fn:
                n = go(x, path + (i,), env)
                it = None
            else:
                it = ("I",) + path + (i,)
                out.add((c, "internal", it))
                if x["k"] == "abs":
                    env2 = dict(env)
                    for p in x["ps"]:
                        env2[p] = it
                    n = go(x["b"], path + (i,), env2)
                else:
                    n = go(x, path + (i,), env)
                    out.add((n, "from", it))
                for j in internals.get(n, ()):
                    out.add((j, "from", it))
            out.add((c, "from", n))
            ns.append(n)
            ints.append(it)
        for i, it in enumerate(ints):
            if it is not None:
                for j, n in enumerate(ns):
                    if j != i:
                        out.add((it, "from", n))
        internals[c] = [it for it in ints if it is not None]
        return c
    r = go(w, (), {})
    return r, out


# --------------------------------------------------------------------------
# implementation run

_RUNS = {"n": 0}


def impl_graph(lang: Lang, expr):
    """from/internal/via triples of TransformationGraph.add_expr + returned node."""
    from rdflib import BNode
    from transforge.graph import TransformationGraph
    from transforge.namespace import TF
    # the data-flow triples do not depend on what else the graph records: every other
    # run also records tf:depends (add_from then maintains the closure alongside)
    _RUNS["n"] += 1
    g = TransformationGraph(lang.language, minimal=True, with_operators=True,
        with_dependencies=_RUNS["n"] % 2 == 0)
    root = BNode()
    r = g.add_expr(expr, root)
    ns = lang.language.namespace
    out = set()
    for s, o in g.subject_objects(TF["from"]):
        out.add((s, "from", o))
    for s, o in g.subject_objects(TF.internal):
        out.add((s, "internal", o))
    inv = {ns[o["name"]]: o["name"] for o in lang.ops}
    for s, o in g.subject_objects(TF.via):
        out.add((s, "via", inv.get(o, str(o))))
    return r, out


def _adjacency(obs, tag):
    """nodes and labelled adjacency of one observation; node keys are (tag, name)"""
    r, ts = obs
    nodes = {}
    adj = {}

    def nd(x):
        k = (tag, x)
        if k not in nodes:
            nodes[k] = ["n", ""]
            adj[k] = []
        return k
    nd(r)
    nodes[(tag, r)][0] = "r"
    for s, p, o in ts:
        if p == "via":
            nodes[nd(s)][1] += "|" + str(o)
        else:
            a, b = nd(s), nd(o)
            adj[a].append((p + ">", b))
            adj[b].append((p + "<", a))
    return {k: tuple(v) for k, v in nodes.items()}, adj


def _refine(col, adj):
    """colour refinement to a stable partition; colours are small ints obtained by
    ranking signatures, computed over both graphs together so they stay comparable"""
    while True:
        sig = {n: (col[n], tuple(sorted((lab, col[m]) for lab, m in adj[n]))) for n in col}
        rank = {s: i for i, s in enumerate(sorted(set(sig.values())))}
        new = {n: rank[sig[n]] for n in col}
        if len(set(new.values())) == len(set(col.values())):
            return new
        col = new


def iso(o1, o2) -> bool:
    """Are two (result node, triples) observations equal up to renaming of nodes?
    (colour refinement + individualisation with backtracking; rdflib.compare is
    not used because its canonicalisation does not terminate in reasonable time
    on graphs with repeated identical sub-expressions)"""
    if len(o1[1]) != len(o2[1]):
        return False
    if Counter(p for _, p, _ in o1[1]) != Counter(p for _, p, _ in o2[1]):
        return False
    n1, a1 = _adjacency(o1, 0)
    n2, a2 = _adjacency(o2, 1)
    if len(n1) != len(n2):
        return False
    adj = dict(a1)
    adj.update(a2)
    init = dict(n1)
    init.update(n2)
    rank = {s: i for i, s in enumerate(sorted(set(init.values())))}
    col0 = {n: rank[init[n]] for n in init}
    budget = [20000]

    def search(col):
        budget[0] -= 1
        if budget[0] < 0:
            raise RuntimeError("isomorphism search budget exhausted")
        col = _refine(col, adj)
        cls = {}
        for n, c in col.items():
            cls.setdefault(c, [[], []])[n[0]].append(n)
        for c, (l, r) in cls.items():
            if len(l) != len(r):
                return False
        multi = [(len(l), c) for c, (l, r) in cls.items() if len(l) > 1]
        if not multi:
            # discrete: the colouring is the bijection; check edges exactly
            m = {cls[c][0][0]: cls[c][1][0] for c in cls}
            e1 = Counter((a, lab, b) for a in a1 for lab, b in a1[a])
            e2 = Counter((a, lab, b) for a in a2 for lab, b in a2[a])
            return Counter((m[a], lab, m[b]) for (a, lab, b) in e1.elements()) == e2 and \
                all(n1[a] == n2[m[a]] for a in n1)
        _, c = min(multi)
        x = cls[c][0][0]
        top = max(col.values()) + 1
        for y in cls[c][1]:
            col2 = dict(col)
            col2[x] = top
            col2[y] = top
            if search(col2):
                return True
        return False
    return search(col0)


def summary(obs):
    r, ts = obs
    names = {}

    def nm(x):
        if x not in names:
            names[x] = f"n{len(names)}"
        return names[x]
    nm(r)
    deg = Counter()
    for s, p, o in ts:
        deg[p] += 1
    return {"counts": dict(deg), "nodes": len({s for s, _, _ in ts} | {o for _, p, o in ts if p != "via"})}


def listing(obs):
    """Readable listing with nodes numbered by first appearance in a sorted walk
    (for replay files only; not used for comparison)."""
    r, ts = obs
    via = {s: o for s, p, o in ts if p == "via"}
    names = {}

    def nm(x):
        if x not in names:
            names[x] = (f"{via[x]}#{len(names)}" if x in via else f"n{len(names)}")
        return names[x]
    nm(r)
    rows = sorted((str(via.get(s, "")), p, str(via.get(o, "")) if p != "via" else str(o), s, o) for s, p, o in ts)
    return ["result " + nm(r)] + [f"{nm(s)} {p} {o if p == 'via' else nm(o)}" for _, p, _, s, o in rows]


# --------------------------------------------------------------------------
# Coq side

HDR = """From Coq Require Import List Arith Bool.
Import ListNotations.
From TF Require Import Graph.AddExpr Graph.AddExprSpec Graph.AddExprProofs Graph.AddExprParams.
Definition run (pinned : bool) (e : expr) : option (node * list triple) :=
  match add_expr add_from_plain pinned e None g_empty with
  | Some (n, st) => Some (n, g_tr st)
  | None => None
  end.
Definition dom (e : expr) : nat := Nat.b2n (wfp [] e).
"""


def coq_expr(w) -> str:
    k = w["k"]
    if k == "src":
        return f"(ESrc {w['id']})"
    if k == "var":
        return f"(EVar {w['id']})"
    if k == "op":
        return f"(EOp {w['id']} {w['opi']})"
    if k == "abs":
        return f"(EAbs {w['id']} {C.coq_list(w['ps'])} {coq_expr(w['b'])})"
    return f"(EApp {w['id']} {coq_expr(w['f'])} {coq_expr(w['x'])} {'true' if w['fn'] else 'false'})"


def set_opi(lang: Lang, w):
    k = w["k"]
    if k == "op":
        w["opi"] = lang.index[w["op"]]
    elif k == "abs":
        set_opi(lang, w["b"])
    elif k == "app":
        set_opi(lang, w["f"])
        set_opi(lang, w["x"])


def model_obs(lang: Lang, val):
    if val is None:
        return None
    n, ts = val
    P = {0: "from", 1: "internal", 2: "via"}
    out = set()
    for s, p, o in ts:
        out.add((s, P[p], lang.ops[o]["name"] if p == 2 else o))
    return n, out


def term_from_json(t):
    if t[0] in ("ap", "vap"):
        return (t[0], t[1], [term_from_json(a) for a in t[2]])
    return tuple(t)


# --------------------------------------------------------------------------
# fixed cases: the shapes pinned by the test-suite, the Coq witness, argument-order pairs

def fixed_lang() -> Lang:
    ops = [
        {"name": "f", "type": AA, "nbody": 0, "body": None},
        {"name": "g", "type": AAA, "nbody": 0, "body": None},
        {"name": "h1", "type": F(AA, A), "nbody": 0, "body": None},
        {"name": "h", "type": F(AA, A, A), "nbody": 0, "body": None},
        {"name": "hr", "type": F(A, AA, A), "nbody": 0, "body": None},
        {"name": "h2", "type": F(AAA, A, A, A), "nbody": 0, "body": None},
        {"name": "h3", "type": F(AA, AA, AA, A, A), "nbody": 0, "body": None},
        {"name": "hh", "type": F(AA, AA, A), "nbody": 0, "body": None},
        {"name": "inner", "type": F(AA, A, A, A), "nbody": 0, "body": None},
        {"name": "ff", "type": AA, "nbody": 1, "body": ("ap", "f", [("ap", "f", [("var", "p0")])])},
        {"name": "gg", "type": AAA, "nbody": 2,
         "body": ("ap", "g", [("var", "p1"), ("ap", "g", [("var", "p0"), ("var", "p1")])])},
        {"name": "ident", "type": AA, "nbody": 1, "body": ("var", "p0")},
        {"name": "eta", "type": AA, "nbody": 1, "body": ("ap", "f", [("var", "p0")])},
        {"name": "g1", "type": AAA, "nbody": 1, "body": ("ap", "g", [("var", "p0")])},
        {"name": "K", "type": AAA, "nbody": 2, "body": ("var", "p0")},
        {"name": "twice", "type": F(AA, A, A), "nbody": 2,
         "body": ("vap", "p0", [("vap", "p0", [("var", "p1")])])},
        # capp k a = h (k f) a : after expansion the argument (k f) carries a type VARIABLE
        # bound to A ** A (it was typed while k was still a parameter)
        {"name": "capp", "type": F(F(AA, A, A), A, A), "nbody": 2,
         "body": ("ap", "h", [("vap", "p0", [("ap", "f", [])]), ("var", "p1")])},
        {"name": "h9", "type": F(F(AA, A), A), "nbody": 0, "body": None},
        # pass k = \g. h1 g : the function-typed parameter g is handed on as an argument
        {"name": "fwd", "type": F(AA, A), "nbody": 1, "body": ("ap", "h1", [("var", "p0")])},
    ]
    return Lang(ops)


S0, S1 = ("src", 0), ("src", 1)


def ap(name, *args):
    return ("ap", name, list(args))


FIXED_TERMS = [
    ("test_basic", ap("f", S0)),
    ("test_operation_as_sole_parameter", ap("h1", ap("f"))),
    ("test_operation_as_parameter", ap("h", ap("f"), S0)),
    ("test_abstraction_as_parameter", ap("h", ap("ff"), S0)),
    ("test_complex_abstraction_as_parameter", ap("h2", ap("gg"), S0, S1)),
    ("test_empty_abstraction_as_parameter", ap("h1", ap("ident"))),
    ("test_abstraction_same_as_primitive", ap("h1", ap("eta"))),
    ("test_cycle", ap("h3", ap("f"), ap("ff"), ap("eta"), S0)),
    ("test_nested_operation_as_parameter", ap("h", ap("inner", ap("f"), S0), S1)),
    ("test_function_abstraction_body", ap("h2", ap("g1"), S0)),
    ("shared_source", ap("g", ap("f", S0), ap("g", S0, S0))),
    ("coq_witness_const_after", ap("hr", S0, ap("K", S0))),        # C08_pinned_refuted
    ("const_before", ap("h", ap("K", S0), S0)),
    ("const_siblings", ap("hh", ap("K", S0), ap("K", S0))),
    ("const_other_source", ap("hr", S0, ap("K", S1))),
    ("twice_reduced", ap("twice", ap("f"), S0)),
    ("function_argument_typed_by_bound_variable", ap("capp", ap("h"), S0)),
    ("function_parameter_handed_on", ap("h9", ap("fwd"))),
    ("nested_three", ap("h3", ap("inner", ap("f"), S0), ap("g", S1), ap("K", S1), ap("h", ap("ff"), S0))),
]


def enum_terms(lang_ops, T, depth, nsrc, cache):
    """all terms of type T over operators lang_ops with nesting <= depth"""
    key = (T, depth)
    if key in cache:
        return cache[key]
    out = []
    if T == A:
        out += [("src", i) for i in range(nsrc)]
    for name, ot in lang_ops:
        n = len(params_of(ot))
        for k in range(n + 1):
            if residual(ot, k) != T:
                continue
            if k == 0:
                out.append(("ap", name, []))
            elif depth > 0:
                import itertools
                parts = [enum_terms(lang_ops, p, depth - 1, nsrc, cache) for p in params_of(ot)[:k]]
                for combo in itertools.product(*parts):
                    out.append(("ap", name, list(combo)))
    cache[key] = out
    return out


# --------------------------------------------------------------------------
# one case: build, run, observe

class Case:
    __slots__ = ("lang", "term", "nsrc", "name", "w", "impl", "impl_error", "dom", "text", "keep", "deps")

    def __init__(self, lang, term, nsrc, name):
        self.lang, self.term, self.nsrc, self.name = lang, term, nsrc, name

    def payload(self):
        return {"language": self.lang.to_json(), "term": self.term, "term_text": term_text(self.term),
                "nsrc": self.nsrc, "name": self.name, "with_dependencies": getattr(self, "deps", None),
                "how_to_rebuild": "operators as listed (composite ones with the given body over parameters p0..), "
                                  "one Source(A) per s<k>; build the term by calling the operators, then .primitive(); "
                                  "TransformationGraph(lang, minimal=True, with_operators=True[, with_dependencies=True]).add_expr(expr, BNode())"}


def run_impl(case: Case) -> str | None:
    """Build the expression with the real library and run add_expr.  Returns None, or the
    reason why the case is not used (the expression cannot be built / is too large / is
    ill-typed after expansion: none of them a C08 matter)."""
    import transforge.expr as E
    lang = case.lang
    srcs = [E.Source(lang.Aop()) for _ in range(case.nsrc)]
    try:
        e = lang.build_term(case.term, {}, srcs).primitive()
    except Exception:
        return "not_buildable"
    ids, keep = {}, []
    w = walk(lang, e, ids, keep)
    annotate(lang, w)
    set_opi(lang, w)
    case.w, case.keep = w, keep
    acc = Counter()
    stats(w, acc)
    if acc["nodes"] > MAX_NODES:
        return "too_large"
    if ill_typed(w):
        return "ill_typed_after_expansion_C15"
    case.text = wexpr_text(w)
    case.dom = in_domain(w)
    case.impl, case.impl_error = None, None
    case.deps = (_RUNS["n"] + 1) % 2 == 0
    try:
        case.impl = impl_graph(lang, e)
    except AssertionError as ex:
        case.impl_error = "AssertionError"
    except Exception as ex:        # noqa: BLE001 - any other exception is itself an observation
        case.impl_error = type(ex).__name__
    return None


def ill_typed(w) -> bool:
    k = w["k"]
    if k == "app":
        return bool(w.get("illtyped")) or ill_typed(w["f"]) or ill_typed(w["x"])
    if k == "abs":
        return ill_typed(w["b"])
    return False


def fn_mismatch(w) -> bool:
    k = w["k"]
    if k == "app":
        return (w["fn"] != w["fn_impl"]) or fn_mismatch(w["f"]) or fn_mismatch(w["x"])
    if k == "abs":
        return fn_mismatch(w["b"])
    return False


OBS_HDR = HDR + """
(* model of the pinned code; model of the repaired code; in the theorem's domain?;
   the declarative graph flow (label0 e) *)
Definition obs (e : expr) :=
  (run true e, run false e, dom e, (lnode (label0 e), flow (label0 e))).
"""

MAX_NODES = 160     # larger expressions are skipped (cost of evaluating the model inside Coq)


def evaluate(rep: C.Report, cases: list, tag: str, stats_acc: Counter, distinct: set, samples: list):
    """correspondence + oracle over built cases"""
    blocks = [(f"Eval vm_compute in obs {coq_expr(c.w)}.\n", 1) for c in cases]
    outs = C.coq_eval_blocks(f"C08_{tag}", OBS_HDR, blocks, nfiles=4)
    nviol = 0
    for c, vals in zip(cases, outs):
        mp_raw, mf_raw, dom, fl_raw = vals[0]
        mp = model_obs(c.lang, mp_raw)
        mf = model_obs(c.lang, mf_raw)
        flowok = mf is not None and model_obs(c.lang, fl_raw) == mf
        stats_acc["evaluations"] += 1
        stats_acc["in_domain" if c.dom else "out_of_domain"] += 1
        if bool(dom) != c.dom:
            rep.violation(f"domain_{tag}_{stats_acc['evaluations']}", dict(c.payload(), kind="harness",
                what="in_domain (harness) and wfb (Coq) disagree", expr=c.text), has_input=False)
        # --- which model explains the implementation?
        if c.impl is None:
            agrees_fixed = mf is None
            agrees_pinned = mp is None
        else:
            agrees_fixed = mf is not None and iso(c.impl, mf)
            agrees_pinned = mp is not None and iso(c.impl, mp)
        sig = SIG_CONST if (agrees_pinned and not agrees_fixed) else None
        base = dict(c.payload(), expr=c.text, in_domain=c.dom,
            impl=listing(c.impl) if c.impl else c.impl_error,
            model=listing(mf) if mf else None,
            impl_agrees_with_model_of_pinned_code=agrees_pinned)
        if c.impl is None:
            stats_acc["impl_errors"] += 1
        if c.dom:
            stats(c.w, stats_acc)
            nfn = 0
            acc1 = Counter()
            stats(c.w, acc1)
            if acc1["fun_args"]:
                distinct.add((json.dumps(c.lang.to_json()["ops"], sort_keys=True), c.text))
                stats_acc["higher_order_cases"] += 1
            else:
                stats_acc["first_order_cases"] += 1
            # --- oracle: the property, evaluated on the implementation
            spec = flow(c.w)
            if c.impl is None:
                ok = False
                what = f"add_expr raised {c.impl_error} on a well-formed expression"
            else:
                ok = iso(c.impl, spec)
                what = ("from/internal/via triples differ from the independently built data-flow graph "
                        "(application tree + internal nodes per the property)")
            if not ok:
                nviol += 1
                if nviol <= 6 or (sig is None and nviol <= 12):
                    rep.violation(f"oracle_{tag}_{stats_acc['evaluations']}", dict(base, kind="oracle", what=what,
                        expected=listing(spec), impl_counts=summary(c.impl) if c.impl else None,
                        expected_counts=summary(spec)), has_input=True, signature=sig)
                elif sig is not None and rep.known(sig) is not None:
                    rep.violation("known", {}, signature=sig)
            # spec side consistency (Coq flow = repaired model, repaired model = Python oracle)
            if not flowok or mf is None or not iso(mf, spec):
                rep.violation(f"spec_{tag}_{stats_acc['evaluations']}", dict(base, kind="harness",
                    what="Coq flow(label0 e), the repaired model and the Python oracle are not the same graph",
                    expected=listing(spec)), has_input=False)
            if fn_mismatch(c.w):
                rep.violation(f"fntype_{tag}_{stats_acc['evaluations']}", dict(base, kind="correspondence",
                    what="expr.x.type is (not) a Function type where the declared parameter type says otherwise"),
                    has_input=False)
            if len(samples) < 4 and acc1["fun_args"] >= 2 and c.impl is not None:
                samples.append({"language": [(o["name"], ty_text(o["type"])) for o in c.lang.ops],
                    "expr": c.text, "impl": listing(c.impl), "model": listing(mf) if mf else None})
        # --- correspondence K_C08: implementation vs the (repaired) model
        if not agrees_fixed:
            stats_acc["disagreements"] += 1
            if (not c.dom or sig is None) and stats_acc["disagreements"] <= 12:
                rep.violation(f"disagree_{tag}_{stats_acc['evaluations']}", dict(base, kind="correspondence",
                    what="TransformationGraph.add_expr differs from the model add_expr (K_C08)"),
                    has_input=False, signature=sig)


def build_cases(lang: Lang, items, out: list, skipped: Counter):
    lang.build()
    for name, term, nsrc in items:
        c = Case(lang, term, nsrc, name)
        why = run_impl(c)
        if why is None:
            out.append(c)
        else:
            skipped[why] += 1


def main(tier: str, seed: int, replay: str | None = None) -> int:
    C.force_repo_on_path()
    rep = C.Report(PID, tier, seed)
    if replay:
        return do_replay(rep, replay)
    rep.proof_stage()
    rng = random.Random(seed)
    cases: list = []
    skipped = Counter()
    # 1. fixed cases (test-suite shapes, Coq witness, argument-order pairs)
    build_cases(fixed_lang(), [(n, t, 2) for n, t in FIXED_TERMS], cases, skipped)
    nfixed = len(cases)
    # 2. random languages and expressions
    nlang, per = (80, 10) if tier == "quick" else (1000, 10)
    for _ in range(nlang):
        lang = gen_lang(rng, third=(rng.random() < 0.15))
        ops = [(o["name"], o["type"]) for o in lang.ops]
        items = []
        for i in range(per):
            nsrc = rng.randint(1, 3)
            T = A if rng.random() < 0.85 else rng.choice([AA, AAA])
            try:
                term = gen_term(rng, ops, T, [], rng.randint(1, 4), nsrc)
            except ValueError:
                skipped["no_term"] += 1
                continue
            items.append((f"random", term, nsrc))
        build_cases(lang, items, cases, skipped)
    nrandom = len(cases) - nfixed
    # 3. thorough: exhaustive over a fixed operator set
    nexh = 0
    if tier == "thorough":
        lang = fixed_lang()
        sub = [o for o in lang.ops if o["name"] in ("f", "g", "h", "hr", "hh", "ff", "ident", "K")]
        small = Lang(sub)
        ops = [(o["name"], o["type"]) for o in small.ops]
        cache = {}
        terms = enum_terms(ops, A, 2, 2, cache)
        if len(terms) > 2500:
            terms = rng.sample(terms, 2500)
        build_cases(small, [("exhaustive", t, 2) for t in terms], cases, skipped)
        nexh = len(cases) - nfixed - nrandom
    acc, distinct, samples = Counter(), set(), []
    shard = 1500
    for k in range(0, len(cases), shard):
        evaluate(rep, cases[k:k + shard], f"{tier}_{k // shard}", acc, distinct, samples)
    maxes = {k: acc[k] for k in ("depth", "max_fun_args_on_one_step")}
    rep.coverage.update({
        "evaluations": acc["evaluations"],
        "distinct_nontrivial": len(distinct),
        "disagreements": acc["disagreements"],
        "rule": "random languages over one base type (2-9 primitive operators of order <= 2, 15% with third-order "
                "ones, 0-4 composite operators with random bodies incl. constant functions) and random well-typed "
                "expressions to depth 4 built through the public API and expanded with .primitive(); "
                f"{nfixed} fixed cases (the test-suite's shapes, the Coq witness, argument-order pairs)"
                + (f"; {nexh} exhaustive terms of nesting <= 2 over a fixed set of 8 operators and 2 sources" if nexh else "")
                + "; non-trivial = in the theorem's domain (wfb) and with at least one function-typed argument, "
                  "distinct by language and expression; whether an argument is a function is computed by the harness "
                  "from the DECLARED parameter type and cross-checked against the followed expr.x.type",
        "samples": samples,
        "distribution": {
            "fixed": nfixed, "random": nrandom, "exhaustive": nexh,
            "in_domain": acc["in_domain"], "out_of_domain_model_only": acc["out_of_domain"],
            "implementation_raised": acc["impl_errors"],
            "first_order_cases": acc["first_order_cases"], "higher_order_cases": acc["higher_order_cases"],
            "application_steps": acc["spines"], "function_typed_arguments": acc["fun_args"],
            "partial_applications_passed": acc["partial_app_args"], "abstractions_passed": acc["abstractions"],
            "abstractions_with_leaf_body": acc["abs_leaf_body"],
            "steps_whose_function_argument_has_internals_itself": acc["nested_internal"],
            "source_uses": acc["source_uses"], "max_expression_depth": maxes["depth"],
            "max_function_arguments_on_one_step": maxes["max_fun_args_on_one_step"],
            "skipped": dict(skipped)},
        "exhaustive": False})
    rep.assumptions = [
        "domain of the theorem and of the oracle (wfp): every application is headed by an operation, "
        "function-typed arguments are operations / partial applications / abstractions / parameters in scope "
        "(function-typedness decided on the followed type, as graph.py does since a4e52c5); other shapes "
        "(a parameter applied as a function inside a residual abstraction) are only compared with the model",
        "expressions that are ill-typed after expansion (one Abstraction object both applied and passed: "
        "destructive beta-reduction, C15) are not used",
        "add_from adds (a, from, b) and otherwise only tf:depends triples (add_from_ok); tf:depends is C09's",
        "rdflib's objects() iterates over a snapshot (memory store: list(dict.keys()))",
        "agreement between model and implementation is tested on the generated cases, not proved",
    ]
    return rep.finish(C.TRUSTED)


def do_replay(rep: C.Report, path: str) -> int:
    d = json.loads(open(path).read())
    lang = Lang.from_json(d["language"])
    case = Case(lang, term_from_json(d["term"]), d.get("nsrc", 2), d.get("name", "replay"))
    lang.build()
    _RUNS["n"] = 1 if d.get("with_dependencies") else 0      # the run under replay uses the recorded flag
    why = run_impl(case)
    if why is not None:
        print(f"replay: case not usable ({why}): {d.get('term_text')}")
        return 2
    print(f"replay: {case.text}   in_domain={case.dom}")
    if not case.dom:
        print("replay: outside the property's domain; nothing to decide")
        return 0
    spec = flow(case.w)
    ok = case.impl is not None and iso(case.impl, spec)
    for line in (listing(case.impl) if case.impl else [str(case.impl_error)]):
        print("  impl     ", line)
    for line in listing(spec):
        print("  expected ", line)
    if not ok:
        rep.violation("replayed", dict(case.payload(), kind="oracle", expr=case.text,
            impl=listing(case.impl) if case.impl else case.impl_error, expected=listing(spec),
            what="replayed input still violates the property"), has_input=True,
            signature=d.get("signature"))
    # a replay decides one input; it does not rewrite the evidence of the full run
    for msg in rep.known_hits:
        print(f"KNOWN-FINDING: property={PID} {msg}")
    if rep.violations:
        print(f"VIOLATION property={PID} replay={rep.violations[0][0]}")
        return 1
    print(f"OK property={PID} replay={path} (input no longer violates the property)"
          if ok else f"OK property={PID} replay={path} (listed known finding)")
    return 0
