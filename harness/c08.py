"""C08  The from-edges reproduce the expression's data flow, including internal steps.

proof stage     coq/props/C08.v (add_expr model = declarative flow graph, for all
                well-formed expressions of any depth; first-order corollary)
correspondence  TransformationGraph.add_expr of /repo vs the Gallina model add_expr
                on generated first- and higher-order expressions (from/internal/via
                triples and the returned node, compared up to blank-node renaming)
oracle          an independently built graph (application tree + internal nodes,
                written from the property text, path-named nodes) must be isomorphic
                to the implementation's from/internal/via triples
"""
from __future__ import annotations

import json
import random
from collections import Counter

from . import common as C

PID = "C08"
SIG_CONST = "internal-node-misses-earlier-input-equal-to-function-result"

# --------------------------------------------------------------------------
# harness-side types: 'A' | ('F', a, b)

A = "A"


def F(*ts):
    r = ts[-1]
    for t in reversed(ts[:-1]):
        r = ("F", t, r)
    return r


def is_fun(t) -> bool:
    return t != A


def params_of(t):
    ps = []
    while t != A:
        ps.append(t[1])
        t = t[2]
    return ps


def residual(t, k):
    for _ in range(k):
        t = t[2]
    return t


def ty_text(t) -> str:
    if t == A:
        return "A"
    l = ty_text(t[1])
    if is_fun(t[1]):
        l = f"({l})"
    return f"{l} ** {ty_text(t[2])}"


AA = F(A, A)
AAA = F(A, A, A)
FIRST = [AA, AAA, F(A, A, A, A)]
HIGHER = [
    F(AA, A), F(AA, A, A), F(A, AA, A), F(AA, AA, A), F(AA, AA, A, A),
    F(AA, A, AA, A), F(AA, AA, AA, A, A), F(AAA, A, A), F(AAA, A, A, A),
    F(A, AAA, A), F(AA, A, A, A), F(A, AA, A, A), F(AA, AAA, A, A),
]
THIRD = [F(F(AA, A), A), F(F(AA, A, A), A, A), F(F(AA, A), AA, A)]


class Lang:
    """A generated language: primitives and composite operators over one base type."""

    def __init__(self, ops):
        # ops: list of dicts {name, type, nbody (0 = primitive), body (term) }
        self.ops = ops
        self.index = {o["name"]: i for i, o in enumerate(ops)}

    def sig(self, name):
        return self.ops[self.index[name]]["type"]

    def to_json(self):
        return {"ops": [{"name": o["name"], "type": ty_text(o["type"]), "type_tree": o["type"],
                         "nbody": o["nbody"], "body": o.get("body")} for o in self.ops]}

    @staticmethod
    def from_json(d) -> "Lang":
        def tt(x):
            return A if x == A else ("F", tt(x[1]), tt(x[2]))

        def term(t):
            if t is None:
                return None
            if t[0] == "ap":
                return ("ap", t[1], [term(a) for a in t[2]])
            return tuple(t)
        return Lang([{"name": o["name"], "type": tt(o["type_tree"]), "nbody": o["nbody"],
                      "body": term(o.get("body"))} for o in d["ops"]])

    # -- instantiate with the real library
    def build(self):
        import transforge.type as T
        import transforge.expr as E
        from transforge.lang import Language
        self.Aop = T.TypeOperator("A")

        def pt(t):
            return self.Aop() if t == A else pt(t[1]) ** pt(t[2])
        self.py = {}
        scope = {"A": self.Aop}
        for o in self.ops:
            if o["nbody"]:
                body = self._make_body(o)
                op = E.Operator(type=pt(o["type"]), body=body)
            else:
                op = E.Operator(type=pt(o["type"]))
            self.py[o["name"]] = op
            scope[o["name"]] = op
        self.language = Language(scope, namespace="https://example.com/#")
        return self.language

    def _make_body(self, o):
        n = o["nbody"]
        term = o["body"]
        names = [f"p{i}" for i in range(n)]

        def run(*vs):
            return self.build_term(term, dict(zip(names, vs)), None)
        # Abstraction.__init__ counts inspect.signature parameters: exact arity needed
        if n == 1:
            return lambda p0: run(p0)
        if n == 2:
            return lambda p0, p1: run(p0, p1)
        if n == 3:
            return lambda p0, p1, p2: run(p0, p1, p2)
        return lambda p0, p1, p2, p3: run(p0, p1, p2, p3)

    def build_term(self, t, env, sources):
        if t[0] == "src":
            return sources[t[1]]
        if t[0] == "var":
            return env[t[1]]
        _, name, args = t
        e = self.py[name].instance()
        if args:
            e = e(*[self.build_term(a, env, sources) for a in args])
        return e


def term_text(t) -> str:
    if t[0] == "src":
        return f"s{t[1]}"
    if t[0] == "var":
        return t[1]
    if not t[2]:
        return t[1]
    return "(" + " ".join([t[1]] + [term_text(a) for a in t[2]]) + ")"


# --------------------------------------------------------------------------
# generators

def gen_term(rng, lang_ops, T, env, depth, nsrc, p_partial=0.5):
    """A term of harness type T over operators lang_ops (list of (name, type)),
    variables env (list of (name, type)) and sources 0..nsrc-1."""
    cands = []
    for v, vt in env:
        if vt == T:
            cands.append(("var", v))
    if T == A and nsrc:
        cands.append(("src", None))
    apps = []
    for name, ot in lang_ops:
        n = len(params_of(ot))
        for k in range(n + 1):
            if residual(ot, k) == T:
                apps.append((name, ot, k))
    leafy = [c for c in cands]
    bare = [(n, t, k) for (n, t, k) in apps if k == 0]
    if depth <= 0:
        pool = leafy + [("op",) + b for b in bare]
        if not pool and depth > -3:
            pool = [("op",) + a for a in sorted(apps, key=lambda a: a[2])[:2]]
    else:
        pool = []
        # weight: applications dominate, leaves keep terms finite
        pool += leafy * 2
        pool += [("op",) + a for a in apps for _ in range(3 if a[2] else 1)]
    if not pool:
        raise ValueError(f"no term of type {ty_text(T)}")
    c = rng.choice(pool)
    if c[0] == "var":
        return ("var", c[1])
    if c[0] == "src":
        return ("src", rng.randrange(nsrc))
    _, name, ot, k = c
    ps = params_of(ot)[:k]
    return ("ap", name, [gen_term(rng, lang_ops, p, env, depth - 1, nsrc) for p in ps])


def gen_lang(rng, third=False):
    types = [AA, AAA]
    types += rng.sample(FIRST, rng.randint(0, 2))
    types += rng.sample(HIGHER, rng.randint(2, 5))
    if third:
        types += rng.sample(THIRD, rng.randint(1, 2))
    # every function-typed parameter type must be inhabited by a bare operator
    need = []

    def scan(t):
        for p in params_of(t):
            if is_fun(p):
                need.append(p)
                scan(p)
    for t in types:
        scan(t)
    for p in need:
        if p not in types:
            types.append(p)
    ops = []
    for i, t in enumerate(types):
        ops.append({"name": f"f{i}", "type": t, "nbody": 0, "body": None})
    prims = [(o["name"], o["type"]) for o in ops]
    avail = list(prims)
    for j in range(rng.randint(0, 3)):
        t = rng.choice([AA, AAA, AAA, F(A, A, A, A)] + HIGHER[:6] + ([THIRD[1]] if third else []))
        ps = params_of(t)
        n = len(ps) if rng.random() < 0.7 else rng.randint(1, len(ps))
        env = [(f"p{i}", ps[i]) for i in range(n)]
        try:
            body = gen_term(rng, avail, residual(t, n), env, rng.randint(0, 2), 0)
        except ValueError:
            continue
        name = f"c{j}"
        ops.append({"name": name, "type": t, "nbody": n, "body": body})
        avail.append((name, t))
    return Lang(ops)


# --------------------------------------------------------------------------
# the expression actually handed to add_expr, as a plain tree with identities

def walk(lang: Lang, e, ids: dict, keep: list):
    import transforge.expr as E
    import transforge.type as T

    def oid(x):
        if id(x) not in ids:
            ids[id(x)] = len(ids)
            keep.append(x)
        return ids[id(x)]
    if isinstance(e, E.Source):
        return {"k": "src", "id": oid(e)}
    if isinstance(e, E.Variable):
        return {"k": "var", "id": oid(e)}
    if isinstance(e, E.Operation):
        return {"k": "op", "id": oid(e), "op": e.operator.name}
    if isinstance(e, E.Abstraction):
        return {"k": "abs", "id": oid(e), "ps": [oid(p) for p in e.params],
                "b": walk(lang, e.body, ids, keep)}
    assert isinstance(e, E.Application), type(e)
    xt = e.x.type
    fn_impl = isinstance(xt, T.TypeOperation) and xt.operator == T.Function
    return {"k": "app", "id": oid(e), "f": walk(lang, e.f, ids, keep),
            "x": walk(lang, e.x, ids, keep), "fn_impl": bool(fn_impl)}


def annotate(lang: Lang, w, venv=None):
    """Harness-side typing: set w['fn'] on every application from the DECLARED
    parameter type of the applied operator; returns the harness type or None."""
    venv = venv or {}
    k = w["k"]
    if k == "src":
        return A
    if k == "var":
        return venv.get(w["id"])
    if k == "op":
        return lang.sig(w["op"])
    if k == "abs":
        return None
    ft = annotate(lang, w["f"], venv)
    pt = ft[1] if (ft is not None and ft != A) else None
    x = w["x"]
    if x["k"] == "abs":
        env2 = dict(venv)
        pts = params_of(pt) if pt is not None else []
        for i, p in enumerate(x["ps"]):
            env2[p] = pts[i] if i < len(pts) else None
        annotate(lang, x["b"], env2)
        w["fn"] = True if pt is None else is_fun(pt)
    else:
        xt = annotate(lang, x, venv)
        w["fn"] = is_fun(pt) if pt is not None else (is_fun(xt) if xt is not None else w["fn_impl"])
    return ft[2] if (ft is not None and ft != A) else None


def spine(w):
    args = []
    while w["k"] == "app":
        args.append((w["x"], w["fn"]))
        w = w["f"]
    args.reverse()
    return w, args


def in_domain(w, bound=frozenset()) -> bool:
    """The expressions the property (and the Coq theorem, wfb) speak about:
    every application spine is headed by an operation; function-typed arguments
    are operations / partial applications or abstractions; data arguments are
    sources, bound parameters or applications; parameters are in scope."""
    k = w["k"]
    if k == "src":
        return True
    if k == "var":
        return w["id"] in bound
    if k == "abs":
        return False
    head, args = spine(w)
    if head["k"] != "op":
        return False
    for x, fn in args:
        if fn:
            if x["k"] == "abs":
                if set(x["ps"]) & bound:
                    return False
                if not in_domain(x["b"], bound | set(x["ps"])):
                    return False
            elif x["k"] in ("op", "app"):
                if not in_domain(x, bound):
                    return False
            else:
                return False
        else:
            if x["k"] == "abs" or not in_domain(x, bound):
                return False
    return True


def wexpr_text(w) -> str:
    k = w["k"]
    if k == "src":
        return f"s{w['id']}"
    if k == "var":
        return f"x{w['id']}"
    if k == "op":
        return w["op"]
    if k == "abs":
        return "(λ" + " ".join(f"x{p}" for p in w["ps"]) + ". " + wexpr_text(w["b"]) + ")"
    head, args = spine(w)
    return "(" + " ".join([wexpr_text(head)] + [wexpr_text(x) for x, _ in args]) + ")"


def stats(w, acc: Counter, depth=0):
    k = w["k"]
    acc["nodes"] += 1
    acc["depth"] = max(acc["depth"], depth)
    if k == "abs":
        acc["abstractions"] += 1
        if w["b"]["k"] in ("var", "src"):
            acc["abs_leaf_body"] += 1
        stats(w["b"], acc, depth + 1)
    elif k == "app":
        head, args = spine(w)
        nfn = sum(1 for _, fn in args if fn)
        acc["spines"] += 1
        acc["fun_args"] += nfn
        acc["max_fun_args_on_one_step"] = max(acc["max_fun_args_on_one_step"], nfn)
        if nfn and depth_flag(w):
            acc["nested_internal"] += 1
        stats(head, acc, depth + 1)
        for x, fn in args:
            if fn and x["k"] == "app":
                acc["partial_app_args"] += 1
            stats(x, acc, depth + 1)
    elif k == "src":
        acc["source_uses"] += 1


def depth_flag(w) -> bool:
    """some function-typed argument of this spine itself has function-typed arguments"""
    _, args = spine(w)
    for x, fn in args:
        if fn:
            y = x["b"] if x["k"] == "abs" else x
            if y["k"] == "app" and any(f2 for _, f2 in spine(y)[1]):
                return True
    return False


# --------------------------------------------------------------------------
# the independently built graph (the property, literally)

def flow(w):
    """Return (result node, set of triples) with nodes named by tree position.
    Written from the property text; does not look at graph.py's algorithm:
    * one node per operator application (spine), edge to the node of each argument
    * one shared node per source object
    * per function-typed argument exactly one internal node attached to the
      receiving step; it feeds the passed operation (or stands for the
      abstraction's parameters); receives every other input of the receiving
      step, outputs of sibling passed operations included; internal nodes of
      the passed operation's own step are fed by it."""
    out = set()
    internals = {}

    def go(w, path, env):
        k = w["k"]
        if k == "src":
            return ("S", w["id"])
        if k == "var":
            return env[w["id"]]
        head, args = spine(w)
        c = ("N",) + path
        out.add((c, "via", head["op"]))
        ns, ints = [], []
        for i, (x, fn) in enumerate(args):
            if not fn:
                n = go(x, path + (i,), env)
                it = None
            else:
                it = ("I",) + path + (i,)
                out.add((c, "internal", it))
                if x["k"] == "abs":
                    env2 = dict(env)
                    for p in x["ps"]:
                        env2[p] = it
                    n = go(x["b"], path + (i,), env2)
                else:
                    n = go(x, path + (i,), env)
                    out.add((n, "from", it))
                for j in internals.get(n, ()):
                    out.add((j, "from", it))
            out.add((c, "from", n))
            ns.append(n)
            ints.append(it)
        for i, it in enumerate(ints):
            if it is not None:
                for j, n in enumerate(ns):
                    if j != i:
                        out.add((it, "from", n))
        internals[c] = [it for it in ints if it is not None]
        return c
    r = go(w, (), {})
    return r, out


# --------------------------------------------------------------------------
# implementation run

def impl_graph(lang: Lang, expr):
    """from/internal/via triples of TransformationGraph.add_expr + returned node."""
    from rdflib import BNode
    from transforge.graph import TransformationGraph
    from transforge.namespace import TF
    g = TransformationGraph(lang.language, minimal=True, with_operators=True)
    root = BNode()
    r = g.add_expr(expr, root)
    ns = lang.language.namespace
    out = set()
    for s, o in g.subject_objects(TF["from"]):
        out.add((s, "from", o))
    for s, o in g.subject_objects(TF.internal):
        out.add((s, "internal", o))
    inv = {ns[o["name"]]: o["name"] for o in lang.ops}
    for s, o in g.subject_objects(TF.via):
        out.add((s, "via", inv.get(o, str(o))))
    return r, out


def to_rdf(result, triples):
    """Encode a (result, triples) observation as an rdflib graph whose nodes
    are all blank, for comparison up to renaming."""
    from rdflib import Graph, BNode, URIRef
    g = Graph()
    m = {}

    def b(x):
        if x not in m:
            m[x] = BNode()
        return m[x]
    P = {"from": URIRef("urn:p:from"), "internal": URIRef("urn:p:internal"), "via": URIRef("urn:p:via")}
    for s, p, o in triples:
        g.add((b(s), P[p], URIRef("urn:op:" + str(o)) if p == "via" else b(o)))
    g.add((URIRef("urn:root"), URIRef("urn:p:result"), b(result)))
    return g


def iso(o1, o2) -> bool:
    from rdflib.compare import isomorphic
    if len(o1[1]) != len(o2[1]):
        return False
    c1 = Counter(p for _, p, _ in o1[1])
    c2 = Counter(p for _, p, _ in o2[1])
    if c1 != c2:
        return False
    return isomorphic(to_rdf(*o1), to_rdf(*o2))


def summary(obs):
    r, ts = obs
    names = {}

    def nm(x):
        if x not in names:
            names[x] = f"n{len(names)}"
        return names[x]
    nm(r)
    deg = Counter()
    for s, p, o in ts:
        deg[p] += 1
    return {"counts": dict(deg), "nodes": len({s for s, _, _ in ts} | {o for _, p, o in ts if p != "via"})}


def listing(obs):
    """Readable listing with nodes numbered by first appearance in a sorted walk
    (for replay files only; not used for comparison)."""
    r, ts = obs
    via = {s: o for s, p, o in ts if p == "via"}
    names = {}

    def nm(x):
        if x not in names:
            names[x] = (f"{via[x]}#{len(names)}" if x in via else f"n{len(names)}")
        return names[x]
    nm(r)
    rows = sorted((str(via.get(s, "")), p, str(via.get(o, "")) if p != "via" else str(o), s, o) for s, p, o in ts)
    return ["result " + nm(r)] + [f"{nm(s)} {p} {o if p == 'via' else nm(o)}" for _, p, _, s, o in rows]


# --------------------------------------------------------------------------
# Coq side

HDR = """From Coq Require Import List Arith Bool.
Import ListNotations.
From TF Require Import Graph.AddExpr Graph.AddExprSpec.
Definition run (pinned : bool) (e : expr) : option (node * list triple) :=
  match add_expr add_from_plain pinned e None g_empty with
  | Some (n, st) => Some (n, g_tr st)
  | None => None
  end.
Definition dom (e : expr) : nat := Nat.b2n (wfb [] e).
"""


def coq_expr(w) -> str:
    k = w["k"]
    if k == "src":
        return f"(ESrc {w['id']})"
    if k == "var":
        return f"(EVar {w['id']})"
    if k == "op":
        return f"(EOp {w['id']} {w['opi']})"
    if k == "abs":
        return f"(EAbs {w['id']} {C.coq_list(w['ps'])} {coq_expr(w['b'])})"
    return f"(EApp {w['id']} {coq_expr(w['f'])} {coq_expr(w['x'])} {'true' if w['fn'] else 'false'})"


def set_opi(lang: Lang, w):
    k = w["k"]
    if k == "op":
        w["opi"] = lang.index[w["op"]]
    elif k == "abs":
        set_opi(lang, w["b"])
    elif k == "app":
        set_opi(lang, w["f"])
        set_opi(lang, w["x"])


def model_obs(lang: Lang, val):
    if val is None:
        return None
    n, ts = val
    P = {0: "from", 1: "internal", 2: "via"}
    out = set()
    for s, p, o in ts:
        out.add((s, P[p], lang.ops[o]["name"] if p == 2 else o))
    return n, out
