"""C05  On comparable arguments the inferred type is the least one, in any order.

proof stage     coq/props/C05.v (Infer/Lub.v): lub / permutation / monotonicity on the
                faithful engine model for identity and nested covariant contexts, glb
                for the contravariant reading, above/below characterisation
correspondence  every program of the signature family on /repo vs the engine model
oracle          on the implementation's results: success, result = r[lub] (covariant) or
                upper bound = glb (contravariant), equal outcome under every permutation,
                monotonicity under single-argument specialisation, leastness of fix()
                against every corner instantiation
"""
from __future__ import annotations

import itertools
import random

from . import common as C
from . import engine as E
from .c03 import run_engine_cases

UNIT = ("o", 2, [])


def mk_hier(chain_len: int, with_sibling: bool) -> C.Hierarchy:
    # chain 5 > 6 > 7 ...; optional sibling below 5; F unary co, K unary contra
    parents = {5 + i: 5 + i - 1 for i in range(1, chain_len)}
    nbase = chain_len
    if with_sibling:
        parents[5 + chain_len] = 5
        nbase += 1
    k = 5 + nbase
    return C.Hierarchy(parents, {k: [True], k + 1: [False]}, nbase)


def contexts(h):
    F, K = sorted(h.variances)[0], sorted(h.variances)[1]
    a0 = ("o", 5, [])
    return {
        "id": (lambda x: x, +1),
        "F": (lambda x: ("o", F, [x]), +1),
        "FF": (lambda x: ("o", F, [("o", F, [x])]), +1),
        "res": (lambda x: ("o", 3, [a0, x]), +1),
        "arg": (lambda x: ("o", 3, [x, a0]), -1),
        "K": (lambda x: ("o", K, [x]), -1),
        "KK": (lambda x: ("o", K, [("o", K, [x])]), +1),
    }


def results(h):
    F = sorted(h.variances)[0]
    return {"x": lambda x: x, "F(x)": lambda x: ("o", F, [x])}


def family_program(ctx, res, args):
    body = res(("v", 0))
    for _ in args:
        body = ("o", 3, [ctx(("v", 0)), body])
    prog = [("inst", (1, body, []))]
    cur, n = 0, 1
    for a in args:
        prog.append(("inst", (0, ctx(("o", a, [])), [])))
        prog.append(("apply", cur, n, True))
        cur = n + 1
        n += 2
    return prog


def mixed_program(ctxs, pairs):
    body = ("v", 0)
    for c, _ in reversed(pairs):
        body = ("o", 3, [ctxs[c][0](("v", 0)), body])
    prog = [("inst", (1, body, []))]
    cur, n = 0, 1
    for c, a in pairs:
        prog.append(("inst", (0, ctxs[c][0](("o", a, [])), [])))
        prog.append(("apply", cur, n, True))
        cur = n + 1
        n += 2
    return prog


def op_le(h, a, b):
    """operator order: Bottom below, Top above, declared ancestors"""
    return a == 1 or b == 0 or b in E.chain_of(h, a)


def outcome(io):
    if io["err"] is not None:
        return ("err", E.ERRNAME.get(io["err"][0], "?"))
    return ("ok", repr(io["vals"][-1]), repr(io["vars"]), repr(io["cons"]))


def expected_result(h, pol, res, args):
    """What the property demands for pairwise comparable hole types."""
    if pol > 0:
        nb = [a for a in args if a != 1]
        if not nb:
            return None            # all Bottom: variable stays unconstrained
        m = nb[0]
        for a in nb[1:]:
            if op_le(h, m, a):
                m = a
        return m
    return None


def main(tier: str, seed: int, replay: str | None = None) -> int:
    C.force_repo_on_path()
    rep = C.Report("C05", tier, seed)
    rep.proof_stage()
    rep.proof_stage("C05_fix")      # leastness of fix() on single-polarity types; fuel bounds
    rep.proof_stage("C05_ctx")      # lub/glb/perm/mono for arbitrary one-hole contexts of any arity and variance
    rep.proof_stage("C05_mixed_tb")  # ... with Bottom in covariant and Top in contravariant positions (ignored by the engine)
    rep.proof_stage("C05_mixed")    # a different context (and polarity) per parameter, any result context: accept iff L <= U, result r(L) / r(U), permutation-invariant
    rng = random.Random(seed)
    quick = tier == "quick"
    hs = [mk_hier(3, False), mk_hier(4, True)] if quick else [mk_hier(3, False), mk_hier(4, True), mk_hier(5, True)]
    items = []
    meta = []       # parallel to items: per program (hi, ctxname, resname, args)
    for hi, h in enumerate(hs):
        h.build()
        chain = [o for o in range(5, 5 + h.nbase) if o == 5 or h.parents.get(o) == o - 1]
        pool = chain + [0, 1]
        progs = []
        ms = []
        ctxs = contexts(h)
        ress = results(h)
        maxlen = 3 if quick else 4
        for n in range(2, maxlen + 1):
            tuples = list(itertools.combinations_with_replacement(pool, n))
            if n == maxlen and not quick:
                tuples = rng.sample(tuples, min(len(tuples), 60))
            if n == 3 and quick:
                tuples = rng.sample(tuples, min(len(tuples), 30))
            for tup in tuples:
                for cname, (ctx, pol) in ctxs.items():
                    if quick and cname in ("FF", "KK") and rng.random() < 0.6:
                        continue
                    rname = "x" if rng.random() < 0.7 else "F(x)"
                    for perm in sorted(set(itertools.permutations(tup))):
                        progs.append((family_program(ctx, ress[rname], perm), []))
                        ms.append((hi, cname, rname, tuple(sorted(tup)), perm))
        # mixed contexts: the same variable met in covariant and contravariant
        # positions by arguments from one chain (lub below, glb above); every
        # order of the (parameter, argument) pairs must give the same outcome
        mixed = ["id", "F", "arg", "K"]
        npairs = 40 if quick else 200
        for _ in range(npairs):
            k = rng.randint(2, 3)
            pairs = [(rng.choice(mixed), rng.choice(pool)) for _ in range(k)]
            if len({c for c, _ in pairs}) < 2:
                continue
            key = tuple(sorted(pairs))
            for perm in sorted(set(itertools.permutations(pairs))):
                progs.append((mixed_program(ctxs, perm), []))
                ms.append((hi, "mixed", "x", key, perm))
        items.append((h, progs))
        meta.append(ms)

    # gather implementation outcomes per (hierarchy, ctx, res, multiset)
    groups: dict = {}
    flat_meta = [m for ms in meta for m in ms]
    counter = {"i": 0, "ok": 0, "err": 0}
    samples = []

    def on_case(h, prog, sched, err, io, mo, crow, mvals):
        m = flat_meta[counter["i"]]
        counter["i"] += 1
        counter["ok" if err is None else "err"] += 1
        groups.setdefault(m[:4], []).append((m[4], outcome(io), io, prog))
        if len(samples) < 3 and err is None and len(m[4]) == 3 and len(set(m[4])) == 3:
            names = {i: f"op{i}" for i in h.ops}
            samples.append({"context": m[1], "result": m[2], "args": [str(a) for a in m[4]],
                "program_text": [c if c[0] != "inst" else E.schema_py(c[1], names) for c in prog],
                "outcome": list(outcome(io))[:2]})

    n, dis = run_engine_cases(rep, f"C05_{tier}", items, check=False, on_case=on_case)

    nperm_groups = 0
    for key, runs in groups.items():
        hi, cname, rname, tup = key
        h = hs[hi]
        names = {i: f"op{i}" for i in h.ops}
        mixed_group = cname == "mixed"
        pol = 0 if mixed_group else contexts(h)[cname][1]
        outs = {o for _, o, _, _ in runs}
        if len(runs) > 1:
            nperm_groups += 1
        payload = {"hierarchy": h.to_json(), "context": cname, "result": rname,
            "args": [str(a) for a in tup],
            "outcomes": [{"order": [str(a) for a in p], "outcome": list(o)} for p, o, _, _ in runs[:6]],
            "program": runs[0][3]}
        if len(outs) > 1:
            rep.violation(f"perm_{hi}_{cname}_{abs(hash(tup)) % 10**8}", dict(payload, kind="oracle",
                what="outcome depends on the order in which comparable arguments are supplied"))
            continue
        o = next(iter(outs))
        if mixed_group:
            continue        # success depends on lub <= glb; only order independence is demanded here
        if o[0] != "ok":
            rep.violation(f"fail_{hi}_{cname}_{'_'.join(map(str, tup))}", dict(payload, kind="oracle",
                what="application to pairwise comparable arguments failed"))
            continue
        io = runs[0][2]
        val = io["vals"][-1]
        res = results(h)[rname]
        if pol > 0:
            m = expected_result(h, pol, res, tup)
            if m is not None:
                want = to_canon(res(("o", m, [])))
                if val != want:
                    rep.violation(f"lub_{hi}_{cname}_{'_'.join(map(str, tup))}", dict(payload, kind="oracle",
                        what=f"result is not r[lub]: expected {want}, got {val}"))
        else:
            # contravariant: unresolved variable whose upper bound is the minimum
            nt = [a for a in tup if a != 0]
            if nt:
                mn = nt[0]
                for a in nt[1:]:
                    if op_le(h, a, mn):
                        mn = a
                hole = val if rname == "x" else val[2][0]
                if mn == 1:
                    ok = hole == ("o", 1, ())
                else:
                    ok = hole[0] == "v" and io["vars"][hole[1]][2] == mn and io["vars"][hole[1]][1] is None
                if not ok:
                    rep.violation(f"glb_{hi}_{cname}_{'_'.join(map(str, tup))}", dict(payload, kind="oracle",
                        what=f"contravariant variable is not left with the greatest lower bound {names[mn]} as upper limit: {val} {io['vars']}"))

    # monotonicity: specialise one argument along the chain
    nmono = 0
    for key, runs in groups.items():
        hi, cname, rname, tup = key
        h = hs[hi]
        if cname == "mixed":
            continue
        pol = contexts(h)[cname][1]
        if pol < 0 or runs[0][1][0] != "ok":
            continue
        for i, a in enumerate(tup):
            kids = [c for c, p in h.parents.items() if p == a and c == a + 1]
            for k in kids:
                tup2 = tuple(sorted(tup[:i] + (k,) + tup[i + 1:]))
                key2 = (hi, cname, rname, tup2)
                if key2 not in groups:
                    continue
                nmono += 1
                o2 = groups[key2][0][1]
                if o2[0] != "ok":
                    rep.violation(f"mono_{hi}_{cname}_{i}", {"kind": "oracle", "hierarchy": h.to_json(),
                        "what": "replacing an argument by a subtype from the same chain turned success into failure",
                        "context": cname, "args": tup, "specialised": tup2})
                    continue
                v1, v2 = groups[key][0][2]["vals"][-1], groups[key2][0][2]["vals"][-1]
                if is_conc(v1) and is_conc(v2) and not E.py_sub(h, from_canon(v2), from_canon(v1)):
                    rep.violation(f"monores_{hi}_{cname}_{i}", {"kind": "oracle", "hierarchy": h.to_json(),
                        "what": "specialising an argument made the concrete result more general",
                        "context": cname, "args": tup, "specialised": tup2, "before": v1, "after": v2})

    nfix = fix_leastness(rep, rng, hs, 60 if quick else 600, tier)

    rep.coverage.update({
        "evaluations": n + nfix, "distinct_nontrivial": nperm_groups, "disagreements": dis,
        "rule": "signatures c(x) ** ... ** c(x) ** r(x) for contexts id, F, F.F, function result, function argument, "
                "contravariant K, K.K and results x / F(x); argument multisets of length 2-"
                f"{3 if quick else 4} from chains of length 3-{4 if quick else 5} plus Top and Bottom, every distinct permutation; "
                "non-trivial = (hierarchy, context, result, multiset) group run in >= 2 distinct orders",
        "permutation_groups": len(groups), "monotonicity_pairs": nmono, "fix_leastness_cases": nfix,
        "outcome_distribution": {"ok": counter["ok"], "err": counter["err"]},
        "samples": samples, "exhaustive": quick is False})
    rep.assumptions = [
        "the theorems cover identity/covariant-unary/contravariant-function-argument contexts; the other contexts and "
        "the leastness of fix() on arbitrary single-polarity types are decided per generated case only",
    ]
    return rep.finish(C.TRUSTED)


def to_canon(t):
    return ("o", t[1], tuple(to_canon(a) for a in t[2]))


def is_conc(v):
    return v[0] == "o" and all(is_conc(a) for a in v[2])


def from_canon(v):
    return (v[1], [from_canon(a) for a in v[2]])


def fix_leastness(rep, rng, hs, ncases, tier):
    """fix() of a type whose bounded variables each occur with one polarity is
    below every corner instantiation within the bounds."""
    items = []
    metas = []
    for h in hs:
        F, K = sorted(h.variances)[0], sorted(h.variances)[1]
        chain = [o for o in range(5, 5 + h.nbase) if o == 5 or h.parents.get(o) == o - 1]
        progs = []
        for _ in range(ncases // len(hs)):
            nv = rng.randint(1, 2)
            pols = [rng.choice([+1, -1]) for _ in range(nv)]

            def gen(d, pol):
                cands = [i for i in range(nv) if pols[i] == pol]
                if d == 0 or rng.random() < 0.3:
                    if cands and rng.random() < 0.8:
                        return ("v", rng.choice(cands))
                    return ("o", rng.choice(chain), [])
                r = rng.random()
                if r < 0.3:
                    return ("o", F, [gen(d - 1, pol)])
                if r < 0.5:
                    return ("o", K, [gen(d - 1, -pol)])
                if r < 0.8:
                    return ("o", 3, [gen(d - 1, -pol), gen(d - 1, pol)])
                return ("o", 4, [gen(d - 1, pol), gen(d - 1, pol)])
            T = gen(3, +1)
            bounds = []
            body = T
            for i in reversed(range(nv)):
                body = ("o", 3, [("v", i), ("o", 3, [("o", 3, [("v", i), UNIT]), body])])
            prog = [("inst", (nv, body, []))]
            cur, nvals = 0, 1
            for i in range(nv):
                lo_i = rng.randrange(len(chain))
                up_i = rng.randrange(0, lo_i + 1)
                lo, up = chain[lo_i], chain[up_i]     # lo <= up on the chain (deeper = smaller)
                bounds.append((lo, up))
                prog.append(("inst", (0, ("o", lo, []), [])))
                prog.append(("apply", cur, nvals, False))
                cur = nvals + 1
                nvals += 2
                prog.append(("inst", (0, ("o", 3, [("o", up, []), UNIT]), [])))
                prog.append(("apply", cur, nvals, False))
                cur = nvals + 1
                nvals += 2
            prog.append(("fix", cur, True))
            progs.append((prog, []))
            metas.append((h, T, pols, bounds))
        items.append((h, progs))
    idx = {"i": 0}

    def on_case(h, prog, sched, err, io, mo, crow, mvals):
        h_, T, pols, bounds = metas[idx["i"]]
        idx["i"] += 1
        names = {i: f"op{i}" for i in h.ops}
        payload = {"hierarchy": h.to_json(), "type": T, "polarities": pols, "bounds": bounds,
            "program_text": [c if c[0] != "inst" else E.schema_py(c[1], names) for c in prog]}
        if err is not None:
            rep.violation(f"fixerr_{idx['i']}", dict(payload, kind="oracle",
                what=f"bounding/fixing failed with {err[0]}"))
            return
        fixed = io["vals"][-1]
        if not is_conc(fixed):
            # variables bound to lower==upper are resolved; anything else must be concrete after fix
            rep.violation(f"fixvar_{idx['i']}", dict(payload, kind="oracle",
                what=f"fix left a bounded variable unresolved: {fixed}"))
            return
        fx = from_canon(fixed)
        nv = len(pols)
        for corner in itertools.product(*[(lo, up) for lo, up in bounds]):
            def inst(t):
                if t[0] == "v":
                    return (corner[t[1]], [])
                return (t[1], [inst(a) for a in t[2]])
            if not E.py_sub(h, fx, inst(T)):
                rep.violation(f"fixleast_{idx['i']}", dict(payload, kind="oracle", fixed=fixed, corner=corner,
                    what="fix() is not below a corner instantiation within the bounds"))
                break
        want = None

    n, dis = run_engine_cases(rep, f"C05fix_{tier}", items, check=False, on_case=on_case)
    return n
