"""C13  All surface notations denote the same expression as programmatic construction.

proof stage     coq/props/C13.v (+ coq/props/C17_parser.v for parser_fuzz's callers)
correspondence  Language.parse / parse_type of /repo vs the Gallina parser model
                (Parse/ExParser.v) on the same strings; the model's abstract
                construction events are replayed with the real library objects
                (that replay IS the programmatic construction in parser order)
oracle          every rendering of one tree parses to the same expression as
                calling the operators as Python objects: structure and the type
                of every node after fix(); numbers denote the supplied objects;
                `-` is fresh; `e : T` leaves the tree alone; Expr.match agrees
                with shape/operator/source-type equality
"""
from __future__ import annotations

import json
import random
import time

from . import common as C

# ---------------------------------------------------------------------------
# Coq side: an instance of the section variables of Parse/ExParser.v
# (lookup tables of one generated language, decimal digits of the alphabet the
# generators use, the type checker replaced by a log of the events)

HDR = r"""From Coq Require Import List Arith Bool NArith ZArith.
Import ListNotations.
From TF Require Import Parse.ExTok Parse.ExParser.

Fixpoint assoc {A} (t : str) (l : list (str * A)) : option A :=
  match l with [] => None | (k, a) :: r => if str_eqb t k then Some a else assoc t r end.

(* decimal digits (str.isdecimal) among the characters the generators use *)
Definition decval (c : N) : option nat :=
  let n := N.to_nat in
  if (N.leb 48 c && N.leb c 57)%N then Some (n (c - 48)%N)
  else if (N.leb 1632 c && N.leb c 1641)%N then Some (n (c - 1632)%N)
  else if (N.leb 2406 c && N.leb c 2415)%N then Some (n (c - 2406)%N)
  else if (N.leb 65296 c && N.leb c 65305)%N then Some (n (c - 65296)%N)
  else None.

Definition St := list event.
Definition lstep (s : St) (e : event) : St + perr := inl (e :: s).

Fixpoint enc_pty (t : pty) : list nat :=
  match t with PVar => [0] | PApp c args => 1 :: c :: length args :: flat_map enc_pty args end.
Fixpoint enc_val (v : val) : list nat :=
  match v with
  | VOp id o => [0; id; o] | VSrc id => [1; id] | VIn k => [2; k]
  | VApp id f x => 3 :: id :: enc_val f ++ enc_val x
  end.
Definition enc_ev (e : event) : list nat :=
  match e with
  | EvOp v => 0 :: enc_val v | EvSrc v => 1 :: enc_val v | EvApp v => 2 :: enc_val v
  | EvExact v t => 3 :: enc_val v ++ enc_pty t | EvSub v t => 4 :: enc_val v ++ enc_pty t
  end.
Definition enc_err (e : perr) : nat :=
  match e with EBracket => 1 | EEmpty => 2 | EUndefined => 3 | EMissingInput => 4
             | EParse => 5 | ETyping => 6 | EApplication => 7 end.
Definition enc_site (s : site) : nat :=
  match s with SExprTop => 90 | SExprPop => 91 | STypePop => 92 | STypeIdx1 => 93 end.
Definition enc_out {A} (f : A -> list nat) (o : outcome A) : list nat :=
  match o with Ok a => 0 :: f a | Err e => [enc_err e] | Crash s => [enc_site s] end.

Section Inst.
  Variable lo : str -> option nat.
  Variable lt : str -> option (nat * nat).
  Variable ni : nat.
  Let P := pst St.

  (* the loop of [run] once more, keeping the log of the last good state so
     that the events before a parse error can be replayed; its outcome is
     compared with [parse_str]'s on every case *)
  Definition fin (p : P) : St * outcome (val * St) :=
    match md St p with
    | MExpr => (abs St p, finish_expr St p)
    | MType prev ts _ =>
        match ty_done St lstep p prev ts with
        | Ok p' => (abs St p', finish_expr St p')
        | Err e => (abs St p, Err e) | Crash s => (abs St p, Crash s)
        end
    end.
  Fixpoint trun (toks : list str) (p : P) : St * outcome (val * St) :=
    match toks with
    | [] => fin p
    | t :: r =>
        match t with
        | [] => match md St p with
                | MExpr => (abs St p, finish_expr St p)
                | MType prev ts _ =>
                    match ty_done St lstep p prev ts with
                    | Ok p' => trun r p'
                    | Err e => (abs St p, Err e) | Crash s => (abs St p, Crash s)
                    end
                end
        | _ => match step_tok lo lt decval St lstep ni p t with
               | Ok p' => trun r p'
               | Err e => (abs St p, Err e) | Crash s => (abs St p, Crash s)
               end
        end
    end.

  (* [code ; model outcome via parse_str] :: result :: events (oldest first) *)
  Definition pobs (s : str) : list (list nat) :=
    let o := parse_str lo lt decval St lstep ni s 0 [] in
    let (log, o') := trun (strip false (tokenize ex_specials s)) (init St 0 []) in
    [hd 99 (enc_out (fun _ => []) o); hd 99 (enc_out (fun _ => []) o')]
      :: match o with Ok (v, _) => enc_val v | _ => [] end
      :: map enc_ev (rev log).
  Definition tobs (s : str) : list nat := enc_out enc_pty (parse_type_str lt s).
End Inst.
"""

ERRCODE = {"BracketMismatch": 1, "EmptyParse": 2, "UndefinedTokenError": 3,
           "MissingInputError": 4, "ParseError": 5, "Typing": 6, "ApplicationError": 7}
CODENAME = {0: "Ok", 1: "BracketMismatch", 2: "EmptyParse", 3: "UndefinedTokenError",
            4: "MissingInputError", 5: "ParseError", 6: "TypingError", 7: "ApplicationError",
            90: "Crash:stack[-1]", 91: "Crash:stack.pop()", 92: "Crash:type stack.pop()",
            93: "Crash:stack[1]", 99: "?"}

# digits: decimal ones the Coq table knows, and numeric-but-not-decimal ones
DEC_DIGITS = "0123456789" + "٠١٢٣٩" + "०१" + "１２"
NONDEC_NUMERIC = "²³¹½Ⅷ四"


def coq_str(s: str) -> str:
    return "[" + ";".join(str(ord(c)) for c in s) + "]%N" if s else "(@nil N)"


def _check_alphabet():
    def coq_dec(c):
        o = ord(c)
        return 48 <= o <= 57 or 1632 <= o <= 1641 or 2406 <= o <= 2415 or 65296 <= o <= 65305
    for c in DEC_DIGITS + NONDEC_NUMERIC + NAME_CHARS + SPECIAL_CHARS + " \t\r":
        assert c.isdecimal() == coq_dec(c), c
    for c in NONDEC_NUMERIC:
        assert c.isnumeric() and not c.isdecimal()


NAME_CHARS = "abfghxyzABFGKβΔ_-.01'"
SPECIAL_CHARS = "*(,):;~#\n"
BLANKS = [" ", " ", " ", "\t", "\r", "  "]
_check_alphabet()


# ---------------------------------------------------------------------------
# generated languages

class GLang:
    """A language: base types with parents, compound type operators, synonyms,
    operators with concrete or schematic types.  Type ASTs are (name, [args])
    or ('_', []); ids on the Coq side: Top 0, Bottom 1, Product 4, type
    operators 5.., synonyms 100.."""

    def __init__(self, rng: random.Random, fixed: int | None = None):
        r = rng
        bnames = ["A", "B", "C", "D", "Δ", "Rel"][: r.randint(2, 6)]
        self.base = []            # (name, parent name or None)
        for i, n in enumerate(bnames):
            par = r.choice(bnames[:i]) if i and r.random() < 0.65 else None
            self.base.append((n, par))
        cn = ["F", "G", "K2"][: r.randint(1, 3)]
        self.comp = [(n, (1 if n == "F" else r.randint(1, 3 if n == "K2" else 2)), r.random() < 0.8)
                     for n in cn]  # name, arity, covariant
        self.syn0 = []            # (name, type ast)
        self.syn1 = []            # (name, compound name, fixed second arg or None)
        if r.random() < 0.7:
            self.syn0.append(("S0", self.gen_ty(r, 1, noprod=False)))
        if r.random() < 0.6:
            c = r.choice([c for c in self.comp if c[1] <= 2])
            self.syn1.append(("S1", c[0], None if c[1] == 1 else self.gen_ty(r, 0)))
        self.tyid = {}
        for i, (n, _) in enumerate(self.base):
            self.tyid[n] = (5 + i, 0)
        for i, (n, ar, _) in enumerate(self.comp):
            self.tyid[n] = (5 + len(self.base) + i, ar)
        for i, (n, _) in enumerate(self.syn0):
            self.tyid[n] = (100 + i, 0)
        for i, (n, _, _) in enumerate(self.syn1):
            self.tyid[n] = (110 + i, 1)
        # operators: name -> ('fun', [param asts], result ast) | ('const', ast) | ('schema', kind)
        self.ops = {}
        onames = ["f", "g", "h", "x2", "f-1", "βeta", "k.z", "2x", "app'"]
        r.shuffle(onames)
        nops = r.randint(3, 7)
        for n in onames[:nops]:
            k = r.random()
            if k < 0.62:
                ar = r.choice([1, 1, 2, 2, 3])
                self.ops[n] = ("fun", [self.gen_ty(r, 1) for _ in range(ar)], self.gen_ty(r, 1))
            elif k < 0.74:
                self.ops[n] = ("const", self.gen_ty(r, 1))
            else:
                self.ops[n] = ("schema", r.choice(["id", "wrap", "pair", "sub", "fst"]))
        if not any(v[0] == "fun" for v in self.ops.values()):
            self.ops["f"] = ("fun", [self.gen_ty(r, 1)], self.gen_ty(r, 1))
        self.opid = {n: i for i, n in enumerate(self.ops)}
        self.built = False

    @staticmethod
    def from_description(d) -> "GLang":
        """rebuild a language from GLang.describe() (replays, corpus)"""
        def ast(t):
            return (t[0], [ast(a) for a in t[1]])
        g = GLang.__new__(GLang)
        g.base = [(n, p) for n, p in d["base"]]
        g.comp = [(n, a, c) for n, a, c in d["compound"]]
        g.syn0 = [(n, ast(t)) for n, t in d["syn0"]]
        g.syn1 = [(n, c, ast(t) if t else None) for n, c, t in d["syn1"]]
        g.ops = {}
        for n, v in d["operators"].items():
            if v[0] == "fun":
                g.ops[n] = ("fun", [ast(t) for t in v[1]], ast(v[2]))
            elif v[0] == "const":
                g.ops[n] = ("const", ast(v[1]))
            else:
                g.ops[n] = ("schema", v[1])
        g._number()
        return g

    def _number(self):
        self.tyid = {}
        for i, (n, _) in enumerate(self.base):
            self.tyid[n] = (5 + i, 0)
        for i, (n, ar, _) in enumerate(self.comp):
            self.tyid[n] = (5 + len(self.base) + i, ar)
        for i, (n, _) in enumerate(self.syn0):
            self.tyid[n] = (100 + i, 0)
        for i, (n, _, _) in enumerate(self.syn1):
            self.tyid[n] = (110 + i, 1)
        self.opid = {n: i for i, n in enumerate(self.ops)}
        self.idname = {i: n for n, (i, _) in self.tyid.items()}
        self.built = False

    # ----- type ASTs
    def gen_ty(self, r, depth, noprod=True, var=0.0):
        if var and r.random() < var:
            return ("_", [])
        if depth <= 0 or r.random() < 0.5:
            k = r.random()
            if k < 0.06:
                return ("Top", [])
            return (r.choice(self.base)[0], [])
        if not noprod and r.random() < 0.25:
            return ("*", [self.gen_ty(r, depth - 1, noprod, var), self.gen_ty(r, depth - 1, noprod, var)])
        n, ar, _ = r.choice(self.comp)
        return (n, [self.gen_ty(r, depth - 1, noprod, var) for _ in range(ar)])

    def parents(self, n):
        d = dict(self.base)
        out = []
        while d.get(n):
            n = d[n]
            out.append(n)
        return out

    def children(self, n):
        return [c for c, p in self.base if p == n]

    def sub_ty(self, r, t):
        """a subtype (or the type itself), moving covariant leaves down"""
        n, args = t
        if n in ("_", "Top", "Bottom", "*") or args:
            cov = {c: v for c, _, v in self.comp}
            if args and cov.get(n, n == "*"):
                return (n, [self.sub_ty(r, a) for a in args])
            return t
        ch = self.children(n)
        if ch and r.random() < 0.5:
            return self.sub_ty(r, (r.choice(ch), []))
        return t

    def sup_ty(self, r, t):
        n, args = t
        if r.random() < 0.15:
            return ("Top", [])
        if not args and n not in ("_", "Top", "Bottom"):
            ps = self.parents(n)
            if ps and r.random() < 0.6:
                return (r.choice(ps), [])
        return t

    # ----- real objects
    def build(self):
        import transforge.type as T
        import transforge.expr as E
        import transforge.lang as L
        self.T, self.E, self.L = T, E, L
        ty = {}
        for n, par in self.base:
            ty[n] = T.TypeOperator(n, supertype=ty[par] if par else None)
        for n, ar, cov in self.comp:
            ty[n] = T.TypeOperator(n, params=[T.Variance.CO if cov else T.Variance.CONTRA] * ar)
        self.ty = ty
        scope = dict(ty)
        for n, ast in self.syn0:
            scope[n] = T.TypeAlias(self.mk(ast), n)
        for n, cname, second in self.syn1:
            c = ty[cname]
            if second is None:
                scope[n] = T.TypeAlias((lambda c: lambda x: c(x))(c), n)
            else:
                scope[n] = T.TypeAlias((lambda c, s: lambda x: c(x, s))(c, self.mk(second)), n)
        self.alias = {n: scope[n] for n in [s[0] for s in self.syn0] + [s[0] for s in self.syn1]}
        A0 = ty[self.base[0][0]]
        F0 = ty[self.comp[0][0]]
        far = self.comp[0][1]
        for n, d in self.ops.items():
            if d[0] == "fun":
                t = self.mk(d[2])
                for p in reversed(d[1]):
                    t = self.mk(p) ** t
                scope[n] = E.Operator(type=t, name=n)
            elif d[0] == "const":
                scope[n] = E.Operator(type=self.mk(d[1]), name=n)
            else:
                k = d[1]
                if k == "id":
                    sch = T.TypeSchema(lambda x: x ** x)
                elif k == "wrap":
                    sch = T.TypeSchema((lambda F0, far, A0: (lambda x: x ** (F0(x) if far == 1 else F0(x, A0))))(F0, far, A0))
                elif k == "pair":
                    sch = T.TypeSchema(lambda x, y: x ** y ** (x * y))
                elif k == "sub":
                    sch = T.TypeSchema((lambda A0: lambda x: (x ** x)[x <= A0])(A0))
                else:
                    sch = T.TypeSchema(lambda x, y: (x * y) ** x)
                scope[n] = E.Operator(type=sch, name=n)
        self.lang = L.Language(scope=scope)
        self.built = True
        return self

    def mk(self, ast):
        """type AST -> fresh transforge type"""
        T = self.T
        n, args = ast
        if n == "_":
            return T.TypeVariable()
        if n == "Top":
            return T.Top()
        if n == "Bottom":
            return T.Bottom()
        if n == "*":
            return T.Product(*(self.mk(a) for a in args))
        if n in self.ty:
            return self.ty[n](*(self.mk(a) for a in args))
        al = self.alias[n]
        return al(*(self.mk(a) for a in args)) if args else al.instance()

    def mk_pty(self, enc, pos=0):
        """model type encoding -> (fresh transforge type, next position)"""
        T = self.T
        if enc[pos] == 0:
            return T.TypeVariable(), pos + 1
        c, n = enc[pos + 1], enc[pos + 2]
        pos += 3
        args = []
        for _ in range(n):
            a, pos = self.mk_pty(enc, pos)
            args.append(a)
        if c == 0:
            return T.Top(), pos
        if c == 1:
            return T.Bottom(), pos
        if c == 4:
            return T.Product(*args), pos
        name = self.idname[c]
        if name in self.ty:
            return self.ty[name](*args), pos
        al = self.alias[name]
        return (al(*args) if args else al.instance()), pos

    def coq_defs(self, k: int) -> str:
        self.idname = {i: n for n, (i, _) in self.tyid.items()}
        lo = "; ".join(f"({coq_str(n)}, {i})" for n, i in self.opid.items())
        lt = "; ".join(f"({coq_str(n)}, ({i}, {a}))" for n, (i, a) in self.tyid.items())
        return (f"Definition lo_{k} (t : str) : option nat := assoc t [{lo}].\n"
                f"Definition lt_{k} (t : str) : option (nat * nat) := assoc t [{lt}].\n")

    def describe(self):
        return {"base": self.base, "compound": self.comp, "syn0": self.syn0, "syn1": self.syn1,
                "operators": {n: (d if d[0] != "fun" else ["fun", d[1], d[2]]) for n, d in self.ops.items()}}


def ty_text(ast) -> str:
    n, args = ast
    if n == "*":
        return "(" + " * ".join(ty_text(a) for a in args) + ")"
    return n + ("(" + ", ".join(ty_text(a) for a in args) + ")" if args else "")


# ---------------------------------------------------------------------------
# expression trees:  ('op', name) | ('dash',) | ('num', n) | ('app', f, x) | ('ann', e, T)

class TreeGen:
    def __init__(self, rng, gl: GLang):
        self.r, self.gl = rng, gl
        self.inputs = []      # declared input types (AST or None = untyped Source())

    def source(self, t):
        r = self.r
        k = r.random()
        if k < 0.07:
            # a supertype: calling the operator on it is a type error, and it must be one
            # in every notation
            return ("ann", ("dash",), self.gl.sup_ty(r, t))
        if k < 0.13:
            # annotated twice: the first makes the type, the second only bounds it
            t1 = self.gl.sub_ty(r, t)
            return ("ann", ("ann", ("dash",), t1), self.gl.sup_ty(r, t1) if r.random() < 0.8 else t)
        if k < 0.55:
            return ("ann", ("dash",), self.gl.sub_ty(r, t))
        if k < 0.66:
            return ("dash",)
        # numbered input
        if self.inputs and r.random() < 0.5:
            n = r.randrange(len(self.inputs))
        else:
            if len(self.inputs) >= 3:
                n = r.randrange(len(self.inputs))
            else:
                self.inputs.append(self.gl.sub_ty(r, t) if r.random() < 0.6 else None)
                n = len(self.inputs) - 1
        e = ("num", n + 1)
        if r.random() < 0.3:
            e = ("ann", e, self.gl.sup_ty(r, t) if r.random() < 0.8 else t)
        return e

    def expr(self, t, depth):
        """an expression meant to have a type <= t (t None: anything)"""
        r, gl = self.r, self.gl
        if t is None or t[0] == "_":
            t = gl.gen_ty(r, 1)
        if depth <= 0 or r.random() < 0.3:
            return self.source(t)
        cands = []
        for n, d in gl.ops.items():
            if d[0] == "fun" and self.compatible(d[2], t):
                cands.append(n)
            elif d[0] == "const" and self.compatible(d[1], t):
                cands.append(n)
        if r.random() < 0.12:
            cands = list(gl.ops)       # possibly ill-typed
        if not cands:
            return self.source(t)
        e = self.apply_op(r.choice(cands), depth)
        if r.random() < 0.15:
            e = ("ann", e, gl.sup_ty(r, t) if r.random() < 0.85 else gl.gen_ty(r, 1))
        return e

    def compatible(self, a, b):
        """syntactic a <= b on ASTs (covariant only, conservative)"""
        if b[0] == "Top":
            return True
        if a[0] != b[0]:
            return not a[1] and not b[1] and b[0] in self.gl.parents(a[0])
        cov = {c: v for c, _, v in self.gl.comp}
        if a[1] and not cov.get(a[0], True):
            return a == b
        return len(a[1]) == len(b[1]) and all(self.compatible(x, y) for x, y in zip(a[1], b[1]))

    def apply_op(self, n, depth, partial=0.1):
        r, gl = self.r, self.gl
        d = gl.ops[n]
        e = ("op", n)
        if d[0] == "fun":
            params = d[1]
        elif d[0] == "const":
            return e
        else:
            params = {"id": [None], "wrap": [None], "pair": [None, None], "sub": [(gl.base[0][0], [])],
                      "fst": [("*", [gl.gen_ty(r, 1), gl.gen_ty(r, 0)])]}[d[1]]
        k = len(params)
        if r.random() < partial:
            k = r.randint(0, len(params))
        for p in params[:k]:
            if p is not None and p[0] == "*":
                x = ("ann", ("dash",), p) if r.random() < 0.7 else self.source(p)
            else:
                x = self.expr(p, depth - 1)
            e = ("app", e, x)
        return e

    def tree(self, depth):
        r, gl = self.r, self.gl
        self.inputs = []
        n = r.choice([n for n, d in gl.ops.items() if d[0] != "const"] or list(gl.ops))
        e = self.apply_op(n, depth, partial=0.2)
        if r.random() < 0.2:
            e = ("ann", e, ("Top", []) if r.random() < 0.5 else gl.gen_ty(r, 1))
        return e, list(self.inputs)


def tree_size(e):
    return 1 + sum(tree_size(x) for x in e[1:] if isinstance(x, tuple) and x and x[0] in ("op", "dash", "num", "app", "ann"))


def strip_ann(e):
    if e[0] == "app":
        return ("app", strip_ann(e[1]), strip_ann(e[2]))
    if e[0] == "ann":
        return strip_ann(e[1])
    return e


def tree_text(e) -> str:
    if e[0] == "op":
        return e[1]
    if e[0] == "dash":
        return "-"
    if e[0] == "num":
        return str(e[1])
    if e[0] == "app":
        return f"({tree_text(e[1])} {tree_text(e[2])})"
    return f"({tree_text(e[1])} : {ty_text(e[2])})"


# ---------------------------------------------------------------------------
# renderings (the relations Renders / Junked / Layout of the Coq development)

class Renderer:
    def __init__(self, rng, style=None):
        self.r = rng
        # style knobs, drawn per rendering so that pure styles occur too
        r = rng
        self.p_call = r.choice([0.0, 0.3, 0.7, 1.0])      # f(x, y) instead of f x y
        self.p_paren = r.choice([0.0, 0.15, 0.4])         # redundant brackets
        self.p_left = r.choice([0.0, 0.3, 0.8])           # (f x) y
        self.p_nl = r.choice([0.0, 0.0, 0.1, 0.25])       # newlines
        self.p_comment = r.choice([0.0, 0.0, 0.08, 0.2])  # comments
        self.p_blank = r.choice([0.0, 0.3, 0.8])          # optional blanks
        self.digits = r.random() < 0.2                    # non-ASCII decimal digits, leading zeros
        self.used = set()

    # ----- expressions
    def items(self, e):
        """spine of e: list of ('arg', e') / ('ann', T)"""
        r = self.r
        if e[0] == "app":
            if r.random() < self.p_left:
                self.used.add("left-grouped")
                return [("arg", e)]        # will be bracketed as a whole
            return self.items(e[1]) + [("arg", e[2])]
        if e[0] == "ann":
            return self.items(e[1]) + [("ann", e[2])]
        return [("arg", e)]

    def seq(self, e, top=False):
        r = self.r
        its = self.items(e)
        if len(its) == 1 and its[0][0] == "arg" and its[0][1] is e and e[0] in ("app", "ann"):
            # must split at least once, otherwise infinite regress
            if e[0] == "app":
                its = [("arg", e[1]), ("arg", e[2])] if r.random() < 0.5 or e[1][0] not in ("app", "ann") \
                    else self.items_split(e)
            else:
                its = [("arg", e[1]), ("ann", e[2])]
        out = []
        i = 0
        while i < len(its):
            kind, x = its[i]
            if kind == "ann":
                out.append(":")
                out += self.ty_top(x)
                self.used.add("annotation")
                i += 1
                continue
            # a run of arguments may be written as one bracket with commas
            j = i
            while j < len(its) and its[j][0] == "arg":
                j += 1
            if i > 0 and r.random() < self.p_call:
                k = r.randint(i + 1, j)
                out.append("(")
                for m in range(i, k):
                    if m > i:
                        out.append(",")
                    out += self.seq(its[m][1])
                out.append(")")
                self.used.add("call" if k - i > 1 else "call1")
                i = k
                continue
            out += self.arg(x, head=(i == 0))
            i += 1
        return out

    def items_split(self, e):
        return self.items(e[1]) + [("arg", e[2])]

    def arg(self, a, head=False):
        r = self.r
        if a[0] in ("app", "ann"):
            if head and r.random() < self.p_call * 0.5 and a[0] == "app":
                # (x, y) = x y, but only with nothing before it at this level:
                # f (x, y) is f x y
                self.used.add("comma-group")
                return ["("] + self.seq(a[1]) + [","] + self.seq(a[2]) + [")"]
            return ["("] + self.seq(a) + [")"]
        if r.random() < self.p_paren:
            self.used.add("redundant-brackets")
            return ["("] + self.arg(a, head=True) + [")"]
        if a[0] == "op":
            return [a[1]]
        if a[0] == "dash":
            return ["-"]
        return [self.number(a[1])]

    def number(self, n):
        if not self.digits:
            return str(n)
        self.used.add("non-ascii-digits")
        r = self.r
        zero = r.choice("0٠०０")
        base = r.choice(["0123456789", "٠١٢٣٤٥٦٧٨٩", "०१२३४५६७८९", "０１２３４５６７８９"])
        s = "".join(base[int(c)] for c in str(n))
        return (zero if r.random() < 0.4 else "") + s

    # ----- types
    def ty_top(self, t):
        r = self.r
        n, args = t
        if n == "*" or r.random() < self.p_paren:
            if n != "*":
                self.used.add("type-brackets")
            return ["("] + self.ty_in(t) + [")"]
        if not args:
            return [n]
        return [n, "("] + self.ty_args(args) + [")"]

    def ty_args(self, args):
        out = []
        for i, a in enumerate(args):
            if i:
                out.append(",")
            out += self.ty_in(a)
        return out

    def ty_in(self, t):
        r = self.r
        n, args = t
        if r.random() < self.p_paren:
            self.used.add("type-brackets")
            return ["("] + self.ty_in(t) + [")"]
        if n == "*":
            self.used.add("product")
            a, b = args
            if a[1] and a[0] != "*" and r.random() < 0.4:
                # F(X) * B: a pending operator is applied before the product is built
                # (/repo d741af8; modelled, but outside the proved Renders relation)
                left = [a[0], "("] + self.ty_args(a[1]) + [")"]
                self.used.add("product-after-constructor")
            elif a[1] or r.random() < self.p_paren:      # left operand: an atom or bracketed
                left = ["("] + self.ty_in(a) + [")"]
            else:
                left = [a[0]]
            return left + ["*"] + self.ty_in(b)
        if not args:
            return [n]
        return [n, "("] + self.ty_args(args) + [")"]

    # ----- junk and layout
    def junk(self):
        r = self.r
        out = []
        while True:
            k = r.random()
            if k < self.p_nl:
                out.append("\n")
                self.used.add("newline")
            elif k < self.p_nl + self.p_comment:
                body = "".join(r.choice("abc xyz(),:;*-_~#1² \t") for _ in range(r.randint(0, 8)))
                out.append("#" + body + "\n")
                self.used.add("comment")
            else:
                return out

    def layout(self, core, trailing_comment=True):
        r = self.r
        s = ""
        prev_word = False
        for t in core:
            j = "".join(self.junk())
            word = t not in SPECIAL_CHARS
            blank = r.choice(BLANKS) if r.random() < self.p_blank else ""
            if not j and prev_word and word and not blank:
                blank = " "
            if j:
                # blanks around junk are optional
                s += blank + j + (r.choice(BLANKS) if r.random() < self.p_blank else "")
            else:
                s += blank
            s += t
            prev_word = word
        s += "".join(self.junk())
        if trailing_comment and r.random() < self.p_comment:
            s += " # " + "".join(r.choice("abc (:") for _ in range(r.randint(0, 5)))
            self.used.add("comment-at-end")
        elif r.random() < self.p_blank:
            s += r.choice(BLANKS)
        return s

    def render(self, e):
        core = self.seq(e, top=True)
        if self.r.random() < self.p_paren:
            core = ["("] + core + [")"]
            self.used.add("redundant-brackets")
        return core, self.layout(core)


def plain_render(e) -> str:
    """f x y with the brackets that are needed, one blank between tokens"""
    def arg(a):
        return "(" + seq(a) + ")" if a[0] in ("app", "ann") else seq(a)

    def seq(a):
        if a[0] == "app":
            return seq(a[1]) + " " + arg(a[2])
        if a[0] == "ann":
            t = ty_text(a[2])
            return seq(a[1]) + " : " + t
        return {"op": lambda: a[1], "dash": lambda: "-", "num": lambda: str(a[1])}[a[0]]()
    return seq(e)


# ---------------------------------------------------------------------------
# the implementation side

def declared_family(gl: GLang, ex: BaseException):
    """code of a declared error class, or None for anything else"""
    L, T, E = gl.L, gl.T, gl.E
    for cls, code in ((L.BracketMismatch, 1), (L.EmptyParse, 2), (L.UndefinedTokenError, 3),
                      (L.MissingInputError, 4), (L.ParseError, 5), (T.TypingError, 6),
                      (E.ApplicationError, 7)):
        if isinstance(ex, cls):
            return code
    return None


def crash_site(ex: BaseException) -> str:
    import traceback
    tb = traceback.extract_tb(ex.__traceback__)
    fr = [f for f in tb if f.filename.endswith(("lang.py", "expr.py", "type.py"))]
    f = fr[-1] if fr else tb[-1]
    return f"{type(ex).__name__}@{f.filename.rsplit('/', 1)[-1]}:{f.name}:{(f.line or '').strip()}"


def mk_inputs(gl: GLang, decl):
    return [gl.E.Source(gl.mk(t)) if t is not None else gl.E.Source() for t in decl]


def canon_type(t, vars_):
    T = canon_type.T
    t = t.follow()
    if isinstance(t, T.TypeOperation):
        return (t.operator.name, tuple(canon_type(p, vars_) for p in t.params))
    k = id(t)
    if k not in vars_:
        vars_[k] = len(vars_)
    return ("?", vars_[k], t.lower.name if t.lower else None, t.upper.name if t.upper else None,
            bool(t.wildcard))


def canon_expr(gl: GLang, e, inputs, vars_=None, with_types=True):
    """structure and the type of every node (variables numbered by first occurrence)"""
    canon_type.T = gl.T
    E = gl.E
    vars_ = {} if vars_ is None else vars_
    ty = (lambda x: canon_type(x.type, vars_)) if with_types else (lambda x: None)
    if isinstance(e, E.Application):
        t = ty(e)
        return ("app", canon_expr(gl, e.f, inputs, vars_, with_types),
                canon_expr(gl, e.x, inputs, vars_, with_types), t)
    if isinstance(e, E.Operation):
        return ("op", e.operator.name, ty(e))
    if isinstance(e, E.Source):
        for i, x in enumerate(inputs):
            if x is e:
                return ("in", i, ty(e))
        return ("src", ty(e))
    return ("other", type(e).__name__)


def impl_parse(gl: GLang, s: str, decl):
    """-> (code, canonical form | error text, expr, inputs, crash site)"""
    inputs = mk_inputs(gl, decl)
    t0 = time.time()
    try:
        e = gl.lang.parse(s, *inputs)
    except Exception as ex:   # noqa: BLE001 - classifying every exception is the point
        code = declared_family(gl, ex)
        if code is None:
            return (99, crash_site(ex), None, inputs, time.time() - t0)
        name = type(ex).__name__
        if code == 3:
            name += ":" + repr(getattr(ex, "token", None))
        return (code, name, None, inputs, time.time() - t0)
    dt = time.time() - t0
    return (0, None, e, inputs, dt)


def flags_oracle(gl: GLang, s: str, decl, evs, resv, flags):
    """Language.parse(s, *inputs, fix=.., unify=..) against the programmatic construction
    Application(f, x, fix, unify) of the same tree: the keyword arguments reach every
    application alike, whatever notation it was written in.  -> None | (parsed, built)"""
    inputs = mk_inputs(gl, decl)
    try:
        e = gl.lang.parse(s, *inputs, fix=flags[0], unify=flags[1])
        got = (0, canon_expr(gl, e, inputs))
    except Exception as ex:   # noqa: BLE001
        code = declared_family(gl, ex)
        got = (code if code is not None else 99, None)
    pcode, proot, pin, pname = replay_events(gl, evs, decl, resv, flags)
    want = (pcode, canon_expr(gl, proot, pin) if pcode == 0 else None)
    return None if got == want else (got, want)


def fixed_canon(gl, e, inputs):
    try:
        e.fix()
    except Exception as ex:   # noqa: BLE001
        return ("fix-raised", type(ex).__name__)
    return canon_expr(gl, e, inputs)


# ----- the model's events executed with real objects

def dec_val(enc, pos=0):
    k = enc[pos]
    if k == 0:
        return ("op", enc[pos + 1], enc[pos + 2]), pos + 3
    if k == 1:
        return ("src", enc[pos + 1]), pos + 2
    if k == 2:
        return ("in", enc[pos + 1]), pos + 2
    f, p = dec_val(enc, pos + 2)
    x, p = dec_val(enc, p)
    return ("app", enc[pos + 1], f, x), p


def replay_events(gl: GLang, events, decl, result=None, flags=(True, True)):
    """Execute construction events (model encoding) with transforge objects.
    -> (code, root object or None, inputs).  The calls are the ones parse_expr
    makes with fix=True, unify=True."""
    E, T, L = gl.E, gl.T, gl.L
    inputs = mk_inputs(gl, decl)
    objs = {}
    opname = {i: n for n, i in gl.opid.items()}

    def ref(v):
        return inputs[v[1]] if v[0] == "in" else objs[v[1]]
    try:
        for ev in events:
            kind = ev[0]
            v, pos = dec_val(ev, 1)
            if kind == 0:
                objs[v[1]] = gl.lang.operators[opname[v[2]]].instance()
            elif kind == 1:
                objs[v[1]] = E.Source()
            elif kind == 2:
                objs[v[1]] = E.Application(ref(v[2]), ref(v[3]), flags[0], flags[1])
            else:
                o = ref(v)
                t, _ = gl.mk_pty(ev, pos)
                if kind == 3:
                    o.type = t
                if flags[1] or isinstance(o, E.Source):     # lang.py: an annotation is checked when
                    try:                                   # unify is on, or on a source
                        o.type.unify(t, subtype=True)
                    except T.TypingError as ex:
                        raise L.TypeAnnotationError(o, t, None) from ex
    except Exception as ex:   # noqa: BLE001
        code = declared_family(gl, ex)
        return (code if code is not None else 99), None, inputs, type(ex).__name__
    root = None
    if result:
        rv, _ = dec_val(result, 0)
        root = ref(rv)
    return 0, root, inputs, None


def spec_events(gl: GLang, e, ninputs):
    """Python mirror of ExSpec.build with a type checker that accepts
    everything: the events (model encoding) and the result value."""
    ctr = [0]
    evs = []

    def enc_ty(t):
        n, args = t
        if n == "_":
            return [0]
        c = {"Top": 0, "Bottom": 1, "*": 4}.get(n)
        if c is None:
            c = gl.tyid[n][0]
        out = [1, c, len(args)]
        for a in args:
            out += enc_ty(a)
        return out

    def go(x):
        if x[0] == "op":
            v = [0, ctr[0], gl.opid[x[1]]]
            ctr[0] += 1
            evs.append([0] + v)
            return v
        if x[0] == "dash":
            v = [1, ctr[0]]
            ctr[0] += 1
            evs.append([1] + v)
            return v
        if x[0] == "num":
            n = x[1]
            k = (ninputs - 1) if n == 0 else (n - 1)
            if k < 0 or k >= ninputs:
                raise IndexError
            return [2, k]
        if x[0] == "app":
            f = go(x[1])
            a = go(x[2])
            v = [3, ctr[0]] + f + a
            ctr[0] += 1
            evs.append([2] + v)
            return v
        v = go(x[1])
        evs.append([3 if x[1][0] == "dash" else 4] + v + enc_ty(x[2]))
        return v
    try:
        res = go(e)
    except IndexError:
        return evs, None
    return evs, res


def pythonic(gl: GLang, e, decl):
    """Calling the operators as Python objects, f(x, y) style: all arguments
    of a call are evaluated before the call."""
    E, T, L = gl.E, gl.T, gl.L
    inputs = mk_inputs(gl, decl)

    def spine(x):
        args = []
        while x[0] == "app":
            args.append(x[2])
            x = x[1]
        return x, args[::-1]

    def go(x):
        if x[0] == "op":
            return gl.lang.operators[x[1]]
        if x[0] == "dash":
            return E.Source()
        if x[0] == "num":
            return inputs[x[1] - 1]
        if x[0] == "ann":
            if x[1][0] == "dash":
                return E.Source(gl.mk(x[2]))
            v = E.Expr.shorthand(go(x[1]))
            t = gl.mk(x[2])
            try:
                v.type.unify(t, subtype=True)
            except T.TypingError as ex:
                raise L.TypeAnnotationError(v, t, None) from ex
            return v
        head, args = spine(x)
        h = go(head)
        vals = [go(a) for a in args]
        return h(*vals)
    try:
        v = E.Expr.shorthand(go(e))
    except Exception as ex:   # noqa: BLE001
        code = declared_family(gl, ex)
        return (code if code is not None else 99), None, inputs, type(ex).__name__
    return 0, v, inputs, None


# ---------------------------------------------------------------------------
# malformed strings

FUZZ_ALPHABET = (["Top", "Bottom", "zz", "Unit"]
                 + ["-", "-", "-", "(", "(", "(", ")", ")", ")", ",", ",", ":", ":", ":", ";", "*", "*", "_", "#", "\n",
                    "~", " ", " ", "\t"]
                 + list("0123") + ["10", "٣", "０", "²", "½", "1²", "Ⅷ", "四"])


def mutate_string(r: random.Random, s: str, names) -> str:
    alpha = FUZZ_ALPHABET + list(names) * 2
    for _ in range(r.choice([1, 1, 1, 2, 3])):
        k = r.random()
        i = r.randrange(len(s) + 1)
        if k < 0.35 and s:
            j = min(len(s), i + r.choice([1, 1, 2]))
            s = s[:i] + s[j:]
        elif k < 0.75:
            s = s[:i] + r.choice(alpha) + s[i:]
        elif k < 0.9 and s:
            j = min(len(s), i + 1)
            s = s[:i] + r.choice(alpha) + s[j:]
        elif s:
            j = r.randrange(len(s))
            a, b = min(i, j), max(i, j)
            s = s[:a] + s[a:b] * 2 + s[b:]
    return s


def random_string(r: random.Random, names) -> str:
    alpha = FUZZ_ALPHABET + list(names) * 3
    n = r.choice([1, 2, 3, 4, 5, 6, 8, 12])
    return "".join(r.choice(alpha) + r.choice(["", " ", " "]) for _ in range(n))


# type strings: names of arity 0-3, `_`, Top, Bottom, `*`, brackets, commas

TYPE_SYMBOLS = ["(", "(", ")", ")", ")", ",", ",", "*", "*", "_", "Top", "Bottom", " "]


def type_text(r: random.Random, gl: GLang, depth=2) -> str:
    """a well-formed type text (products, variables, redundant brackets)"""
    ast = gl.gen_ty(r, depth, noprod=False, var=0.15)
    rd = Renderer(r)
    toks = rd.ty_in(ast)
    out = ""
    for i, t in enumerate(toks):
        word = t not in "(),*"
        if out and word and out[-1] not in "(),* ":
            out += " "
        out += t + (" " if r.random() < 0.2 else "")
    return out


def mutate_type(r: random.Random, s: str, names) -> str:
    ins = ["(", ")", ")", ",", "*", "*", "_", "Top", ") *", ")) * ", ", " + r.choice(names) + ") * ", " * "] + list(names)
    for _ in range(r.choice([1, 1, 2, 3])):
        k = r.random()
        marks = [i for i, c in enumerate(s) if c in "(),*"]
        if k < 0.3 and marks:
            i = r.choice(marks)                    # delete a bracket, comma or star
            s = s[:i] + s[i + 1:]
        elif k < 0.5 and marks:
            i = r.choice(marks)                    # duplicate one
            s = s[:i] + s[i] + s[i:]
        elif k < 0.85:
            i = r.randrange(len(s) + 1)
            s = s[:i] + r.choice(ins) + s[i:]
        else:
            # unbalanced closing brackets, then a product
            s = s + ")" * r.randint(1, 2) + " * " + r.choice(list(names) + ["_", "Top"])
    return s


def random_type_string(r: random.Random, names) -> str:
    alpha = TYPE_SYMBOLS + list(names) * 2
    return "".join(r.choice(alpha) + r.choice(["", " "]) for _ in range(r.choice([1, 2, 3, 4, 5, 6, 8, 10])))


STAR_PROBES = ["{A}) * {B}", "{F}({A})) * {B}", "({A} * {B})) * {A}", "{A}, {B}) * {A}", "_ ) * _"]


# ---------------------------------------------------------------------------
# model evaluation

def model_eval(tag: str, groups, nfiles=4):
    """groups: list of (GLang, [(ninputs, string)], [type strings]).
    -> per group (list of pobs results, list of tobs results)"""
    blocks = []
    for k, (gl, cases, tys) in enumerate(groups):
        txt = gl.coq_defs(k)
        n = 0
        if cases:
            txt += (f"Eval vm_compute in map (fun p => pobs lo_{k} lt_{k} (fst p) (snd p)) ["
                    + ";\n ".join(f"({ni}, {coq_str(s)})" for ni, s in cases) + "].\n")
            txt += (f"Eval vm_compute in map (tokenize ex_specials) ["
                    + ";\n ".join(coq_str(s) for _, s in cases) + "].\n")
            n += 2
        if tys:
            txt += (f"Eval vm_compute in map (tobs lt_{k}) [" + ";\n ".join(coq_str(s) for s in tys) + "].\n")
            n += 1
        blocks.append((txt, n))
    outs = C.coq_eval_blocks(tag, HDR, blocks, nfiles=nfiles)
    res = []
    for (gl, cases, tys), vals in zip(groups, outs):
        i = 0
        pob = tok = tob = []
        if cases:
            pob, tok = vals[0], vals[1]
            i = 2
        if tys:
            tob = vals[i]
        res.append((pob, tok, tob))
    return res


# ---------------------------------------------------------------------------
# one string: implementation vs model

def check_string(gl: GLang, s: str, decl, pob, tok):
    """-> dict(impl, model, predicted, agree, tokens_agree, site, canon)"""
    L = gl.L
    itoks = [[ord(c) for c in t] for t in L.tokenize(s, "*(,):;~#\n")]
    out = {"tokens_agree": itoks == tok, "model": pob[0][0], "model_loop": pob[0][1]}
    code, info, e, inputs, dt = impl_parse(gl, s, decl)
    out["impl"] = code
    out["info"] = info
    out["dt"] = dt
    events = pob[2:]
    rcode, root, rinputs, rname = replay_events(gl, events, decl, pob[1] if pob[0][0] == 0 else None)
    out["predicted"] = rcode if rcode != 0 else pob[0][0]
    out["agree"] = (out["predicted"] == code) and pob[0][0] == pob[0][1]
    out["expr"] = e
    out["inputs"] = inputs
    if code == 0 and out["predicted"] == 0:
        ci = fixed_canon(gl, e, inputs)
        cr = fixed_canon(gl, root, rinputs)
        out["canon"] = ci
        if ci != cr:
            out["agree"] = False
            out["canon_model"] = cr
    return out


def ann_flags(events):
    return [ev[0] == 3 for ev in events if ev[0] in (3, 4)]


def root_cause(gl: GLang, s: str, pob, info=None):
    """Attribute a disagreement to one of the two notation defects of the
    pinned parser, or None."""
    if info in ("UndefinedTokenError:'\\n'", "UndefinedTokenError:'#'"):
        # only parse_type looks these tokens up: a newline or a comment
        # inside a type annotation
        return "C13:newline-or-comment-inside-type-annotation"
    toks = list(gl.L.tokenize(s, "*(,):;~#\n"))
    comment = False
    prevs = []
    prev = ""
    for t in toks:
        if t == "#":
            comment = True
        elif t == "\n":
            comment = False
        elif not comment and t == ":":
            prevs.append(prev == "-")
        prev = t
    flags = ann_flags(pob[2:])
    if flags != prevs[:len(flags)]:
        # an annotation was made exact (or not) by the token before the colon
        # and not by what is annotated
        return "C13:anonymous-source-annotation-decided-by-previous-token"
    return None


# ---------------------------------------------------------------------------
# Expr.match

def match_key(gl, c):
    """shape, operators and source types of a canonical expression; a
    non-wildcard variable never equals anything"""
    uniq = [0]

    def ty(t):
        if t[0] == "?":
            if t[4]:
                return "wild"
            uniq[0] += 1
            return ("var", id(c), uniq[0])
        return (t[0], tuple(ty(p) for p in t[1]))

    def go(x):
        if x[0] == "app":
            return ("app", go(x[1]), go(x[2]))
        if x[0] == "op":
            return ("op", x[1])
        if x[0] in ("src", "in"):
            t = x[-1]
            if t[0] == "?":
                return ("src", ty(t))
            return ("src", ty(t) if not has_var(t) else ("var", id(c), id(x)))
        return x
    return go(c)


def has_var(t):
    return t[0] == "?" or any(has_var(p) for p in t[1])


def mx_coq(gl, c):
    """canonical expression -> Coq mx term, or None if outside the model"""
    ids = {"Top": 0, "Bottom": 1, "Unit": 2, "Function": 3, "Product": 4}

    def ty(t):
        if t[0] == "?":
            return None
        o = ids.get(t[0])
        if o is None:
            o = gl.tyid[t[0]][0]
        args = [ty(p) for p in t[1]]
        if any(a is None for a in args):
            return None
        return f"(TOp {o} [{'; '.join(args)}])"

    def go(x):
        if x[0] == "app":
            f, a = go(x[1]), go(x[2])
            return None if f is None or a is None else f"(MApp {f} {a})"
        if x[0] == "op":
            return f"(MOp {gl.opid[x[1]]})"
        if x[0] in ("src", "in"):
            t = x[-1]
            if t[0] == "?":
                return "(MSrc None)" if t[4] else None
            s = ty(t)
            return None if s is None else f"(MSrc (Some {s}))"
        return None
    return go(c)


def hier_coq(gl) -> str:
    par = {n: p for n, p in gl.base}
    ps = "; ".join(f"({gl.tyid[n][0]}, {gl.tyid[p][0]})" for n, p in gl.base if p)
    vs = "; ".join(f"({gl.tyid[n][0]}, [{'; '.join(['true' if cov else 'false'] * ar)}])"
                   for n, ar, cov in gl.comp)
    return f"(mk_hier [{ps}] [{vs}])"


MHDR = """From Coq Require Import List Arith Bool.
Import ListNotations.
From TF Require Import Base.Hier Base.Ty Sub.Match Parse.ExMatch.
"""


# ---------------------------------------------------------------------------
# token-level fuzzing (used by C17 as well)

PROBES = [": {A}", "- : (* {A})", "- : *", "{f} ²", ") {f}", ") : {A}", "- : {F} *", "{f} ½ 1", "( ) )", ", {f}",
          "- : ({F}({A}) * {A})", "- : ({A} * {F}({A}) * {A})", "- : ({F}({A}, {A}) * {A})", "- : ({F} {A} * {A})",
          "- : (({A} * {A}) * {F}({A}) * _)", "{f} ٣", "- : {A} :", "{f} : : {A}", "(- : {A}) : {A} )", "- : ({A} * ) ", "- : {F}({A}", "{f}(,)", ";", "- : _ *"]


def parser_fuzz(rep: C.Report, rng: random.Random, n: int) -> dict:
    """Strings over the token alphabet (random, and mutated well-formed
    expressions) through Language.parse / Language.parse_type of /repo and the
    model.  Reports (property rep.pid, has_input=True) every exception outside
    ParseError / TypingError / ApplicationError; returns counts."""
    C.force_repo_on_path() if "transforge" not in __import__("sys").modules else None
    nl = 4 if n <= 3000 else 12
    groups = []
    for k in range(nl):
        gl = GLang(rng).build()
        names = list(gl.ops) + list(gl.tyid)
        tg = TreeGen(rng, gl)
        per = max(1, n // nl)
        cases = []
        fmt = {"A": gl.base[0][0], "F": gl.comp[0][0], "f": next(iter(gl.ops))}
        for p in PROBES:
            cases.append((1, p.format(**fmt)))
        while len(cases) < per:
            k2 = rng.random()
            if k2 < 0.45:
                s = random_string(rng, names)
            else:
                e, decl = tg.tree(rng.choice([1, 2, 3]))
                _, s0 = Renderer(rng).render(e)
                s = mutate_string(rng, s0, names) if k2 < 0.9 else s0
            if len(s) > 400:
                continue
            cases.append((rng.choice([0, 1, 2]), s))
        tys = [s for _, s in cases if len(s) < 200][: per // 2]
        # type texts: well-formed, mutated, random, and the `)`-then-`*` family
        tnames = list(gl.tyid)
        fmt2 = {"A": gl.base[0][0], "B": gl.base[1][0], "F": gl.comp[0][0]}
        tprobe = [p.format(**fmt2) for p in STAR_PROBES]
        tys += tprobe
        ntys = 2 * per
        while len(tys) < per // 2 + ntys:
            k2 = rng.random()
            if k2 < 0.2:
                t = type_text(rng, gl, rng.choice([1, 2, 3]))
            elif k2 < 0.75:
                t = mutate_type(rng, type_text(rng, gl, rng.choice([1, 2, 2, 3])), tnames)
            else:
                t = random_type_string(rng, tnames)
            if len(t) <= 200:
                tys.append(t)
        # ... a third of them also as the annotation of an expression
        for t in tprobe + [t for t in tys[per // 2 + len(tprobe):] if rng.random() < 0.33]:
            cases.append((rng.choice([0, 1]), rng.choice(["- : ", "-:", "1 : ", "(- : "]) + t))
        groups.append((gl, cases, tys))
    # stored witnesses first (implementation only)
    ncorpus = 0
    shown = set()
    cdir = C.CORPUS / "C17"
    for f in sorted(cdir.glob("parser_*.json")) if cdir.is_dir() else []:
        d = json.loads(f.read_text())
        glc = GLang.from_description(d["language"]).build()
        for ts in d.get("type_strings", []):
            ncorpus += 1
            try:
                glc.lang.parse_type(ts)
            except Exception as ex:   # noqa: BLE001
                if declared_family(glc, ex) is None:
                    sig = f"{rep.pid}:parser:{crash_site(ex)}"
                    if sig not in shown:
                        shown.add(sig)
                        rep.violation(f"parser_corpus_{f.stem}_{len(shown)}", {"kind": "corpus", "corpus_file": str(f),
                            "string": ts, "language": d["language"], "call": "Language.parse_type(string)",
                            "impl_info": crash_site(ex),
                            "what": "Language.parse_type raised an exception outside the declared families"},
                            has_input=True, signature=sig)
        for es in d.get("strings", []):
            ncorpus += 1
            code, info, _, _, _ = impl_parse(glc, es, [None] * d.get("ninputs", 0))
            if code == 99:
                sig = f"{rep.pid}:parser:{info}"
                if sig not in shown:
                    shown.add(sig)
                    rep.violation(f"parser_corpus_{f.stem}_{len(shown)}", {"kind": "corpus", "corpus_file": str(f),
                        "string": es, "language": d["language"], "call": "Language.parse(string, *inputs)",
                        "impl_info": info, "what": "Language.parse raised an exception outside the declared families"},
                        has_input=True, signature=sig)
    res = model_eval(f"{rep.pid}_fuzz_{rep.tier}", groups)
    counts = {"corpus_cases": ncorpus, "cases": 0, "type_cases": 0, "outcomes": {}, "undeclared": {}, "disagreements": 0,
              "type_disagreements": 0, "token_disagreements": 0, "max_time_s": 0.0, "model_crash": 0}
    ndis = 0
    for (gl, cases, tys), (pob, tok, tob) in zip(groups, res):
        for (ni, s), po, tk in zip(cases, pob, tok):
            counts["cases"] += 1
            decl = [None] * ni
            r = check_string(gl, s, decl, po, tk)
            counts["max_time_s"] = max(counts["max_time_s"], r["dt"])
            name = CODENAME.get(r["impl"], "undeclared") if r["impl"] != 99 else "undeclared"
            counts["outcomes"][name] = counts["outcomes"].get(name, 0) + 1
            if r["model"] >= 90:
                counts["model_crash"] += 1
            payload = {"kind": "fuzz", "string": s, "ninputs": ni, "language": gl.describe(),
                       "impl": r["impl"], "impl_info": r["info"], "model": CODENAME.get(r["model"]),
                       "predicted": CODENAME.get(r["predicted"]), "call": "Language.parse(string, *inputs)"}
            if r["impl"] == 99:
                sig = f"{rep.pid}:parser:{r['info']}"
                counts["undeclared"][r["info"]] = counts["undeclared"].get(r["info"], 0) + 1
                if sig not in shown:
                    shown.add(sig)
                    rep.violation(f"parser_crash_{len(shown)}", dict(payload,
                        what="Language.parse raised an exception outside the declared families"),
                        has_input=True, signature=sig)
            elif r["dt"] > 2.0:
                rep.violation(f"parser_slow_{counts['cases']}", dict(payload, what="parse took more than 2 s",
                    seconds=r["dt"]), has_input=True)
            elif not r["agree"] and rep.pid != "C13" and root_cause(gl, s, po, r["info"]) is not None:
                # a notation defect that C13 reports (with its own signature)
                counts["explained_by_C13"] = counts.get("explained_by_C13", 0) + 1
            elif not r["agree"]:
                counts["disagreements"] += 1
                ndis += 1
                if ndis <= 3:
                    rep.violation(f"parser_model_{ndis}", dict(payload, kind="correspondence",
                        what="Language.parse and the parser model (Parse/ExParser.v) differ"),
                        has_input=False)
            if not r["tokens_agree"]:
                counts["token_disagreements"] += 1
                if counts["token_disagreements"] <= 2:
                    rep.violation(f"tokenize_model_{counts['token_disagreements']}", dict(payload,
                        kind="correspondence", what="tokenize differs from the model"), has_input=False)
        for s, to in zip(tys, tob):
            counts["type_cases"] += 1
            canon_type.T = gl.T
            try:
                t = gl.lang.parse_type(s)
                icode, iobs = 0, canon_type(t, {})
            except Exception as ex:   # noqa: BLE001
                c = declared_family(gl, ex)
                icode, iobs = (c if c is not None else 99), (crash_site(ex) if c is None else type(ex).__name__)
            tname = CODENAME.get(icode, "undeclared") if icode != 99 else "undeclared"
            counts.setdefault("type_outcomes", {})
            counts["type_outcomes"][tname] = counts["type_outcomes"].get(tname, 0) + 1
            payload = {"kind": "fuzz", "string": s, "language": gl.describe(), "impl": icode, "impl_info": str(iobs),
                       "model": CODENAME.get(to[0]), "call": "Language.parse_type(string)"}
            if icode == 99:
                sig = f"{rep.pid}:parser:{iobs}"
                counts["undeclared"][iobs] = counts["undeclared"].get(iobs, 0) + 1
                if sig not in shown:
                    shown.add(sig)
                    rep.violation(f"parser_crash_{len(shown)}", dict(payload,
                        what="Language.parse_type raised an exception outside the declared families"),
                        has_input=True, signature=sig)
                continue
            ok = icode == to[0]
            if ok and icode == 0:
                try:
                    mt, _ = gl.mk_pty(to, 1)
                    ok = canon_type(mt, {}) == iobs
                except Exception:   # noqa: BLE001
                    ok = False
            if not ok:
                counts["type_disagreements"] += 1
                if counts["type_disagreements"] <= 3:
                    rep.violation(f"parse_type_model_{counts['type_disagreements']}", dict(payload,
                        kind="correspondence", what="Language.parse_type and the model differ"), has_input=False)
    return counts


# ---------------------------------------------------------------------------
# the check

def variant(rng, gl: GLang, e):
    """a tree that differs from e in one operator, one source type or its shape"""
    r = rng
    k = r.random()

    def leaves(x, path=()):
        if x[0] == "app":
            return leaves(x[1], path + (1,)) + leaves(x[2], path + (2,))
        if x[0] == "ann":
            return [(path, x)] + leaves(x[1], path + (1,))
        return [(path, x)]

    def put(x, path, new):
        if not path:
            return new
        y = list(x)
        y[path[0]] = put(x[path[0]], path[1:], new)
        return tuple(y)
    ls = leaves(e)
    path, x = r.choice(ls)
    if x[0] == "ann":
        t2 = gl.gen_ty(r, 1)
        return put(e, path, ("ann", x[1], t2)), "annotation type"
    if x[0] == "op":
        others = [n for n in gl.ops if n != x[1]]
        if others:
            return put(e, path, ("op", r.choice(others))), "operator"
    if x[0] == "dash":
        return put(e, path, ("ann", ("dash",), gl.gen_ty(r, 1))), "source type"
    return ("app", e, ("ann", ("dash",), gl.gen_ty(r, 0))), "shape"


def tree_leaves(e):
    """leaves of a tree in the order Expr.leaves() yields them"""
    if e[0] == "app":
        return tree_leaves(e[1]) + tree_leaves(e[2])
    if e[0] == "ann":
        return tree_leaves(e[1])
    return [e]


def numberize(rng, gl: GLang, e, nums: int):
    """Replace sources by numbers 1..nums so that numbers repeat; some keep or
    get an annotation."""
    r = rng

    def go(x):
        if x[0] == "app":
            return ("app", go(x[1]), go(x[2]))
        if x[0] == "ann":
            if x[1][0] in ("dash", "num") and r.random() < 0.75:
                n = ("num", r.randint(1, nums))
                return ("ann", n, x[2]) if r.random() < 0.5 else n
            return ("ann", go(x[1]), x[2])
        if x[0] in ("dash", "num") and r.random() < 0.75:
            return ("num", r.randint(1, nums))
        return x
    return go(e)


def defaults_case(gl: GLang, e, decl, nums: int, strings) -> list[dict]:
    """parse(text, *supplied, defaults=True): a number without a supplied input
    is ONE made-up source, whatever the notation.
    (a) equal numbers are the same object, different numbers different objects,
        supplied numbers the supplied objects;
    (b) the result equals the parse of the same text with explicit fresh
        Source() inputs for the missing numbers (structure, every node's type
        after fix(), or the same error).
    decl = declared types of the supplied inputs (numbers 1..len(decl))."""
    E = gl.E
    m = len(decl)
    fails = []
    tl = tree_leaves(e)
    nums = max([nums, m] + [leaf[1] for leaf in tl if leaf[0] == "num"])
    for s in strings:
        ins_a = mk_inputs(gl, decl)
        ins_b = mk_inputs(gl, decl) + [E.Source() for _ in range(m, nums)]
        try:
            ea, ca = gl.lang.parse(s, *ins_a, defaults=True), 0
        except Exception as ex:   # noqa: BLE001
            c = declared_family(gl, ex)
            ea, ca, ia = None, (c if c is not None else 99), (type(ex).__name__ if c is not None else crash_site(ex))
        try:
            eb, cb = gl.lang.parse(s, *ins_b), 0
        except Exception as ex:   # noqa: BLE001
            c = declared_family(gl, ex)
            eb, cb, ib = None, (c if c is not None else 99), type(ex).__name__
        if ca != cb:
            fails.append({"string": s, "what": "defaults=True and explicitly supplied fresh sources give different outcomes",
                          "with_defaults": "parsed" if ca == 0 else ia, "with_supplied_sources": "parsed" if cb == 0 else ib})
            continue
        if ca != 0:
            continue
        la = list(ea.leaves())
        full = list(ins_a) + [None] * (nums - m)
        if len(la) == len(tl):
            byn = {}
            others = []
            for leaf, obj in zip(tl, la):
                if leaf[0] == "num":
                    byn.setdefault(leaf[1], []).append(obj)
                else:
                    others.append(obj)
            bad = None
            for n, objs in byn.items():
                if any(o is not objs[0] for o in objs):
                    bad = f"number {n} denotes {len({id(o) for o in objs})} different objects"
                elif n <= m and objs[0] is not ins_a[n - 1]:
                    bad = f"number {n} is not the supplied input"
                elif n > m and (any(objs[0] is o for o in others) or any(objs[0] is i for i in ins_a)):
                    bad = f"the source made up for number {n} is another leaf of the expression as well"
                if n > m:
                    full[n - 1] = objs[0]
            firsts = [objs[0] for objs in byn.values()]
            if bad is None and len({id(o) for o in firsts}) != len(firsts):
                bad = "two different numbers denote the same object"
            if bad:
                fails.append({"string": s, "what": "with defaults=True: " + bad})
                continue
        full = [x if x is not None else E.Source() for x in full]
        cfa = fixed_canon(gl, ea, full)
        cfb = fixed_canon(gl, eb, ins_b)
        if cfa != cfb:
            fails.append({"string": s, "what": "with defaults=True the result differs from the parse with explicitly "
                          "supplied fresh sources (structure or the type of a node after fix())",
                          "with_defaults": str(cfa), "with_supplied_sources": str(cfb)})
    return fails


def _ast(t):
    """JSON lists back to the tuples the generators use"""
    if isinstance(t, list):
        if t and t[0] in ("op", "dash", "num", "app", "ann"):
            return tuple(_ast(x) if isinstance(x, list) else x for x in t)
        if len(t) == 2 and isinstance(t[0], str) and isinstance(t[1], list):
            return (t[0], [_ast(a) for a in t[1]])
    return t


def oracle_case(d: dict) -> list[dict]:
    """A stored case (replay file or corpus entry) on the implementation alone.
    kind 'fuzz': the string must not raise outside the declared families.
    otherwise: every string of the entry must parse to the programmatic
    construction of its tree.  -> list of failures"""
    gl = GLang.from_description(d["language"]).build()
    fails = []
    if "tree_ast" not in d:
        ni = d.get("ninputs", 0)
        code, info, _, _, dt = impl_parse(gl, d["string"], [None] * ni)
        if code == 99:
            fails.append({"string": d["string"], "what": "undeclared exception", "impl_info": info})
        return fails
    e = _ast(d["tree_ast"])
    decl = [_ast(t) if t is not None else None for t in d.get("input_decl", [])]
    if d.get("defaults"):
        strings = d.get("strings") or [d["string"]]
        return defaults_case(gl, e, decl, d["numbers"], strings)
    evs, resv = spec_events(gl, e, len(decl))
    pcode, proot, pin, pname = replay_events(gl, evs, decl, resv)
    want = (pcode, fixed_canon(gl, proot, pin) if pcode == 0 else None)
    strings = d.get("strings") or [d["string"]] + ([d["other_string"]] if d.get("other_string") else [])
    for s in strings:
        code, info, ex, inputs, _ = impl_parse(gl, s, decl)
        got = (code, fixed_canon(gl, ex, inputs) if code == 0 else None)
        if got != want:
            fails.append({"string": s, "what": "parsed expression differs from programmatic construction",
                          "parsed": str(got if code == 0 else info), "programmatic": str(want if pcode == 0 else pname)})
    return fails


def main(tier: str, seed: int, replay: str | None = None) -> int:
    C.force_repo_on_path()
    rep = C.Report("C13", tier, seed)
    if replay:
        d = json.loads(open(replay).read())
        fails = oracle_case(d)
        for i, f in enumerate(fails):
            rep.violation(f"replayed_{i}", dict(d, **f, kind="oracle"), has_input=True, signature=d.get("signature"))
        # one stored case: verdict only, the evidence file of the last full run stays
        for msg in rep.known_hits:
            print(f"KNOWN-FINDING: property=C13 {msg}")
        if rep.violations:
            print(f"VIOLATION property=C13 replay={rep.violations[0][0]}")
            return 1
        print(f"OK property=C13 replayed={replay} strings={len(d.get('strings') or [d.get('string')])}")
        return 0
    rep.proof_stage()
    rng = random.Random(seed)
    # ---- corpus: witnesses of past failures, always run first
    ncorpus = 0
    cdir = C.CORPUS / "C13"
    for f in sorted(cdir.glob("*.json")) if cdir.is_dir() else []:
        d = json.loads(f.read_text())
        ncorpus += 1
        for i, fl in enumerate(oracle_case(d)):
            rep.violation(f"corpus_{f.stem}_{i}", dict(d, **fl, kind="oracle", corpus_file=str(f)),
                has_input=True, signature=d.get("signature"))
    rep.coverage["corpus_cases"] = ncorpus
    if tier == "quick":
        nlang, ntree, nrend, nmal = 8, 7, 8, 40
    else:
        nlang, ntree, nrend, nmal = 80, 22, 10, 150
    t_gen = time.time()

    # ---- generate
    work = []      # per language: gl, trees [(e, decl, [(core, string, used)])], malformed [(ninputs, string)]
    groups = []
    for k in range(nlang):
        gl = GLang(rng).build()
        tg = TreeGen(rng, gl)
        names = list(gl.ops) + list(gl.tyid)
        trees = []
        cases = []
        for _ in range(ntree * 3):
            if len(trees) >= ntree:
                break
            e, decl = tg.tree(rng.choice([1, 2, 2, 3, 3, 4]))
            if tree_size(e) > 40 or (tree_size(e) < 3 and rng.random() < 0.8):
                continue
            rends = [(None, plain_render(e), {"plain"})]
            rends.append((None, plain_render(strip_ann(e)), {"without-annotations"}))
            while len(rends) < nrend + 1:
                rd = Renderer(rng)
                core, s = rd.render(e)
                if len(s) <= 600:
                    rends.append((core, s, set(rd.used)))
            trees.append((e, decl, rends))
            cases += [(len(decl), s) for _, s, _ in rends]
        mal = []
        if trees:
            # number 0 (Python's index -1) and numbers past the inputs: correspondence only
            opn = next(iter(gl.ops))
            for ni in (0, 1, 2, 3):
                d = [None] * ni
                mal += [(ni, f"{opn} 0", d), (ni, "0", d), (ni, f"{opn} (00 : Top) {ni}", d), (ni, f"{opn} {ni + 1}", d)]
        while len(mal) < nmal and trees:
            e, decl, rends = rng.choice(trees)
            s = mutate_string(rng, rng.choice(rends)[1], names)
            if len(s) <= 600:
                mal.append((len(decl) if rng.random() < 0.8 else rng.choice([0, 1, 2]), s, decl))
        work.append((gl, trees, mal))
        groups.append((gl, cases + [(ni, s) for ni, s, _ in mal], []))
    res = model_eval(f"C13_{tier}", groups)

    # ---- compare
    n_eval = 0
    feats = {}
    outcomes = {}
    dis = 0
    undeclared = {}
    distinct = set()
    samples = []
    sizes = []
    n_trees = 0
    pythonic_diff = 0
    match_items = []     # (gl index, canon a, canon b, impl verdict, what)
    viol = 0

    per_key = {}

    def violation(name, payload, **kw):
        # a few replays per kind of failure and root cause
        nonlocal viol
        viol += 1
        key = (name.split("_")[0], kw.get("signature"))
        per_key[key] = per_key.get(key, 0) + 1
        if per_key[key] <= 3 and len(per_key) <= 40:
            rep.violation(name, payload, **kw)

    for li, ((gl, trees, mal), (pob, tok, _)) in enumerate(zip(work, res)):
        pos = 0
        for ti, (e, decl, rends) in enumerate(trees):
            n_trees += 1
            sizes.append(tree_size(e))
            base = {"language": gl.describe(), "tree": tree_text(e), "inputs": [ty_text(t) if t else "_" for t in decl],
                    "tree_ast": e, "input_decl": decl,
                    "call": "Language.parse(string, *inputs) with inputs Source(T) / Source()"}
            # programmatic construction, curried order (the specification) ...
            evs, resv = spec_events(gl, e, len(decl))
            pcode, proot, pin, pname = replay_events(gl, evs, decl, resv)
            pcanon = fixed_canon(gl, proot, pin) if pcode == 0 else None
            # ... and f(x, y) style
            ycode, yroot, yin, yname = pythonic(gl, e, decl)
            ycanon = fixed_canon(gl, yroot, yin) if ycode == 0 else None
            if pcode == 0 and (ycode != 0 or ycanon != pcanon):
                pythonic_diff += 1
                violation(f"callorder_{li}_{ti}", dict(base, kind="oracle",
                    what="calling the operators with all arguments at once, f(x, y), gives another result than f(x)(y)",
                    curried=str(pcanon), all_at_once=str(ycanon) if ycode == 0 else yname),
                    has_input=True, signature="C13:result-depends-on-order-of-applications")
            elif pcode != 0 and ycode not in (6, 7, pcode):
                violation(f"callorder_{li}_{ti}", dict(base, kind="oracle",
                    what="f(x)(y) raises a typing error, f(x, y) does not", curried=pname,
                    all_at_once=yname or "no error"), has_input=True,
                    signature="C13:result-depends-on-order-of-applications")
            first = None
            plain_struct = None
            for ri, (core, s, used) in enumerate(rends):
                po, tk = pob[pos], tok[pos]
                pos += 1
                n_eval += 1
                r = check_string(gl, s, decl, po, tk)
                for u in used:
                    feats[u] = feats.get(u, 0) + 1
                name = CODENAME.get(r["impl"], "undeclared") if r["impl"] != 99 else "undeclared"
                outcomes[name] = outcomes.get(name, 0) + 1
                payload = dict(base, string=s, impl=name, impl_info=r["info"], model=CODENAME.get(r["model"]),
                               predicted=CODENAME.get(r["predicted"]))
                if ri == 1:
                    # the same tree without its annotations: only the shape is compared
                    if r["impl"] == 0:
                        plain_struct = canon_expr(gl, r["expr"], r["inputs"], with_types=False)
                    if not r["agree"] and r["impl"] != 99:
                        dis += 1
                        violation(f"model_{li}_{ti}_{ri}", dict(payload, kind="correspondence",
                            what="Language.parse and the parser model differ (K_C13)"), has_input=False)
                    continue
                if tree_size(e) >= 3 and ri >= 2:
                    distinct.add(s)
                if not r["tokens_agree"]:
                    dis += 1
                    violation(f"tokens_{li}_{ti}_{ri}", dict(payload, kind="correspondence",
                        what="tokenize differs from the model"), has_input=False)
                # the model must have made exactly the specification's calls (theorem C13_parse_render)
                if po[2:] != evs or (resv is not None and po[0][0] == 0 and po[1] != resv):
                    violation(f"harness_{li}_{ti}_{ri}", dict(payload, kind="correspondence",
                        what="model events on a rendering differ from the specification's: renderer outside "
                             "the Renders relation, or harness defect", model_events=str(po[2:]), spec_events=str(evs)),
                        has_input=False)
                sig = None
                obs = (r["impl"], r.get("canon"))
                if r["impl"] == 99:
                    undeclared[r["info"]] = undeclared.get(r["info"], 0) + 1
                    sig = "C17:parser:" + str(r["info"])
                # oracle 1: equals programmatic construction
                want = (pcode, pcanon)
                if obs != want:
                    if sig is None:
                        sig = root_cause(gl, s, po, r["info"])
                    violation(f"programmatic_{li}_{ti}_{ri}", dict(payload, kind="oracle",
                        what="the parsed expression differs from the one built by calling the operators "
                             "(structure, or the type of a node after fix(), or the error)",
                        parsed=str(obs), programmatic=str((pcode, pcanon) if pcode == 0 else pname)),
                        has_input=True, signature=sig)
                # oracle 1b: the same under the parser's fix / unify switches (a third of the strings)
                if r["impl"] == 0 and obs == want and (n_eval % 3) == 0:
                    fl = [(True, False), (False, True), (False, False)][(n_eval // 3) % 3]
                    bad = flags_oracle(gl, s, decl, evs, resv, fl)
                    feats["parsed_with_switches"] = feats.get("parsed_with_switches", 0) + 1
                    if bad:
                        violation(f"switches_{li}_{ti}_{ri}", dict(payload, kind="oracle", fix=fl[0], unify=fl[1],
                            what="with fix/unify given to Language.parse the parsed expression differs from "
                                 "Application(f, x, fix, unify) built by hand (node types before any fix())",
                            parsed=str(bad[0]), programmatic=str(bad[1])), has_input=True)
                # oracle 2: all renderings agree with the first one
                if first is None:
                    first = (obs, s)
                elif obs != first[0] and obs == want:
                    violation(f"notations_{li}_{ti}_{ri}", dict(payload, kind="oracle",
                        what="two notations of the same tree parse differently", other_string=first[1],
                        parsed=str(obs), other=str(first[0])), has_input=True,
                        signature=root_cause(gl, first[1], pob[pos - ri - 1 + 0], None))
                elif not r["agree"] and r["impl"] != 99 and obs == want:
                    dis += 1
                    violation(f"model_{li}_{ti}_{ri}", dict(payload, kind="correspondence",
                        what="Language.parse and the parser model differ (K_C13)"), has_input=False)
                # oracle 3: numbers are the supplied objects, dashes are fresh
                if r["impl"] == 0:
                    ex = r["expr"]
                    srcs = [x for x in ex.leaves() if isinstance(x, gl.E.Source)]
                    anon = [x for x in srcs if not any(x is i for i in r["inputs"])]
                    if len({id(x) for x in anon}) != len(anon):
                        violation(f"fresh_{li}_{ti}_{ri}", dict(payload, kind="oracle",
                            what="one anonymous source object occurs twice"), has_input=True)
                    # oracle 4: annotations leave the tree alone
                    if plain_struct is not None and \
                            canon_expr(gl, ex, r["inputs"], with_types=False) != plain_struct:
                        violation(f"annot_{li}_{ti}_{ri}", dict(payload, kind="oracle",
                            what="an annotation changed the tree", without=str(plain_struct)), has_input=True)
                    if len(samples) < 4 and ri >= 3 and tree_size(e) >= 5 and len(s) < 160:
                        samples.append({"tree": tree_text(e), "string": s, "result": str(r.get("canon"))[:300]})
                    if len(match_items) < (300 if tier == "quick" else 5000) and ri in (0, 2, 3, 4):
                        match_items.append((li, gl, e, decl, s, ex, r["inputs"], r.get("canon")))
        for mi, (ni, s, decl) in enumerate(mal):
            po, tk = pob[pos], tok[pos]
            pos += 1
            n_eval += 1
            d = (list(decl) + [None, None, None])[:ni]
            r = check_string(gl, s, d, po, tk)
            name = CODENAME.get(r["impl"], "undeclared") if r["impl"] != 99 else "undeclared"
            outcomes["malformed:" + name] = outcomes.get("malformed:" + name, 0) + 1
            if r["impl"] == 99:
                undeclared[r["info"]] = undeclared.get(r["info"], 0) + 1      # C17's business
            elif not r["agree"] or not r["tokens_agree"]:
                dis += 1
                violation(f"model_mal_{li}_{mi}", {"kind": "correspondence", "language": gl.describe(),
                    "string": s, "ninputs": ni, "impl": name, "impl_info": r["info"],
                    "model": CODENAME.get(r["model"]), "predicted": CODENAME.get(r["predicted"]),
                    "what": "Language.parse and the parser model differ on a malformed string (K_C13)"},
                    has_input=False, signature=root_cause(gl, s, po, r["info"]))

    # ---- defaults=True: unsupplied numbers are made-up sources, one per number
    dstats = {"trees": 0, "strings": 0, "repeated_unsupplied_numbers": 0, "outcomes": {}}
    nd_trees, nd_rend = (5, 4) if tier == "quick" else (12, 6)
    for li, (gl, trees, mal) in enumerate(work):
        tg = TreeGen(rng, gl)
        made = 0
        for _ in range(nd_trees * 12):
            if made >= nd_trees:
                break
            e0, _ = tg.tree(rng.choice([2, 3, 3, 4]))
            nums = rng.randint(1, 4)
            e = numberize(rng, gl, e0, nums)
            cnt = {}
            for leaf in tree_leaves(e):
                if leaf[0] == "num":
                    cnt[leaf[1]] = cnt.get(leaf[1], 0) + 1
            # the numbers are those of the TREE (the generated tree may already have had
            # numbered inputs beyond the ones numberize introduced)
            nums = max([nums] + list(cnt))
            m = rng.randint(0, nums - 1)           # numbers 1..m are supplied, m+1..nums are not
            rep_uns = [n for n, c in cnt.items() if n > m and c >= 2]
            if tree_size(e) > 40 or not cnt or (not rep_uns and rng.random() < 0.85):
                continue
            made += 1
            decl = [gl.gen_ty(rng, 1) if rng.random() < 0.4 else None for _ in range(m)]
            strings = [plain_render(e)]
            while len(strings) < nd_rend + 1:
                _, s = Renderer(rng).render(e)
                if len(s) <= 600:
                    strings.append(s)
            dstats["trees"] += 1
            dstats["strings"] += len(strings)
            dstats["repeated_unsupplied_numbers"] += len(rep_uns)
            fails = defaults_case(gl, e, decl, nums, strings)
            key = "agree" if not fails else "differ"
            dstats["outcomes"][key] = dstats["outcomes"].get(key, 0) + 1
            for fi, fl in enumerate(fails):
                violation(f"defaults_{li}_{made}_{fi}", dict(fl, kind="oracle", defaults=True, language=gl.describe(),
                    tree=tree_text(e), tree_ast=e, input_decl=decl, numbers=nums,
                    call="Language.parse(string, *supplied, defaults=True) with len(supplied) = len(input_decl)"),
                    has_input=True, signature="C13:defaults-number-not-one-object")
    n_eval += dstats["strings"]

    # ---- Expr.match
    mpairs = []
    for (li, gl, e, decl, s, ex, inputs, canon) in match_items:
        if canon is None:
            continue
        k = rng.random()
        if k < 0.4:
            core, s2 = Renderer(rng).render(e)
            what = "same tree, other notation"
            e2 = e
        else:
            e2, w = variant(rng, gl, e)
            s2 = plain_render(e2)
            what = "differs in " + w
        code2, _, ex2, in2, _ = impl_parse(gl, s2, decl)
        if code2 != 0:
            continue
        c2 = fixed_canon(gl, ex2, in2)
        if c2[0] == "fix-raised":
            continue
        try:
            verdict = bool(ex.match(ex2))
            verdict_rev = bool(ex2.match(ex))
        except Exception as exn:   # noqa: BLE001
            violation(f"match_raises_{len(mpairs)}", {"kind": "oracle", "a": s, "b": s2,
                "what": f"Expr.match raised {type(exn).__name__}"}, has_input=True)
            continue
        want = match_key(gl, canon) == match_key(gl, c2)
        mpairs.append((li, gl, canon, c2, verdict, what))
        if verdict != want or verdict_rev != want:
            violation(f"match_{len(mpairs)}", {"kind": "oracle", "language": gl.describe(), "a": s, "b": s2,
                "a_parsed": str(canon), "b_parsed": str(c2), "match": verdict, "match_reversed": verdict_rev,
                "same_shape_operators_source_types": want,
                "what": "Expr.match disagrees with equality of shape, operators and source types"}, has_input=True)
    # the model of match on the same pairs
    by_lang = {}
    for i, (li, gl, a, b, v, what) in enumerate(mpairs):
        ma, mb = mx_coq(gl, a), mx_coq(gl, b)
        if ma is not None and mb is not None:
            by_lang.setdefault(li, (gl, []))[1].append((i, ma, mb))
    mblocks = []
    keys = sorted(by_lang)
    for li in keys:
        gl, items = by_lang[li]
        mblocks.append((f"Definition H_{li} := {hier_coq(gl)}.\n"
            f"Eval vm_compute in map (fun p => ematch H_{li} (fst p) (snd p)) ["
            + ";\n ".join(f"({a}, {b})" for _, a, b in items) + "].\n", 1))
    match_model = 0
    if mblocks:
        mouts = C.coq_eval_blocks(f"C13_match_{tier}", MHDR, mblocks, nfiles=2)
        for li, vals in zip(keys, mouts):
            for (i, _, _), mv in zip(by_lang[li][1], vals[0]):
                match_model += 1
                if bool(mv) != mpairs[i][4]:
                    dis += 1
                    violation(f"match_model_{i}", {"kind": "correspondence", "a": str(mpairs[i][2]),
                        "b": str(mpairs[i][3]), "impl": mpairs[i][4], "model": bool(mv),
                        "what": "Expr.match differs from the model ematch (Parse/ExMatch.v)"}, has_input=False)

    mdist = {}
    for (_, _, _, _, v, what) in mpairs:
        key = f"{what}: {'match' if v else 'no match'}"
        mdist[key] = mdist.get(key, 0) + 1
    sizes.sort()
    rep.coverage.update({
        "evaluations": n_eval, "distinct_nontrivial": len(distinct), "disagreements": dis,
        "rule": f"{nlang} generated languages (2-6 base types with subtyping, 1-3 compound operators, synonyms with "
                f"and without parameters, 3-7 operators: concrete function types of arity 1-3, constants, schematic "
                f"and constrained types); {ntree} expression trees per language built to be well-typed (12% of "
                f"operator choices and 15% of annotation types are free, so ill-typed trees occur), each written "
                f"plainly, without annotations, and in {nrend - 1} random mixes of f x y / f(x, y) / (f x) y / (x, y), "
                f"redundant brackets around expressions and inside annotation types, blanks/TAB/CR, newlines, "
                f"comments, non-ASCII decimal digits; plus {nmal} mutated strings per language for the "
                f"correspondence only; non-trivial = a random mix of a tree with at least 3 nodes",
        "trees": n_trees, "tree_size_quartiles": [sizes[len(sizes) * q // 4] for q in range(4)] + [sizes[-1]] if sizes else [],
        "notation_features_used": feats, "outcome_distribution": outcomes,
        "undeclared_exceptions_seen_(C17)": undeclared,
        "call_order_differences": pythonic_diff,
        "defaults_true": dstats,
        "match_pairs": len(mpairs), "match_pairs_in_model": match_model, "match_distribution": mdist,
        "samples": samples, "violations_found": viol, "exhaustive": False,
        "wall_generate_s": round(time.time() - t_gen, 1)})
    rep.assumptions = [
        "the type checker is abstract in the theorems (St, step): they state that parser and programmatic "
        "construction make the same calls in the same order; that the calls then infer the same types is "
        "observed on the implementation by this run, not proved",
        "f(x, y) evaluates its arguments before the first application; equality with f(x)(y) is order-"
        "independence of inference and is only tested here (C13_typed_partial in DESIGN.md)",
        "str.isdecimal / int / tokenize's groupby are modelled on the characters the generators use",
        "Expr.match is modelled for expressions without abstractions whose sources have concrete or untouched "
        "wildcard types",
        "model/implementation agreement is tested, not proved"]
    return rep.finish(C.TRUSTED)
