"""C13  All surface notations denote the same expression as programmatic construction.

proof stage     coq/props/C13.v (+ coq/props/C17_parser.v for parser_fuzz's callers)
correspondence  Language.parse / parse_type of /repo vs the Gallina parser model
                (Parse/ExParser.v) on the same strings; the model's abstract
                construction events are replayed with the real library objects
                (that replay IS the programmatic construction in parser order)
oracle          every rendering of one tree parses to the same expression as
                calling the operators as Python objects: structure and the type
                of every node after fix(); numbers denote the supplied objects;
                `-` is fresh; `e : T` leaves the tree alone; Expr.match agrees
                with shape/operator/source-type equality
"""
from __future__ import annotations

import json
import random
import time

from . import common as C

# ---------------------------------------------------------------------------
# Coq side: an instance of the section variables of Parse/ExParser.v
# (lookup tables of one generated language, decimal digits of the alphabet the
# generators use, the type checker replaced by a log of the events)

HDR = r"""From Coq Require Import List Arith Bool NArith ZArith.
Import ListNotations.
From TF Require Import Parse.ExTok Parse.ExParser.

Fixpoint assoc {A} (t : str) (l : list (str * A)) : option A :=
  match l with [] => None | (k, a) :: r => if str_eqb t k then Some a else assoc t r end.

(* decimal digits (str.isdecimal) among the characters the generators use *)
Definition decval (c : N) : option nat :=
  let n := N.to_nat in
  if (N.leb 48 c && N.leb c 57)%N then Some (n (c - 48)%N)
  else if (N.leb 1632 c && N.leb c 1641)%N then Some (n (c - 1632)%N)
  else if (N.leb 2406 c && N.leb c 2415)%N then Some (n (c - 2406)%N)
  else if (N.leb 65296 c && N.leb c 65305)%N then Some (n (c - 65296)%N)
  else None.

Definition St := list event.
Definition lstep (s : St) (e : event) : St + perr := inl (e :: s).

Fixpoint enc_pty (t : pty) : list nat :=
  match t with PVar => [0] | PApp c args => 1 :: c :: length args :: flat_map enc_pty args end.
Fixpoint enc_val (v : val) : list nat :=
  match v with
  | VOp id o => [0; id; o] | VSrc id => [1; id] | VIn k => [2; k]
  | VApp id f x => 3 :: id :: enc_val f ++ enc_val x
  end.
Definition enc_ev (e : event) : list nat :=
  match e with
  | EvOp v => 0 :: enc_val v | EvSrc v => 1 :: enc_val v | EvApp v => 2 :: enc_val v
  | EvExact v t => 3 :: enc_val v ++ enc_pty t | EvSub v t => 4 :: enc_val v ++ enc_pty t
  end.
Definition enc_err (e : perr) : nat :=
  match e with EBracket => 1 | EEmpty => 2 | EUndefined => 3 | EMissingInput => 4
             | EParse => 5 | ETyping => 6 | EApplication => 7 end.
Definition enc_site (s : site) : nat :=
  match s with SExprTop => 90 | SExprPop => 91 | STypePop => 92 | STypeIdx1 => 93 end.
Definition enc_out {A} (f : A -> list nat) (o : outcome A) : list nat :=
  match o with Ok a => 0 :: f a | Err e => [enc_err e] | Crash s => [enc_site s] end.

Section Inst.
  Variable lo : str -> option nat.
  Variable lt : str -> option (nat * nat).
  Variable ni : nat.
  Let P := pst St.

  (* the loop of [run] once more, keeping the log of the last good state so
     that the events before a parse error can be replayed; its outcome is
     compared with [parse_str]'s on every case *)
  Definition fin (p : P) : St * outcome (val * St) :=
    match md St p with
    | MExpr => (abs St p, finish_expr St p)
    | MType prev ts _ =>
        match ty_done St lstep p prev ts with
        | Ok p' => (abs St p', finish_expr St p')
        | Err e => (abs St p, Err e) | Crash s => (abs St p, Crash s)
        end
    end.
  Fixpoint trun (toks : list str) (p : P) : St * outcome (val * St) :=
    match toks with
    | [] => fin p
    | t :: r =>
        match t with
        | [] => match md St p with
                | MExpr => (abs St p, finish_expr St p)
                | MType prev ts _ =>
                    match ty_done St lstep p prev ts with
                    | Ok p' => trun r p'
                    | Err e => (abs St p, Err e) | Crash s => (abs St p, Crash s)
                    end
                end
        | _ => match step_tok lo lt decval St lstep ni p t with
               | Ok p' => trun r p'
               | Err e => (abs St p, Err e) | Crash s => (abs St p, Crash s)
               end
        end
    end.

  (* [code ; model outcome via parse_str] :: result :: events (oldest first) *)
  Definition pobs (s : str) : list (list nat) :=
    let o := parse_str lo lt decval St lstep ni s 0 [] in
    let (log, o') := trun (strip false (tokenize ex_specials s)) (init St 0 []) in
    [hd 99 (enc_out (fun _ => []) o); hd 99 (enc_out (fun _ => []) o')]
      :: match o with Ok (v, _) => enc_val v | _ => [] end
      :: map enc_ev (rev log).
  Definition tobs (s : str) : list nat := enc_out enc_pty (parse_type_str lt s).
  Definition kobs (s : str) : list (list nat) :=
    map (map N.to_nat) (strip false (tokenize ex_specials s)).
End Inst.
"""

ERRCODE = {"BracketMismatch": 1, "EmptyParse": 2, "UndefinedTokenError": 3,
           "MissingInputError": 4, "ParseError": 5, "Typing": 6, "ApplicationError": 7}
CODENAME = {0: "Ok", 1: "BracketMismatch", 2: "EmptyParse", 3: "UndefinedTokenError",
            4: "MissingInputError", 5: "ParseError", 6: "TypingError", 7: "ApplicationError",
            90: "Crash:stack[-1]", 91: "Crash:stack.pop()", 92: "Crash:type stack.pop()",
            93: "Crash:stack[1]", 99: "?"}

# digits: decimal ones the Coq table knows, and numeric-but-not-decimal ones
DEC_DIGITS = "0123456789" + "٠١٢٣٩" + "०१" + "１２"
NONDEC_NUMERIC = "²³¹½Ⅷ四"


def coq_str(s: str) -> str:
    return "[" + ";".join(str(ord(c)) for c in s) + "]%N" if s else "(@nil N)"
