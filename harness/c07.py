"""C07  Each concept node carries its inferred type and all canonical supertypes.

proof stage     coq/props/C07.v: for every list of annotated concepts (every
                insertion history into a fresh graph) and every combination of
                the with_* switches, the type / subtypeOf / via / containsType /
                containsOperation triples and the type-node descriptions are
                exactly the prescribed ones (Graph/Annot*.v; supertypes through
                C10's theorem; URIs through C14's)
correspondence  TransformationGraph.add_expr (one or several roots in one graph) /
                add_workflow of the working tree
                vs the Gallina model (Graph/Annot.v + Graph/AddExpr.v wiring) on
                generated well-typed expressions and workflows over generated
                languages with varied canon; annotation triples, type-node
                descriptions and from/internal edges compared up to renaming of
                blank nodes
oracle          written from the property text, on the implementation's graph:
                per source node (exact node) and per operation (as a multiset)
                type node, subtypeOf set, via; membership sets; type nodes
                (operator, parameters in order, one node per distinct type, URI
                iff Language.uri has one); predicate names against
                vocab/transforge.ttl and the query generator, both read at run time
"""
from __future__ import annotations

import json
import random
import re
from collections import Counter

from . import common as C

PID = "C07"
NS = "https://example.com/c07#"
SIG_PRED = "graph-emits-containsOperator-but-vocabulary-and-query-use-containsOperation"
SIG_SRC = "source-type-held-through-bound-variable-is-treated-as-noncanonical"
MAX_CANON = 60
MAX_NODES = 40

SWITCHES = ["with_operators", "with_types", "with_supertypes", "with_intermediate_types",
            "with_membership", "with_membership_supertypes", "with_type_parameters",
            "with_noncanonical_types", "with_canonical_types"]
# switches that do not steer the annotation; varied so that they are seen not to matter
OTHER = ["with_labels", "with_classes", "with_inputs", "with_output", "with_workflow_origin",
         "with_dependencies"]


# --------------------------------------------------------------------------
# languages

class Lang:
    """hierarchy + canon specification + transformation operators.
    Operator signature: curried list of parameter schemas and an output schema;
    schema = ["T", op, [schemas]] | ["V", k]; cons = [[k, base op]] meaning x_k <= op."""

    def __init__(self, h: C.Hierarchy, listed, top: bool, bot: bool, ops):
        self.h, self.listed, self.top, self.bot, self.ops = h, listed, top, bot, ops
        self.index = {o["name"]: i for i, o in enumerate(ops)}

    def to_json(self):
        return {"hierarchy": self.h.to_json(), "listed": self.listed, "top": self.top,
                "bot": self.bot, "operators": self.ops, "text": self.text()}

    @staticmethod
    def from_json(d) -> "Lang":
        def tup(t):
            return (t[0], [tup(a) for a in t[1]])
        listed = None if d["listed"] is None else [tup(t) for t in d["listed"]]
        return Lang(C.Hierarchy.from_json(d["hierarchy"]), listed, d["top"], d["bot"], d["operators"])

    def build(self):
        import transforge.type as T
        from transforge.expr import Operator
        from transforge.lang import Language
        h = self.h
        tops = h.build()
        self.tops = dict(tops)
        self.inv = {id(op): i for i, op in tops.items()}
        scope = {str(tops[i]): tops[i] for i in h.ids}

        def mk(s, vs):
            if s[0] == "V":
                return vs[s[1]]
            return tops[s[1]](*[mk(a, vs) for a in s[2]])

        def sig(o, vs):
            t = mk(o["out"], vs)
            for p in reversed(o["params"]):
                t = T.Function(mk(p, vs), t)
            cs = [vs[k] <= tops[b]() for k, b in o.get("cons", [])]
            if cs:
                t = t[tuple(cs)] if len(cs) > 1 else t[cs[0]]
            return t
        self.py = {}
        for o in self.ops:
            n = o["nvars"]
            if n == 0:
                ty = sig(o, [])
            elif n == 1:
                ty = (lambda o: lambda x: sig(o, [x]))(o)
            else:
                ty = (lambda o: lambda x, y: sig(o, [x, y]))(o)
            body = None
            if o.get("dup"):
                # composite that uses its parameter twice: lambda x: g x x
                body = (lambda g: lambda x: self.py[g].instance()(x, x))(o["dup"])
            elif o.get("chain"):
                # composite: lambda x: a (b x) for chain [b, a]
                body = (lambda names: lambda x: self._chain(names, x))(o["chain"])
            self.py[o["name"]] = Operator(type=ty, name=o["name"], body=body)
            scope[o["name"]] = self.py[o["name"]]
        canon = None
        if self.listed is not None:
            canon = [self.inst(t) for t in self.listed]
            if self.top:
                canon.append(T.Top)
            if self.bot:
                canon.append(T.Bottom)
        self.language = Language(scope=scope, namespace=NS, canon=canon if canon is not None else ())
        return self.language

    def inst(self, t):
        return self.tops[t[0]](*(self.inst(a) for a in t[1]))

    def _chain(self, names, x):
        e = x
        for n in names:
            e = self.py[n].instance()(e)
        return e

    def from_impl(self, t):
        """transforge type -> (op, args); None when a variable is left in it"""
        import transforge.type as T
        t = t.follow()
        if not isinstance(t, T.TypeOperation):
            return None
        args = [self.from_impl(p) for p in t.params]
        if any(a is None for a in args):
            return None
        return (self.inv[id(t.operator)], args)

    def canon_list(self):
        c = [self.from_impl(t) for t in self.language.canon]
        return sorted(c, key=repr)

    def names(self):
        return self.h.names()

    def tstr(self, t):
        return "?" if t is None else C.ty_str(t, self.names())

    def text(self):
        n = {0: "Top", 1: "Bottom", 2: "Unit", 3: "Function", 4: "Product"}
        for i in range(5, 5 + self.h.nbase):
            n[i] = f"B{i}"
        for i in self.h.variances:
            n[i] = f"K{i}"

        def st(s):
            if s[0] == "V":
                return "xy"[s[1]]
            return n[s[1]] + ("(" + ", ".join(st(a) for a in s[2]) + ")" if s[2] else "")
        return {"base": {n[i]: (n[self.h.parents[i]] if i in self.h.parents else None)
                         for i in range(5, 5 + self.h.nbase)},
                "compound": {n[i]: ["co" if v else "contra" for v in vs]
                             for i, vs in self.h.variances.items()},
                "canon": "default (all base types)" if self.listed is None else
                         [C.ty_str(t, n) for t in self.listed] + (["Top"] if self.top else [])
                         + (["Bottom"] if self.bot else []),
                "operators": {o["name"]: " ** ".join(
                    [("(" + st(p) + ")" if p[0] == "T" and p[1] == 3 else st(p)) for p in o["params"]]
                    + [st(o["out"])]) + ("".join(f" [{'xy'[k]} <= {n[b]}]" for k, b in o.get("cons", [])))
                    + (" = \\x. " + " (".join(reversed(o["chain"])) + " x" + ")" * (len(o["chain"]) - 1)
                       if o.get("chain") else (" = \\x. " + o["dup"] + " x x") if o.get("dup") else "")
                    for o in self.ops}}


def T_(o, *args):
    return ["T", o, list(args)]


def sch(t):
    """ground tuple -> schema"""
    return ["T", t[0], [sch(a) for a in t[1]]]


def gen_lang(rng: random.Random) -> Lang:
    nbase = rng.randint(2, 6)
    parents, depth = {}, {}
    for i in range(5, 5 + nbase):
        cands = [j for j in range(5, i) if depth[j] < 3]
        if cands and rng.random() < 0.75:
            p = rng.choice(cands)
            parents[i] = p
            depth[i] = depth[p] + 1
        else:
            depth[i] = 0
    variances = {}
    for k in range(rng.randint(1, 2)):
        ar = 1 if rng.random() < 0.6 else 2
        variances[5 + nbase + k] = [rng.random() < 0.65 for _ in range(ar)]
    h = C.Hierarchy(parents, variances, nbase)
    bases = list(range(5, 5 + nbase))
    comps = sorted(variances)

    def ty(d):
        if d == 0 or rng.random() < 0.35:
            return (rng.choice(bases), [])
        o = rng.choice(comps)
        return (o, [ty(d - 1) for _ in range(h.arity(o))])
    r = rng.random()
    if r < 0.2:
        listed, top, bot = None, False, False
    else:
        listed = []
        for _ in range(rng.randint(1, 4)):
            q = rng.random()
            listed.append(ty(0) if q < 0.25 else ty(1) if q < 0.8 else ty(2))
        if not any(t[1] for t in listed) and rng.random() < 0.85:
            o = rng.choice(comps)
            listed.append((o, [ty(rng.choice([0, 0, 1])) for _ in range(h.arity(o))]))
        top, bot = rng.random() < 0.6, rng.random() < 0.4
        c1l = [o for o in comps if h.arity(o) == 1]
        if c1l and rng.random() < 0.4:
            listed.append((rng.choice(c1l), [(rng.choice(c1l), [ty(0)])]))      # K(K'(A)) canonical
    # the canonical types this gives (operators take and produce mostly those)
    try:
        L0 = Lang(h, listed, top, bot, [])
        L0.build()
        canon0 = [t for t in L0.canon_list() if t is not None and not mentions(t, (0, 1, 2, 3, 4))]
        if len(L0.language.canon) > MAX_CANON:
            return None
    except Exception:
        return None
    ccomp = [t for t in canon0 if t[1]]
    # transformation operators
    roots = [b for b in bases if b not in parents]
    ops = []

    def pty():
        q = rng.random()
        if q < 0.35:
            return (rng.choice(roots), [])
        if q < 0.6 and ccomp:
            return rng.choice(ccomp)
        if q < 0.8:
            return ty(0)
        return ty(1)

    def oty():
        q = rng.random()
        if ccomp and q < 0.4:
            return rng.choice(ccomp)
        if canon0 and q < 0.55:
            return rng.choice(canon0)
        if q < 0.65:
            return ty(0)
        if q < 0.9:
            return ty(1)
        return ty(2)
    for k in range(rng.randint(2, 4)):
        ops.append({"name": f"f{len(ops)}", "nvars": 0,
                    "params": [sch(pty()) for _ in range(rng.choice([1, 1, 2, 2, 3]))],
                    "out": sch(oty())})
    for k in range(rng.randint(1, 3)):
        q = rng.random()
        name = f"f{len(ops)}"
        c1 = [o for o in comps if h.arity(o) == 1]
        c2 = [o for o in comps if h.arity(o) == 2]
        cons = [[0, rng.choice(bases)]] if rng.random() < 0.6 else []
        if q < 0.3 and c1:
            ops.append({"name": name, "nvars": 1, "params": [["V", 0]],
                        "out": T_(rng.choice(c1), ["V", 0]), "cons": cons})
        elif q < 0.5:
            ops.append({"name": name, "nvars": 1, "params": [["V", 0], ["V", 0]], "out": ["V", 0],
                        "cons": cons})
        elif q < 0.65 and c1:
            ops.append({"name": name, "nvars": 1, "params": [T_(rng.choice(c1), ["V", 0])],
                        "out": ["V", 0], "cons": []})
        elif q < 0.8 and c2:
            ops.append({"name": name, "nvars": 2, "params": [["V", 0], ["V", 1]],
                        "out": T_(rng.choice(c2), ["V", 0], ["V", 1]), "cons": cons})
        else:
            # higher order: takes one of the one-parameter operators (or anything of its type)
            ones = [o for o in ops if o["nvars"] == 0 and len(o["params"]) == 1]
            if not ones:
                continue
            g = rng.choice(ones)
            ops.append({"name": name, "nvars": 0,
                        "params": [T_(3, g["params"][0], g["out"]), g["params"][0]],
                        "out": g["out"] if rng.random() < 0.6 else sch(oty())})
    # a signature with a variable two levels down, x ** K(K'(x)): the result type is built by
    # instantiation and must still be recognised as the canonical type it is
    c1s = [o for o in comps if h.arity(o) == 1]
    if c1s and rng.random() < 0.5:
        k1, k2 = rng.choice(c1s), rng.choice(c1s)
        ops.append({"name": f"f{len(ops)}", "nvars": 1, "params": [["V", 0]],
                    "out": T_(k1, T_(k2, ["V", 0])), "cons": []})
    # a composite operator (a chain of two one-parameter operators) and something to pass it to
    ones = [o for o in ops if o["nvars"] == 0 and len(o["params"]) == 1 and not o.get("chain")
            and o["params"][0][1] != 3]
    if ones and rng.random() < 0.5:
        pairs = [(b, a) for b in ones for a in ones if sub(h, tup(b["out"]), tup(a["params"][0]))]
        if pairs:
            b, a = rng.choice(pairs)
            cname = f"f{len(ops)}"
            ops.append({"name": cname, "nvars": 0, "params": [b["params"][0]], "out": a["out"],
                        "chain": [b["name"], a["name"]]})
            ops.append({"name": f"f{len(ops)}", "nvars": 0,
                        "params": [T_(3, b["params"][0], a["out"]), b["params"][0]],
                        "out": a["out"] if rng.random() < 0.5 else sch(oty())})
    # a composite operator that uses its parameter twice (the argument's expression object then
    # occurs twice in the expansion)
    twos = [o for o in ops if o["nvars"] == 0 and len(o["params"]) == 2 and not o.get("chain")
            and o["params"][0] == o["params"][1] and o["params"][0][1] != 3]
    if twos and rng.random() < 0.6:
        g = rng.choice(twos)
        ops.append({"name": f"f{len(ops)}", "nvars": 0, "params": [g["params"][0]], "out": g["out"],
                    "dup": g["name"]})
    return Lang(h, listed, top, bot, ops)


# --------------------------------------------------------------------------
# the declarative subtype order on (op, args) tuples, written from C01's statement

def chain(h, o):
    r = [o]
    while o in h.parents:
        o = h.parents[o]
        r.append(o)
    return r


def sub(h, s, t) -> bool:
    if s == (1, []) or t == (0, []):
        return True
    if not s[1] and not t[1]:
        return h.arity(s[0]) == 0 and h.arity(t[0]) == 0 and t[0] in chain(h, s[0])
    if s[0] != t[0] or len(s[1]) != len(t[1]):
        return False
    return all(sub(h, a, b) if v else sub(h, b, a)
               for v, a, b in zip(h.variance(s[0]), s[1], t[1]))


def ground(s) -> bool:
    return s[0] == "T" and all(ground(a) for a in s[2])


def tup(s):
    return (s[1], [tup(a) for a in s[2]])


# --------------------------------------------------------------------------
# expression recipes: ("src", key, type|None) | ("op", name, [recipes])

def build(L: Lang, r, env):
    import transforge.expr as E
    if r[0] == "src":
        if r[1] not in env:
            env[r[1]] = E.Source(L.inst(r[2])) if r[2] is not None else E.Source()
        return env[r[1]]
    e = L.py[r[1]].instance()
    for a in r[2]:
        e = e(build(L, a, env))
    return e


def rekey(r, counter, rng=None, share=0.0, seen=None):
    """give every source leaf its own key; with probability [share] reuse an earlier
    source of the same type instead"""
    if r[0] == "src":
        if rng is not None and seen and rng.random() < share:
            same = [k for k, t in seen if t == r[2]]
            if same:
                return ("src", rng.choice(same), r[2])
        counter[0] += 1
        if seen is not None:
            seen.append((counter[0], r[2]))
        return ("src", counter[0], r[2])
    return ("op", r[1], [rekey(a, counter, rng, share, seen) for a in r[2]])


def rsize(r) -> int:
    return 1 if r[0] == "src" else 1 + sum(rsize(a) for a in r[2])


def rtext(L: Lang, r) -> str:
    if r[0] == "src":
        return f"(s{r[1]} : {L.tstr(r[2])})" if r[2] is not None else f"s{r[1]}"
    if not r[2]:
        return r[1]
    return "(" + " ".join([r[1]] + [rtext(L, a) for a in r[2]]) + ")"


def try_type(L: Lang, r):
    """type of the freshly built recipe: ('ok', tuple|None) or None when it does not build"""
    import transforge.type as T
    import transforge.expr as E
    try:
        e = build(L, rekey(r, [0]), {}).primitive()
    except (T.TypingError, E.ApplicationError, AssertionError, RecursionError):
        return None
    return ("ok", L.from_impl(e.type))


def source_types(rng, L: Lang, canon):
    """ground types to give to sources: mostly canonical, some not"""
    h = L.h
    bases = list(range(5, 5 + h.nbase))
    comps = sorted(h.variances)
    pool = []
    plain = [t for t in canon if t[0] not in (0, 1) and not mentions(t, (0, 1, 3))]
    pool += rng.sample(plain, min(len(plain), 6))
    withtb = [t for t in canon if t[1] and mentions(t, (0, 1))]
    pool += rng.sample(withtb, min(len(withtb), 2))
    for _ in range(3):
        o = rng.choice(comps)
        args = []
        for _ in range(h.arity(o)):
            if rng.random() < 0.6 or not comps:
                args.append((rng.choice(bases), []))
            else:
                o2 = rng.choice(comps)
                args.append((o2, [(rng.choice(bases), []) for _ in range(h.arity(o2))]))
        pool.append((o, args))
    pool += [(b, []) for b in rng.sample(bases, min(len(bases), 3))]
    out = []
    for t in pool:
        if t not in out:
            out.append(t)
    return out


def mentions(t, ops) -> bool:
    return t[0] in ops or any(mentions(a, ops) for a in t[1])


def gen_pool(rng, L: Lang, canon, rounds: int):
    """grow a pool of recipes that build (type-check) with the real library"""
    h = L.h
    pool = []      # (recipe, type tuple | None)
    for t in source_types(rng, L, canon):
        pool.append((("src", 0, t), t))
    for o in L.ops:
        r = ("op", o["name"], [])
        tt = try_type(L, r)
        if tt:
            pool.append((r, tt[1]))
    for _ in range(rounds):
        o = rng.choice(L.ops)
        n = len(o["params"])
        k = n if rng.random() < 0.85 else rng.randint(1, n)
        args = []
        untyped_var = set()
        for pi, p in enumerate(o["params"][:k]):
            if ground(p):
                want = tup(p)
                c = [e for e in pool if e[1] is not None and sub(h, e[1], want)]
            else:
                c = [e for e in pool if e[1] is not None and e[1][0] != 3]
                # an untyped source where the same variable also gets a typed argument:
                # its type is then resolved through a bound variable (graph.py:247)
                twins = [q for qi, q in enumerate(o["params"][:k]) if qi != pi and q == p]
                if p[0] == "V" and twins and p[1] not in untyped_var and rng.random() < 0.3:
                    untyped_var.add(p[1])
                    args.append(("src", 0, None))
                    continue
            if not c:
                args = None
                break
            big = [e for e in c if rsize(e[0]) > 1]
            e = rng.choice(big) if big and rng.random() < 0.5 else rng.choice(c)
            args.append(e[0])
        if args is None:
            continue
        r = ("op", o["name"], args)
        if rsize(r) > MAX_NODES // 2:
            continue
        tt = try_type(L, r)
        if tt and not any(q[0] == r for q in pool):
            pool.append((r, tt[1]))
    return pool


# --------------------------------------------------------------------------
# walking the expression actually handed over: tree with identities and types

def walk(L: Lang, e, ids: dict, keep: list):
    import transforge.expr as E
    import transforge.type as T

    def oid(x):
        if id(x) not in ids:
            ids[id(x)] = len(ids)
            keep.append(x)
        return ids[id(x)]
    if isinstance(e, E.Source):
        return {"k": "src", "id": oid(e), "t": L.from_impl(e.type),
                "via_var": isinstance(e.type, T.TypeVariable)}
    if isinstance(e, E.Variable):
        return {"k": "var", "id": oid(e)}
    if isinstance(e, E.Operation):
        return {"k": "op", "id": oid(e), "name": e.operator.name, "j": L.index[e.operator.name],
                "t": L.from_impl(e.type.output())}
    if isinstance(e, E.Abstraction):
        return {"k": "abs", "id": oid(e), "ps": [oid(p) for p in e.params],
                "b": walk(L, e.body, ids, keep)}
    assert isinstance(e, E.Application), type(e)
    xt = e.x.type
    fn = isinstance(xt, T.TypeOperation) and xt.operator == T.Function     # graph.py:351-352
    return {"k": "app", "id": oid(e), "f": walk(L, e.f, ids, keep),
            "x": walk(L, e.x, ids, keep), "fn": bool(fn)}


def leaves(w):
    if w["k"] in ("src", "op", "var"):
        yield w
    elif w["k"] == "abs":
        yield from leaves(w["b"])
    else:
        yield from leaves(w["f"])
        yield from leaves(w["x"])


def wsize(w) -> int:
    if w["k"] in ("src", "op", "var"):
        return 1
    if w["k"] == "abs":
        return 1 + wsize(w["b"])
    return 1 + wsize(w["f"]) + wsize(w["x"])


def coq_cexpr(w) -> str:
    k = w["k"]
    if k == "src":
        return f"(CSrc {w['id']} {C.ty_coq(w['t'])})"
    if k == "var":
        return f"(CVar {w['id']})"
    if k == "op":
        return f"(COp {w['id']} {w['j']} {C.ty_coq(w['t'])})"
    if k == "abs":
        return f"(CAbs {w['id']} {C.coq_list(w['ps'])} {coq_cexpr(w['b'])})"
    return (f"(CApp {w['id']} {coq_cexpr(w['f'])} {coq_cexpr(w['x'])} "
            f"{'true' if w['fn'] else 'false'})")


def expected_concepts(ws, memo_tops=True):
    """the Sources and Operations add_expr annotates, in visiting order, with
    the [intermediate] flag; one entry per visit (sources once: they are reused)"""
    memo = set()
    out = []

    def go(w, inter):
        key = (w["k"], w["id"])
        if key in memo:
            return
        k = w["k"]
        if k == "src":
            memo.add(key)
            out.append({"kind": "src", "id": w["id"], "t": w["t"], "inter": False,
                        "via_var": w.get("via_var", False)})
        elif k == "op":
            out.append({"kind": "op", "id": w["id"], "name": w["name"], "t": w["t"], "inter": inter})
        elif k == "app":
            go(w["f"], inter)
            x = w["x"]
            if w["fn"] and x["k"] == "abs":
                for p in x["ps"]:
                    memo.add(("var", p))
                go(x["b"], True)
            else:
                go(x, True)
        else:
            raise ValueError("expression outside add_expr's domain")
    for ti, w in enumerate(ws):
        key = (w["k"], w["id"])
        if key in memo:
            continue
        n0 = len(out)
        go(w, False)
        for c in out[n0:]:
            c["top"] = ti
        if memo_tops:
            memo.add(key)
    return out


# --------------------------------------------------------------------------
# cases

class Case:
    def __init__(self, L: Lang, kind: str, spec, sw: dict, other: dict, name: str):
        self.L, self.kind, self.spec, self.sw, self.other, self.name = L, kind, spec, sw, other, name
        self.skip = None

    def payload(self):
        L = self.L
        d = {"language": L.to_json(), "case_kind": self.kind, "switches": self.sw, "other_switches": self.other,
             "name": self.name, "namespace": NS}
        if self.kind == "multi":
            d["recipes"] = self.spec
            d["expressions"] = [rtext(L, r) for r in self.spec]
            d["how_to_rebuild"] = ("language as described; build every expression on its own Source objects, "
                "then .primitive(); ONE g = TransformationGraph(lang, **switches, **other_switches, "
                "with_supertype_classes=False); g.add_expr(expr_k, URIRef('https://example.com/tfm#r<k>')) "
                "for k = 0, 1, ...: every root must have the membership triples of its own expression")
        elif self.kind == "expr":
            d["recipe"] = self.spec
            d["expression"] = rtext(L, self.spec)
            d["how_to_rebuild"] = ("base types B<i> with the listed parents, compound operators K<i> with the "
                "listed variances, Language(scope, namespace, canon=listed (+Top/Bottom) or None); build the "
                "expression by calling the operators on Source(type) objects (s<k> without a type = Source()), "
                "same s<k> = same object, then .primitive(); g = TransformationGraph(lang, **switches, **other_switches, "
                "with_supertype_classes=False); g.add_expr(expr, root); when other_switches contains `minimal`, "
                "pass it and leave out every switch whose value equals its default (not minimal; "
                "with_canonical_types False; with_intermediate_types = with_types)")
        else:
            d["workflow"] = self.spec
            d["how_to_rebuild"] = ("WorkflowDict(root, {out_k: (expression_k, inputs_k)}, sources); "
                "g = TransformationGraph(lang, **switches, **other_switches); g.add_workflow(wf)")
        return d


def gen_switches(rng):
    sw = {}
    for s in SWITCHES:
        p = {"with_types": 0.93, "with_operators": 0.85, "with_noncanonical_types": 0.75,
             "with_canonical_types": 0.2, "with_intermediate_types": 0.8}.get(s, 0.75)
        sw[s] = rng.random() < p
    other = {s: rng.random() < 0.3 for s in OTHER}
    # a third of the graphs are built the way users build them: `minimal=...` plus only the
    # switches that depart from their documented defaults (run_impl leaves the others out)
    if rng.random() < 0.35:
        other["minimal"] = rng.random() < 0.6
    return sw, other


def constructor_kwargs(sw: dict, other: dict) -> dict:
    """The keyword arguments for TransformationGraph: all switches spelled out, or - when
    `minimal` is part of the case - only those whose wanted value is not the default
    (graph.py:62-85: a switch left out is `not minimal`; with_canonical_types and
    with_supertype_classes are off; with_intermediate_types follows with_types)."""
    kw = dict(sw)
    kw.update(other)
    if "minimal" not in other:
        return kw
    m = other["minimal"]
    want = dict(kw)
    want.pop("minimal")
    out = {"minimal": m}
    for k, v in want.items():
        if k == "with_canonical_types":
            dflt = False
        elif k == "with_intermediate_types":
            dflt = want["with_types"]
        else:
            dflt = not m
        if v != dflt:
            out[k] = v
    return out


def gen_cases(rng, nlang: int, per_lang: int):
    cases = []
    tries = 0
    while len({id(c.L) for c in cases}) < nlang and tries < nlang * 10:
        tries += 1
        L = gen_lang(rng)
        if L is None:
            continue
        try:
            L.build()
        except Exception:
            continue
        if len(L.language.canon) > MAX_CANON:
            continue
        canon = L.canon_list()
        pool = gen_pool(rng, L, canon, 60)
        cands = [e for e in pool if e[0][0] == "op" and e[0][2]]
        if not cands:
            continue
        weights = [rsize(e[0]) ** 1.5 for e in cands]
        nwf = max(1, per_lang // 3)
        for i in range(per_lang - nwf - max(1, per_lang // 4)):
            r = rng.choices(cands, weights)[0][0]
            seen = []
            r2 = rekey(r, [0], rng, 0.35, seen)
            if try_type_keyed(L, r2) is None:
                r2 = rekey(r, [0])
            sw, other = gen_switches(rng)
            cases.append(Case(L, "expr", r2, sw, other, f"L{tries}_e{i}"))
        # composites that use their parameter twice, applied to a compound argument: the
        # argument's expression objects occur twice in the expansion (one node per occurrence)
        for o in [o for o in L.ops if o.get("dup")]:
            want = tup(o["params"][0])
            fit = [e for e in cands if e[1] is not None and sub(L.h, e[1], want)
                   and rsize(e[0]) <= MAX_NODES // 4]
            for e in rng.sample(fit, min(2, len(fit))):
                r2 = rekey(("op", o["name"], [e[0]]), [0])
                if try_type_keyed(L, r2) is not None:
                    sw, other = gen_switches(rng)
                    cases.append(Case(L, "expr", r2, sw, other, f"L{tries}_d{len(cases)}"))
        for i in range(max(1, per_lang // 4)):
            # several transformations in one graph, mostly with types in common
            k = rng.choice([2, 2, 3])
            rs = [rng.choices(cands, weights)[0][0]]
            while len(rs) < k:
                q = rng.random()
                rs.append(rng.choice(rs) if q < 0.45 else rng.choices(cands, weights)[0][0])
            small = [r for r in rs if rsize(r) <= MAX_NODES // 3]
            if len(small) < 2:
                continue
            sw, other = gen_switches(rng)
            if rng.random() < 0.5:
                sw["with_membership_supertypes"] = True
                sw["with_types"] = True
            keyed = []
            for r in small:
                r2 = rekey(r, [0], rng, 0.3, [])
                keyed.append(r2 if try_type_keyed(L, r2) else rekey(r, [0]))
            cases.append(Case(L, "multi", keyed, sw, other, f"L{tries}_m{i}"))
        for i in range(nwf):
            wf = gen_workflow(rng, L, pool)
            if wf is None:
                continue
            sw, other = gen_switches(rng)
            cases.append(Case(L, "wf", wf, sw, other, f"L{tries}_w{i}"))
    return cases


def try_type_keyed(L, r):
    import transforge.type as T
    import transforge.expr as E
    try:
        build(L, r, {}).primitive()
    except (T.TypingError, E.ApplicationError, AssertionError, RecursionError):
        return None
    return True


# --------------------------------------------------------------------------
# workflows: {"sources": {name: type}, "tools": [{"out": name, "expr": text, "inputs": [names]}]}

def wf_arg_text(L: Lang, r, inputs, resmap):
    """text of a recipe used inside a tool expression; ("res", name) leaves are
    numbered inputs, typed sources are annotated, untyped ones stay anonymous"""
    if r[0] == "res":
        name = r[1]
        if name not in inputs:
            inputs.append(name)
        k = inputs.index(name) + 1
        t = resmap[name]
        return f"({k} : {L.tstr(t)})" if t is not None and name.startswith("s") else f"{k}"
    if r[0] == "src":
        return f"(- : {L.tstr(r[2])})" if r[2] is not None else "-"
    if not r[2]:
        return r[1]
    return "(" + " ".join([r[1]] + [wf_arg_text(L, a, inputs, resmap) for a in r[2]]) + ")"


def gen_workflow(rng, L: Lang, pool):
    import transforge.expr as E
    import transforge.type as T
    h = L.h
    typed_src = [e for e in pool if e[0][0] == "src" and e[1] is not None]
    small = [e for e in pool if e[1] is not None and e[1][0] != 3 and rsize(e[0]) <= 4
             and not has_untyped(e[0])]
    if not typed_src:
        return None
    for attempt in range(14):
        res = {}          # resource name -> type (sources: declared; outputs: inferred)
        srcs = {}
        tools = []
        unused = []
        ntools = rng.randint(2, 4)
        ok = True
        for k in range(ntools):
            o = rng.choice([o for o in L.ops])
            args = []
            for p in o["params"]:
                want = tup(p) if ground(p) else None
                if want is not None and want[0] == 3:
                    c = [e for e in pool if e[0][0] == "op" and e[1] is not None and sub(h, e[1], want)
                         and rsize(e[0]) <= 3 and not has_untyped(e[0])]
                    if not c:
                        args = None
                        break
                    args.append(rng.choice(c)[0])
                    continue
                outs = [n for n in unused if res[n] is not None and (want is None or sub(h, res[n], want))]
                if outs and rng.random() < 0.8:
                    n = rng.choice(outs)
                    args.append(("res", n))
                    continue
                q = rng.random()
                old = [n for n in srcs if want is None or sub(h, srcs[n], want)]
                if old and q < 0.3:
                    args.append(("res", rng.choice(old)))
                elif q < 0.75:
                    c = [e for e in typed_src if want is None or sub(h, e[1], want)]
                    if not c:
                        args = None
                        break
                    n = f"s{len(srcs)}"
                    srcs[n] = rng.choice(c)[1]
                    res[n] = srcs[n]
                    args.append(("res", n))
                else:
                    c = [e for e in small if want is None or sub(h, e[1], want)]
                    if not c:
                        args = None
                        break
                    args.append(rng.choice(c)[0])
            if not args:
                ok = False
                break
            inputs = []
            text = " ".join([o["name"]] + [wf_arg_text(L, a, inputs, res) for a in args])
            if not inputs:
                ok = False
                break
            # the output type, by the real parser
            try:
                ins = [E.Source(L.inst(res[n])) for n in inputs]
                e = L.language.parse_expr(text, *ins)
                ot = L.from_impl(e.type)
            except Exception:
                ok = False
                break
            if ot is None or ot[0] == 3:
                ok = False
                break
            out = f"t{k}"
            res[out] = ot
            for n in inputs:
                if n in unused:
                    unused.remove(n)
            unused.append(out)
            tools.append({"out": out, "expr": text, "inputs": inputs})
        if ok and len(unused) == 1 and len(tools) >= 2:
            return {"sources": {n: t for n, t in srcs.items()}, "tools": tools}
    return None


def has_untyped(r) -> bool:
    if r[0] == "src":
        return r[2] is None
    if r[0] == "res":
        return False
    return any(has_untyped(a) for a in r[2])


# --------------------------------------------------------------------------
# implementation run

def tf_names():
    from transforge.namespace import TF, RDF, RDFS
    return str(TF), str(RDF), RDFS.subClassOf


def observe(g, root):
    """the triples the property talks about, predicates by local name; blank
    nodes as ('b', id), URIs as ('u', text), the root as ('r',)"""
    from rdflib import BNode, URIRef
    TFs, RDFs, SUBCLASS = tf_names()
    IGN = {"depends", "origin", "input", "output"}
    out = set()

    def nd(x):
        if x == root:
            return ("r",)
        if isinstance(x, BNode):
            return ("b", str(x))
        if isinstance(x, URIRef):
            return ("u", str(x))
        return None
    for s, p, o in g:
        ps = str(p)
        if ps.startswith(TFs):
            name = ps[len(TFs):]
            if name in IGN:
                continue
        elif p == SUBCLASS:
            name = "subClassOf"
        elif ps.startswith(RDFs + "_"):
            name = ps[len(RDFs):]
        else:
            continue
        a, b = nd(s), nd(o)
        if a is None or b is None:
            continue
        out.add((a, name, b))
    return out


def run_impl(case: Case):
    """build and run on the working tree; fills case.ws (typed trees in call
    order), case.obs (observed triples), case.src_nodes, case.error"""
    from rdflib import BNode, URIRef
    import transforge.expr as E
    import transforge.type as T
    from transforge.graph import TransformationGraph
    from transforge.lang import NonCanonicalTypeError
    L = case.L
    kw = constructor_kwargs(case.sw, case.other)
    g = TransformationGraph(L.language, with_supertype_classes=False, with_transitive_closure=False, **kw)
    case.error = None
    ids, keep = {}, []
    case.keep = keep
    case.roots = [("r",)]
    if case.kind == "multi":
        try:
            tops = [build(L, r, {}).primitive() for r in case.spec]
        except (T.TypingError, E.ApplicationError, AssertionError, RecursionError) as ex:
            case.skip = "does_not_build"
            return
        rs = [URIRef(f"https://example.com/tfm#r{k}") for k in range(len(tops))]
        case.roots = [("u", str(r)) for r in rs]
        root = None
        for e, r in zip(tops, rs):
            try:
                g.add_expr(e, r)
            except NonCanonicalTypeError:
                case.error = "NonCanonicalTypeError"
                break
            except Exception as ex:
                case.error = f"{type(ex).__name__}: {str(ex)[:160]}"
                break
    elif case.kind == "expr":
        try:
            e = build(L, case.spec, {}).primitive()
        except (T.TypingError, E.ApplicationError, AssertionError, RecursionError) as ex:
            case.skip = "does_not_build"      # expansion of composites is C15's matter
            return
        root = BNode()
        try:
            g.add_expr(e, root)
        except NonCanonicalTypeError:
            case.error = "NonCanonicalTypeError"
        except Exception as ex:          # not a declared outcome of add_expr
            case.error = f"{type(ex).__name__}: {str(ex)[:160]}"
        tops = [e]
    else:
        from transforge.workflow import WorkflowDict
        wf = case.spec
        U = lambda n: URIRef("https://example.com/wf#" + n)
        root = U("root")
        apps = {U(t["out"]): (t["expr"], [U(n) for n in t["inputs"]]) for t in wf["tools"]}
        w = WorkflowDict(root, apps, {U(n) for n in wf["sources"]})
        try:
            ret = g.add_workflow(w)
        except NonCanonicalTypeError:
            case.error = "NonCanonicalTypeError"
            ret = None
        except Exception as ex:
            case.error = f"{type(ex).__name__}: {str(ex)[:160]}"
            case.crashed = True
            ret = None
        if ret is None:
            case.skip = "workflow_raises"     # which expressions exist is then unknown
            return
        # the expression of each resource: the key of expr_nodes that sits on its node
        bynode = {}
        for ex, n in g.expr_nodes.items():
            if not isinstance(ex, E.Variable):
                bynode.setdefault(n, []).append(ex)
        order, seen = [], set()

        def post(n):
            if n in seen:
                return
            seen.add(n)
            if n in w.tool_outputs:
                for i in w.inputs(n):
                    post(i)
            order.append(n)
        post(w.target())
        if case.other.get("with_inputs"):
            for n in w.sources:
                post(n)
        tops = []
        for n in order:
            if n not in ret:
                continue
            exs = bynode.get(ret[n], [])
            want = E.Source if n in w.sources else (E.Application, E.Operation, E.Source)
            exs = [x for x in exs if isinstance(x, want)]
            if len(exs) != 1:
                case.skip = "ambiguous_expr_node"
                return
            tops.append(exs[0])
    case.root = root
    case.ws = [walk(L, e, ids, keep) for e in tops]
    case.g = g
    case.obs = observe(g, root)
    case.src_nodes = {}
    for ex, n in g.expr_nodes.items():
        if isinstance(ex, E.Source) and id(ex) in ids:
            case.src_nodes[ids[id(ex)]] = ("b", str(n)) if isinstance(n, BNode) else ("u", str(n))
    if sum(wsize(w) for w in case.ws) > MAX_NODES:
        case.skip = "too_large"
    elif any(l["k"] in ("src", "op") and l["t"] is None for w in case.ws for l in leaves(w)):
        case.skip = "type_with_variable"


# --------------------------------------------------------------------------
# oracle (from the property text; does not use Language.supertypes nor the model)

def uri_text(L: Lang, t) -> str:
    n = L.names()

    def tx(t):
        return n[t[0]] + "".join("-" + tx(a) for a in t[1])
    from transforge.namespace import TF
    if not t[1]:
        return (str(TF) if t[0] < 5 else NS) + n[t[0]]
    return NS + tx(t)


def decode_type_node(L: Lang, obs_by_subj, node, depth=0):
    """read a blank type node back: (type tuple | None, problems)"""
    names = {v: k for k, v in L.names().items()}
    from transforge.namespace import TF
    probs = []
    if node[0] == "u":
        return ("uri", node[1]), probs
    props = obs_by_subj.get(node, [])
    sc = [o for p, o in props if p == "subClassOf"]
    params = {}
    for p, o in props:
        if p.startswith("_"):
            params.setdefault(int(p[1:]), []).append(o)
    if not sc and not params:
        return None, probs       # opaque (with_type_parameters off, or a base type)
    if len(sc) != 1 or sc[0][0] != "u":
        probs.append(f"type node with {len(sc)} operator links")
        return None, probs
    u = sc[0][1]
    base = u.split("#")[-1]
    if base not in names or not (u == NS + base or u == str(TF) + base):
        probs.append(f"operator link {u} is not an operator URI")
        return None, probs
    o = names[base]
    ar = L.h.arity(o)
    if sorted(params) != list(range(1, ar + 1)) or any(len(v) != 1 for v in params.values()):
        probs.append(f"parameters of {base}: positions {sorted(params)} with "
                     f"{[len(v) for _, v in sorted(params.items())]} objects, arity {ar}")
        return None, probs
    args = []
    for i in range(1, ar + 1):
        a, pr = decode_type_node(L, obs_by_subj, params[i][0], depth + 1)
        probs += pr
        args.append(a)
    return ("struct", o, args), probs


def same_type(L: Lang, dec, t) -> bool:
    """does a decoded node denote type t?  opaque nodes (None) are accepted here
    and counted elsewhere"""
    if dec is None:
        return True
    if dec[0] == "uri":
        return dec[1] == uri_text(L, t)
    return dec[1] == t[0] and len(dec[2]) == len(t[1]) and \
        all(same_type(L, d, a) for d, a in zip(dec[2], t[1]))


def oracle(case: Case, member_op_name: str):
    """list of (name, what, signature|None)"""
    L, sw = case.L, case.sw
    h = L.h
    canon = case.canon
    canon_set = {repr(t) for t in canon}
    obs = case.obs
    by_subj = {}
    for s, p, o in obs:
        by_subj.setdefault(s, []).append((p, o))
    out = []
    roots = case.roots
    multi = case.kind == "multi"

    def has_uri(t):
        return (not t[1]) or repr(t) in canon_set
    def tkey(t):
        # without recorded parameters a blank type node cannot be read back
        return repr(t) if has_uri(t) or sw["with_type_parameters"] else "NC"
    opaque_nodes = set()
    concepts = expected_concepts(case.ws, memo_tops=not multi)
    exp_types_r = {r: set() for r in roots}
    exp_ops_r = {r: set() for r in roots}
    exp_records = Counter()
    type_node_of = {}      # repr(type) -> set of nodes seen as its node (sources only: exact)
    for c in concepts:
        t = c["t"]
        canonical = repr(t) in canon_set
        typed = sw["with_types"] and (canonical or sw["with_noncanonical_types"]) and \
            (c["kind"] == "src" or sw["with_intermediate_types"] or not c["inter"])
        supers = set()
        if typed and canonical and sw["with_supertypes"]:
            supers = {uri_text(L, s) for s in canon if sub(h, t, s)}
        msupers = set()
        if typed and canonical and sw["with_membership_supertypes"]:
            msupers = {uri_text(L, s) for s in canon if sub(h, t, s) and s != t}
        via = NS + c["name"] if c["kind"] == "op" and sw["with_operators"] else None
        c.update(typed=typed, canonical=canonical, supers=supers, via=via)
        # the transformation (root) this concept was added under
        croot = roots[c["top"]] if multi else roots[0]
        if typed and sw["with_membership"]:
            exp_types_r[croot].add(("T", repr(t)))
        exp_types_r[croot] |= {("U", u) for u in msupers}
        if via and sw["with_membership"]:
            exp_ops_r[croot].add(via)
        if c["kind"] == "src":
            n = case.src_nodes.get(c["id"])
            if n is None:
                out.append(("source_without_node", f"source s{c['id']} has no node", None))
                continue
            props = by_subj.get(n, [])
            tys = [o for p, o in props if p == "type"]
            sts = {o for p, o in props if p == "subtypeOf"}
            vias = [o for p, o in props if p == "via"]
            sig = SIG_SRC if c.get("via_var") else None
            if vias:
                out.append(("source_with_via", f"source node has via {vias}", None))
            if typed:
                if len(tys) != 1:
                    out.append(("source_type_count", f"source of type {L.tstr(t)}: {len(tys)} type triples", sig))
                else:
                    dec, probs = decode_type_node(L, by_subj, tys[0])
                    for p in probs:
                        out.append(("type_node_shape", p, None))
                    if has_uri(t) != (tys[0][0] == "u"):
                        out.append(("uri_iff_has_uri", f"type {L.tstr(t)} (canonical={canonical}) got node {tys[0]}", None))
                    elif not same_type(L, dec, t):
                        out.append(("source_type", f"source of type {L.tstr(t)} has type node {dec}", None))
                    type_node_of.setdefault(repr(t), set()).add(tys[0])
            elif tys:
                out.append(("source_type_unexpected", f"untyped source carries type {tys}", None))
            got = {o[1] if o[0] == "u" else str(o) for o in sts}
            if got != supers:
                out.append(("source_subtypeOf",
                    f"source of type {L.tstr(t)} (canonical={canonical}): subtypeOf {sorted(got)} expected {sorted(supers)}",
                    sig))
        else:
            exp_records[(via, tkey(t) if typed else None, frozenset(supers))] += 1
    # operations: the nodes that are not source nodes and carry via or type
    src_nodes = set(case.src_nodes.values())
    op_nodes = {s for s, p, o in obs if p in ("via", "type") and s not in src_nodes and s not in roots}
    got_records = Counter()
    for n in op_nodes:
        props = by_subj.get(n, [])
        vias = [o for p, o in props if p == "via"]
        tys = [o for p, o in props if p == "type"]
        sts = frozenset(o[1] if o[0] == "u" else str(o) for p, o in props if p == "subtypeOf")
        if len(vias) > 1 or len(tys) > 1:
            out.append(("op_functional", f"operation node with via {vias} and type {tys}", None))
            continue
        trep = None
        if tys:
            dec, probs = decode_type_node(L, by_subj, tys[0])
            for p in probs:
                out.append(("type_node_shape", p, None))
            if dec is None and tys[0][0] == "b":
                # a blank type node without description: legitimate only when
                # parameters are not recorded; which type it stands for is then
                # checked by counting (below)
                trep = "NC" if not sw["with_type_parameters"] else "undescribed-blank-node"
                opaque_nodes.add(tys[0])
            else:
                cands = [c for c in concepts if c["kind"] == "op" and c["typed"] and
                         c["via"] == (vias[0][1] if vias else None)]
                m = [c for c in cands if same_type(L, dec, c["t"]) and
                     (has_uri(c["t"]) == (tys[0][0] == "u"))]
                if m:
                    m.sort(key=lambda c: frozenset(c["supers"]) != sts)
                    trep = repr(m[0]["t"])
                    type_node_of.setdefault(trep, set()).add(tys[0])
                else:
                    trep = f"unexpected:{dec or tys[0]}"
        got_records[(vias[0][1] if vias else None, trep, sts)] += 1
    exp_visible = Counter({k: v for k, v in exp_records.items() if k[0] is not None or k[1] is not None})
    if got_records != exp_visible:
        miss = exp_visible - got_records
        extra = got_records - exp_visible
        out.append(("operation_annotations",
            f"operation nodes (via, type, subtypeOf): missing {fmt_records(miss)} unexpected {fmt_records(extra)}", None))
    if not sw["with_type_parameters"]:
        # once per distinct type, by counting: as many blank type nodes as distinct
        # types without URI among the typed concepts
        nc_types = {repr(c["t"]) for c in concepts if c["typed"] and not has_uri(c["t"])}
        blanks = {o for s, p, o in obs if p == "type" and o[0] == "b"}
        if len(blanks) != len(nc_types):
            out.append(("type_node_once", f"{len(blanks)} blank type nodes for {len(nc_types)} distinct "
                        f"types without URI", None))
    # membership, per transformation root: exactly the union over ITS nodes
    bad_subj = {s for s, p, o in obs if p.startswith("contains") and s not in roots}
    if bad_subj:
        out.append(("membership_subject", f"membership triples on {sorted(bad_subj)}", None))
    for ri, root in enumerate(roots):
        tag = f" of transformation {ri} ({root[-1]})" if multi else ""
        exp_types, exp_ops = exp_types_r[root], exp_ops_r[root]
        got_ct = {o for s, p, o in obs if p == "containsType" and s == root}
        exp_ct_nodes = set()
        unknown_nc = 0
        for kind, v in exp_types:
            if kind == "U":
                exp_ct_nodes.add(("u", v))
            else:
                nodes = type_node_of.get(v)
                if nodes:
                    exp_ct_nodes |= nodes
                else:
                    unknown_nc += 1
        if unknown_nc == 0:
            if got_ct != exp_ct_nodes:
                out.append(("containsType",
                    f"containsType{tag}: missing {sorted(map(str, exp_ct_nodes - got_ct))} "
                    f"unexpected {sorted(map(str, got_ct - exp_ct_nodes))} (the union over its nodes is "
                    f"{sorted(map(str, exp_ct_nodes))})", None))
        else:
            if not exp_ct_nodes <= got_ct or len(got_ct) != len(exp_ct_nodes) + unknown_nc:
                out.append(("containsType",
                    f"containsType{tag} {sorted(map(str, got_ct))} expected {sorted(map(str, exp_ct_nodes))} "
                    f"and {unknown_nc} more type nodes", None))
        got_co = {o[1] for s, p, o in obs if p == member_op_name and o[0] == "u" and s == root}
        if got_co != exp_ops:
            others = sorted({p for s, p, o in obs if p.startswith("contains") and p not in ("containsType", member_op_name)})
            sig = SIG_PRED if (not got_co and others == ["containsOperator"] and
                               {o[1] for s, p, o in obs if p == "containsOperator" and s == root} == exp_ops) else None
            out.append(("containsOperation",
                f"tf:{member_op_name}{tag} {sorted(got_co)} expected {sorted(exp_ops)}; other membership predicates present: {others}",
                sig))
    # one node per distinct type; URI iff the type has one
    for trep, nodes in type_node_of.items():
        if len(nodes) != 1:
            out.append(("type_node_once", f"type {trep} has nodes {sorted(map(str, nodes))}", None))
    inv = {}
    for trep, nodes in type_node_of.items():
        for n in nodes:
            inv.setdefault(n, set()).add(trep)
    for n, ts in inv.items():
        if len(ts) != 1:
            out.append(("type_node_shared", f"node {n} stands for types {sorted(ts)}", None))
    # canonical types known beforehand are not described again
    if not sw["with_canonical_types"]:
        cu = {uri_text(L, t) for t in canon}
        for s, p, o in obs:
            if s[0] == "u" and s[1] in cu and (p == "subClassOf" or p.startswith("_")):
                out.append(("canonical_described", f"{s[1]} {p} {o}", None))
                break
    return out


def fmt_records(c: Counter):
    return [{"via": k[0], "type": k[1], "subtypeOf": sorted(k[2]), "count": v} for k, v in c.items()]


# --------------------------------------------------------------------------
# isomorphism of two triple sets whose nodes are constants or ('b', id)

def iso(T1, T2) -> bool:
    if len(T1) != len(T2):
        return False
    if Counter(p for _, p, _ in T1) != Counter(p for _, p, _ in T2):
        return False
    adj, col = {}, {}

    def load(T, tag):
        for s, p, o in T:
            a, b = (tag, s), (tag, o)
            for k, x in ((a, s), (b, o)):
                if k not in adj:
                    adj[k] = []
                    col[k] = ("b",) if x[0] == "b" else x
            adj[a].append((p + ">", b))
            adj[b].append((p + "<", a))
    load(T1, 0)
    load(T2, 1)
    rank = {s: i for i, s in enumerate(sorted(set(col.values()), key=repr))}
    col0 = {n: rank[c] for n, c in col.items()}
    budget = [20000]

    def refine(c):
        while True:
            sig = {n: (c[n], tuple(sorted((lab, c[m]) for lab, m in adj[n]))) for n in c}
            rk = {s: i for i, s in enumerate(sorted(set(sig.values())))}
            new = {n: rk[sig[n]] for n in c}
            if len(set(new.values())) == len(set(c.values())):
                return new
            c = new

    def search(c):
        budget[0] -= 1
        if budget[0] < 0:
            raise RuntimeError("isomorphism search budget exhausted")
        c = refine(c)
        cls = {}
        for n, k in c.items():
            cls.setdefault(k, [[], []])[n[0]].append(n)
        for k, (l, r) in cls.items():
            if len(l) != len(r):
                return False
        multi = [(len(l), k) for k, (l, r) in cls.items() if len(l) > 1]
        if not multi:
            m = {cls[k][0][0]: cls[k][1][0] for k in cls}
            e1 = Counter((a, lab, b) for a in adj if a[0] == 0 for lab, b in adj[a])
            e2 = Counter((a, lab, b) for a in adj if a[0] == 1 for lab, b in adj[a])
            return Counter((m[a], lab, m[b]) for (a, lab, b) in e1.elements()) == e2
        _, k = min(multi)
        x = cls[k][0][0]
        top = max(c.values()) + 1
        for y in cls[k][1]:
            c2 = dict(c)
            c2[x] = top
            c2[y] = top
            if search(c2):
                return True
        return False
    return search(col0)


def diff_summary(T1, T2):
    """readable difference of two observations: triples with blank nodes abstracted"""
    def ab(T):
        return Counter((s if s[0] != "b" else "_", p, o if o[0] != "b" else "_") for s, p, o in T)
    a, b = ab(T1), ab(T2)
    return {"only_implementation": [list(map(str, k)) + [v] for k, v in (a - b).items()][:12],
            "only_model": [list(map(str, k)) + [v] for k, v in (b - a).items()][:12]}


# --------------------------------------------------------------------------
# Coq side

HDR = """From Coq Require Import List Arith Bool NArith String Ascii.
Import ListNotations.
From TF Require Import Base.Hier Base.Ty Parse.Lang Uri.Uri Canon.Succ Canon.Canon.
From TF Require Import Graph.AddExpr Graph.Annot Graph.AnnotCanon.
(* text is printed in chunks of six code points: printing one large binary
   number in decimal is slow *)
Fixpoint chunks (u : list nat) (acc : N) (k : nat) : list N :=
  match u with
  | [] => if (acc =? 1)%N then [] else [acc]
  | c :: r => let acc' := (acc * 256 + N.of_nat c)%N in
              match k with 0 => acc' :: chunks r 1%N 5 | S k' => chunks r acc' k' end
  end.
Definition packs (u : list nat) : list N := chunks u 1%N 5.
Fixpoint sdec (s : string) : list nat :=
  match s with EmptyString => [] | String c r => nat_of_ascii c :: sdec r end.
Definition eterm (t : term) : list N :=
  match t with
  | TUri u => 0%N :: packs u | TBn k => [1%N; N.of_nat k]
  | TEn n => [2%N; N.of_nat n] | TRoot => [3%N]
  end.
Definition epred (p : apred) : list N :=
  match p with
  | PType => [0%N; 0%N] | PSubtypeOf => [1%N; 0%N] | PVia => [2%N; 0%N]
  | PContainsType => [3%N; 0%N] | PContainsOperation => [4%N; 0%N]
  | PSubClassOf => [5%N; 0%N] | PParam i => [6%N; N.of_nat i]
  end.
Definition etriple (x : atriple) : list (list N) :=
  let '(s, p, o) := x in [eterm s; epred p; eterm o].
Definition ewire (x : triple) : list (list N) :=
  let '(s, p, o) := x in [[2%N; N.of_nat s]; [N.of_nat (7 + p); 0%N]; [2%N; N.of_nat o]].
(* the annotation of the expressions, and for one expression also the
   from/internal edges of AddExpr.add_expr over the same expression nodes *)
Definition obs_case sw L ns H canon (es : list cexpr) (wire : bool) : option (list (list (list N))) :=
  match annot_exprs sw L ns canon (csup H canon) es with
  | None => None
  | Some (g, st) =>
      Some (map etriple (t_tr st) ++
        (if wire then
           match es with
           | [e] => match add_expr add_from_plain false (erase e) None g_empty with
                    | Some (n, g') => map ewire (filter (fun x => t_pred x <? 2) (g_tr g'))
                    | None => [[[99%N]]]
                    end
           | _ => []
           end
         else []))
  end.
Definition obs_multi sw L ns H canon (res : list (term * cexpr)) : option (list (list (list N))) :=
  match annot_roots sw L ns canon (csup H canon) res with
  | None => None
  | Some (g, st) => Some (map etriple (t_tr st))
  end.
Definition pred_table : list (list (list N)) :=
  map (fun p => [epred p; packs (pred_name p)]) (tf_preds ++ [PSubClassOf]).
Definition bs (l : list nat) : list bool := map (fun n => negb (n =? 0)) l.
Definition sw_of (l : list bool) : switches :=
  match l with
  | [a; b; c; d; e; f; g; h; i] => mkSw a b c d e f g h i
  | _ => mkSw true true true true true true true true false
  end.
"""


def coq_str(s: str) -> str:
    assert '"' not in s and all(32 <= ord(ch) < 127 for ch in s), s
    return f'(sdec "{s}")'


def coq_lang(L: Lang) -> str:
    n = L.names()
    types = []
    for i in L.h.ids:
        types.append(f"({coq_str(n[i])}, {L.h.arity(i)})")
    ops = [coq_str(o["name"]) for o in L.ops]
    return f"(mkLang {C.coq_list(types)} [] {C.coq_list(ops)})"


def coq_block(li: int, L: Lang, cases) -> tuple[str, int]:
    canon = cases[0].canon
    body = (f"Definition L_{li} := {coq_lang(L)}.\nDefinition H_{li} := {L.h.coq()}.\n"
            f"Definition C_{li} := {C.coq_list(canon, C.ty_coq)}.\n")
    for c in cases:
        sw = C.coq_list([("true" if c.sw[s] else "false") for s in SWITCHES])
        if c.kind == "multi":
            res = C.coq_list(list(zip(c.roots, c.ws)),
                lambda rw: f"(TUri {coq_str(rw[0][1])}, {coq_cexpr(rw[1])})")
            body += (f"Eval vm_compute in obs_multi (sw_of {sw}) L_{li} {coq_str(NS)} H_{li} C_{li} {res}.\n")
            continue
        es = C.coq_list(c.ws, coq_cexpr)
        wire = "true" if c.kind == "expr" else "false"
        body += (f"Eval vm_compute in obs_case (sw_of {sw}) L_{li} {coq_str(NS)} H_{li} C_{li} {es} {wire}.\n")
    return body, len(cases)


def unpack(chunks) -> str:
    out = []
    for n in chunks:
        bs = []
        while n > 1:
            bs.append(n & 255)
            n >>= 8
        out.append(bytes(reversed(bs)).decode("latin-1"))
    return "".join(out)


def model_obs(val, pred_names):
    """decode the model's triples into the same shape as observe()"""
    if val is None:
        return None
    out = set()

    def nd(t):
        k = t[0]
        if k == 0:
            return ("u", unpack(t[1:]))
        if k == 1:
            return ("b", f"t{t[1]}")
        if k == 2:
            return ("b", f"e{t[1]}")
        return ("r",)
    for row in val:
        if row == [[99]]:
            return "wiring_failed"
        s, (pc, pi), o = row
        if pc == 6:
            name = f"_{pi}"
        elif pc == 7:
            name = "from"
        elif pc == 8:
            name = "internal"
        else:
            name = pred_names[pc]
        out.add((nd(s), name, nd(o)))
    return out


# --------------------------------------------------------------------------
# vocabulary: the names the graph emits, the query generator tests, the vocabulary declares

def read_vocabulary(path):
    """the properties vocab/transforge.ttl declares (local names) and its
    namespace.  Read leniently, statement by statement: the file as pinned is
    not well-formed Turtle (an unbound prefix in the description of :applies),
    which is not this property's matter; whether rdflib accepts it is noted."""
    text = open(path, encoding="utf-8").read()
    note = {"parses_as_turtle": True}
    try:
        from rdflib import Graph
        Graph().parse(data=text, format="turtle")
    except Exception as ex:
        note = {"parses_as_turtle": False, "error": str(ex).splitlines()[-1][:200] if str(ex) else type(ex).__name__}
    vns = set(re.findall(r"^@prefix\s*:\s*<([^>]*)>", text, re.M))
    declared = set()
    # a statement starts with ":name" in column 0 and ends with "." at a line end
    for mt in re.finditer(r"^:(\w+)\b(.*?)\.\s*$", text, re.M | re.S):
        name, body = mt.group(1), mt.group(2)
        if re.search(r"\ba\s+(rdf|rdfs|owl):\w*Property\b", body) or "rdfs:domain" in body:
            declared.add(name)
    return declared, vns, note


def vocab_tables(cases, rep):
    TFs, _, _ = tf_names()
    emitted = set()
    for c in cases:
        if getattr(c, "g", None) is None:
            continue
        for p in set(c.g.predicates()):
            if str(p).startswith(TFs):
                emitted.add(str(p)[len(TFs):])
    declared, vns, vocab_note = read_vocabulary(C.REPO / "vocab" / "transforge.ttl")
    # what the query generator asks of a workflow's membership sets
    queried, qerr = set(), None
    try:
        from transforge.query import TransformationQuery
        import transforge.type as T
        c0 = next(c for c in cases if getattr(c, "g", None) is not None)
        L = c0.L
        t = L.inst((5, []))      # a base type always has a URI
        q = TransformationQuery.from_list(L.language, [t, L.py[L.ops[0]["name"]]])
        text = q.sparql()
        queried = set(re.findall(r"\?workflow\s+:(contains\w*)\s", text))
    except Exception as ex:      # the generator itself is C11's matter
        qerr = f"{type(ex).__name__}: {ex}"
    return sorted(emitted), sorted(queried), sorted(declared), sorted(vns), TFs, qerr, vocab_note


# --------------------------------------------------------------------------
# fixed cases (always run first)

def fixed_cases():
    # A(5) > B(6) > C(7), D(8); K9 unary covariant, K10 (co, contra)
    h = C.Hierarchy({6: 5, 7: 6}, {9: [True], 10: [True, False]}, 4)
    A, B, Cc, D = (5, []), (6, []), (7, []), (8, [])
    ops = [
        {"name": "f0", "nvars": 0, "params": [sch(A)], "out": sch(B)},
        {"name": "f1", "nvars": 1, "params": [["V", 0]], "out": T_(9, ["V", 0]), "cons": [[0, 5]]},
        {"name": "merge", "nvars": 1, "params": [["V", 0], ["V", 0]], "out": ["V", 0], "cons": []},
        {"name": "f3", "nvars": 0, "params": [sch((9, [A])), sch(D)], "out": sch((10, [(9, [B]), Cc]))},
        {"name": "hof", "nvars": 0, "params": [T_(3, sch(A), sch(B)), sch(A)], "out": sch((9, [(9, [B])]))},
        {"name": "g0", "nvars": 0, "params": [sch(B)], "out": sch((9, [B]))},
        {"name": "c0", "nvars": 0, "params": [sch(A)], "out": sch((9, [B])), "chain": ["f0", "g0"]},
        {"name": "hofc", "nvars": 0, "params": [T_(3, sch(A), sch((9, [B]))), sch(A)],
         "out": sch((10, [(9, [B]), Cc]))},
    ]
    on = {s: True for s in SWITCHES}
    on["with_canonical_types"] = False
    off_other = {s: False for s in OTHER}
    L1 = Lang(h, [A, (9, [Cc]), (10, [(9, [B]), Cc])], True, True, ops)
    L2 = Lang(h, None, False, False, ops)
    L3 = Lang(h, [A, (9, [B])], True, False, ops)
    s = lambda k, t: ("src", k, t)
    op = lambda n, *a: ("op", n, list(a))
    out = []
    for L in (L1, L2, L3):
        L.build()
    terms = [
        ("basic", op("f0", s(1, B))),
        ("design_probe_g_f", op("f1", op("f0", s(1, Cc)))),
        # the second source gets its type through a bound variable (graph.py:247)
        ("merge_untyped_source", op("merge", s(1, B), s(2, None))),
        ("merge_untyped_first", op("merge", s(1, None), s(2, B))),
        ("noncanonical_output", op("f3", op("f1", s(1, A)), s(2, D))),
        ("function_argument", op("hof", op("f0"), s(1, B))),
        ("shared_source", op("merge", op("f0", s(1, Cc)), op("f0", s(1, Cc)))),
        ("deep_noncanonical", op("f1", op("f1", op("f1", s(1, B))))),
        ("composite_applied", op("c0", s(1, B))),
        # the composite is handed over unapplied: an abstraction whose body is annotated
        ("composite_passed", op("hofc", op("c0"), s(1, A))),
    ]
    for li, L in enumerate((L1, L2, L3)):
        for name, r in terms:
            out.append(Case(L, "expr", r, dict(on), dict(off_other), f"fixed{li}_{name}"))
            if name in ("noncanonical_output", "design_probe_g_f"):
                sw = dict(on)
                sw["with_canonical_types"] = True
                out.append(Case(L, "expr", r, sw, dict(off_other), f"fixed{li}_{name}_described"))
                sw = dict(on)
                sw["with_noncanonical_types"] = False
                sw["with_supertypes"] = False
                out.append(Case(L, "expr", r, sw, dict(off_other), f"fixed{li}_{name}_canonical_only"))
    tm = dict(terms)
    for li, L in enumerate((L1, L3)):
        for name, rs in (("same_twice", [tm["basic"], tm["basic"]]),
                         ("overlapping", [tm["design_probe_g_f"], tm["basic"], tm["noncanonical_output"]])):
            out.append(Case(L, "multi", rs, dict(on), dict(off_other), f"fixed{li}_two_roots_{name}"))
            sw = dict(on)
            sw["with_membership"] = False
            out.append(Case(L, "multi", rs, sw, dict(off_other), f"fixed{li}_two_roots_{name}_supertypes_only"))
    wf = {"sources": {"s0": Cc, "s1": D},
          "tools": [{"out": "t0", "expr": "f1 (f0 (1 : B7))", "inputs": ["s0"]},
                    {"out": "t1", "expr": "f3 1 (2 : B8)", "inputs": ["t0", "s1"]}]}
    wf["tools"][0]["expr"] = "f1 (f0 (1 : B7))"
    for li, L in enumerate((L1, L3)):
        o2 = dict(off_other)
        o2["with_inputs"] = True
        out.append(Case(L, "wf", wf, dict(on), o2, f"fixed{li}_workflow"))
    return out


# --------------------------------------------------------------------------

def case_from_payload(d) -> Case:
    L = Lang.from_json(d["language"])
    L.build()

    def rec(r):
        if r[0] == "src":
            t = r[2]
            return ("src", r[1], None if t is None else tupl(t))
        return ("op", r[1], [rec(a) for a in r[2]])

    def tupl(t):
        return (t[0], [tupl(a) for a in t[1]])
    kind = d.get("case_kind") or ("multi" if "recipes" in d else "expr" if "recipe" in d else "wf")
    if kind == "multi":
        spec = [rec(r) for r in d["recipes"]]
    elif kind == "expr":
        spec = rec(d["recipe"])
    else:
        spec = d["workflow"]
        spec["sources"] = {k: tupl(v) for k, v in spec["sources"].items()}
    return Case(L, kind, spec, d["switches"], d["other_switches"], d.get("name", "replay"))


def run_cases(rep: C.Report, cases, tag: str):
    stats = Counter()
    by_lang = {}
    ncrash = 0
    for c in cases:
        run_impl(c)
        if c.error and c.error != "NonCanonicalTypeError":
            ncrash += 1
            if ncrash <= 3:
                rep.violation(f"raised_{c.name}", dict(c.payload(), kind="oracle",
                    what=f"building the graph of a well-typed expression raised {c.error}"))
        if c.skip:
            stats["skipped_" + c.skip] += 1
            continue
        c.canon = c.L.canon_list()
        if any(t is None for t in c.canon):
            c.skip = "canon_with_variable"
            continue
        by_lang.setdefault(id(c.L), []).append(c)
    emitted, queried, declared, vns, TFs, qerr, vocab_note = vocab_tables(cases, rep)
    # the membership predicate for operations, as the query generator and the vocabulary name it
    member_ops = [q for q in queried if q != "containsType"]
    member_op_name = member_ops[0] if len(member_ops) == 1 else "containsOperation"
    blocks, groups = [], []
    for li, (k, cs) in enumerate(by_lang.items()):
        blocks.append(coq_block(li, cs[0].L, cs))
        groups.append(cs)
    vocab_block = ("Eval vm_compute in pred_table.\n"
        f"Eval vm_compute in vocab_agree {C.coq_list(emitted, coq_str)} {C.coq_list(queried, coq_str)} "
        f"{C.coq_list(declared, coq_str)}.\n"
        f"Eval vm_compute in vocab_agree (map pred_name tf_preds) {C.coq_list(queried, coq_str)} "
        f"{C.coq_list(declared, coq_str)}.\n", 3)
    outs = C.coq_eval_blocks(f"C07_{tag}", HDR, blocks + [vocab_block], nfiles=4)
    table, agree_impl, agree_model = outs[-1]
    pred_names = {row[0][0]: unpack(row[1]) for row in table}
    n_eval = n_dis = 0
    nviol = Counter()
    samples = []
    dist = Counter()
    nontrivial = set()
    for cs, vals in zip(groups, outs[:-1]):
        for c, val in zip(cs, vals):
            n_eval += 1
            m = model_obs(val, pred_names)
            concepts = expected_concepts(c.ws, memo_tops=c.kind != "multi")
            ntyp = len({repr(x["t"]) for x in concepts})
            canon_set = {repr(t) for t in c.canon}
            nnc = len({repr(x["t"]) for x in concepts if repr(x["t"]) not in canon_set})
            ncomp = sum(1 for x in concepts if x["t"][1])
            dist["kind_" + c.kind] += 1
            if c.kind == "multi":
                per = {}
                for x in concepts:
                    per.setdefault(x["top"], set()).add(repr(x["t"]))
                sets = list(per.values())
                dist["multi_roots_sharing_a_canonical_type"] += any(
                    (a & b) & canon_set for i, a in enumerate(sets) for b in sets[i + 1:])
            dist[f"concepts_{min(len(concepts), 12) // 3 * 3}+"] += 1
            dist[f"canon_{min(len(c.canon), 60) // 10 * 10}+"] += 1
            dist["with_noncanonical_concept"] += nnc > 0
            dist["with_canonical_compound_concept"] += any(x["t"][1] and repr(x["t"]) in canon_set for x in concepts)
            msup = max([sum(1 for s_ in c.canon if sub(c.L.h, x["t"], s_)) for x in concepts
                        if repr(x["t"]) in canon_set] or [0])
            dist[f"largest_supertype_set_{min(msup, 8) // 2 * 2}+"] += 1
            dist["with_compound_concept"] += ncomp > 0
            dist["with_function_argument"] += any(has_fn(w) for w in c.ws)
            dist["with_abstraction"] += any(has_abs(w) for w in c.ws)
            dist["with_shared_source"] += sum(1 for w in c.ws for l in leaves(w) if l["k"] == "src") > \
                len({l["id"] for w in c.ws for l in leaves(w) if l["k"] == "src"})
            dist["source_via_variable"] += any(l.get("via_var") for w in c.ws for l in leaves(w))
            for s in SWITCHES:
                dist["on_" + s] += c.sw[s]
            dist["outcome_" + (c.error or "ok").split(":")[0]] += 1
            if ncomp and any(repr(x["t"]) in canon_set for x in concepts) and len(concepts) >= 3:
                nontrivial.add((c.name, rtext(c.L, c.spec) if c.kind == "expr" else
                                json.dumps(c.spec["tools"] if c.kind == "wf" else c.spec)))
            payload = c.payload()
            payload["canon"] = [c.L.tstr(t) for t in c.canon]
            payload["implementation_triples"] = sorted(map(str, c.obs))[:200]
            if c.error and c.error != "NonCanonicalTypeError":
                continue         # reported above
            # oracle
            if c.error is None:
                for name, what, sig in oracle(c, member_op_name):
                    nviol[name] += 1
                    if nviol[name] <= 3:
                        rep.violation(f"{name}_{c.name}", dict(payload, kind="oracle", what=what), signature=sig)
            # correspondence
            if c.error is not None or m is None:
                if (c.error == "NonCanonicalTypeError") != (m is None):
                    n_dis += 1
                    if n_dis <= 5:
                        rep.violation(f"disagree_{c.name}", dict(payload, kind="correspondence",
                            what=f"implementation raised {c.error}, model {'fails' if m is None else 'succeeds'} (K_C07)"),
                            has_input=False)
                continue
            if m == "wiring_failed":
                dist["outside_wiring_model"] += 1
                continue
            ok = False
            # for workflows the data flow between tools is C12's; annotation only
            cobs = c.obs if c.kind == "expr" else {x for x in c.obs if x[1] not in ("from", "internal")}
            try:
                ok = iso(cobs, m)
            except RuntimeError:
                dist["iso_budget_exhausted"] += 1
                ok = True
            if not ok:
                n_dis += 1
                if n_dis <= 5:
                    rep.violation(f"disagree_{c.name}", dict(payload, kind="correspondence",
                        what="annotation triples differ from the model up to blank-node renaming (K_C07)",
                        difference=diff_summary(cobs, m)), has_input=False)
            if len(samples) < 3 and ncomp and nnc and c.kind == "expr" and len(concepts) >= 4:
                samples.append({"language": c.L.text(), "expression": rtext(c.L, c.spec),
                    "switches": {k: v for k, v in c.sw.items()},
                    "concepts": [f"{x['kind']} {x.get('name', '')} : {c.L.tstr(x['t'])}" for x in concepts],
                    "triples": len(c.obs), "agree": ok})
    # vocabulary agreement (names read from the running code and the vocabulary file)
    tf_used = [n for n in emitted]
    undeclared = [n for n in tf_used if n not in declared]
    unqueried = [q for q in queried if q not in emitted]
    py_agree = not undeclared and not unqueried
    vinfo = {"emitted": emitted, "queried_membership": queried, "declared": declared,
             "vocabulary_namespaces": vns, "code_namespace": TFs,
             "namespace_differs_only_in_scheme": [v for v in vns if v != TFs and v.split("://")[-1] == TFs.split("://")[-1]],
             "coq_vocab_agree_implementation_names": agree_impl, "coq_vocab_agree_model_names": agree_model,
             "query_generator_error": qerr, "vocabulary_file": vocab_note}
    if qerr:
        rep.violation("query_generator", {"kind": "harness", "what": "could not obtain the query pre-filter: " + qerr},
            has_input=False)
    have_ops = any(c.sw["with_operators"] and c.sw["with_membership"] and not c.skip and
                   any(x["kind"] == "op" for x in expected_concepts(c.ws)) for c in cases)
    have_types = any(c.sw["with_types"] and c.sw["with_membership"] and not c.skip for c in cases)
    if undeclared or (unqueried and have_ops and have_types) or bool(agree_impl) != py_agree:
        only_op = undeclared == ["containsOperator"] and unqueried in (["containsOperation"], [])
        rep.violation("vocabulary", dict(vinfo, kind="oracle",
            what=f"predicates emitted but not declared in vocab/transforge.ttl: {undeclared}; "
                 f"membership predicates the query generator tests but no graph emits: {unqueried}",
            example=next((c.payload() for c in cases if not c.skip and c.sw["with_operators"]
                          and c.sw["with_membership"]), None)),
            signature=SIG_PRED if only_op else None)
    if not agree_model:
        rep.violation("vocabulary_model", dict(vinfo, kind="correspondence",
            what="the model's predicate names are not covered by the vocabulary / do not cover the query's"),
            has_input=False)
    return n_eval, n_dis, dist, samples, len(nontrivial), stats, vinfo


def has_abs(w) -> bool:
    if w["k"] == "abs":
        return True
    if w["k"] == "app":
        return has_abs(w["f"]) or has_abs(w["x"])
    return False


def has_fn(w) -> bool:
    if w["k"] == "app":
        return w["fn"] or has_fn(w["f"]) or has_fn(w["x"])
    if w["k"] == "abs":
        return has_fn(w["b"])
    return False


def main(tier: str, seed: int, replay: str | None = None) -> int:
    C.force_repo_on_path()
    rep = C.Report(PID, tier, seed)
    rep.proof_stage()
    rng = random.Random(seed)
    if replay:
        d = json.loads(open(replay).read())
        if "recipe" in d or "workflow" in d or "recipes" in d:
            cases = [case_from_payload(d)]
        elif d.get("example"):
            cases = [case_from_payload(d["example"])]
        else:
            cases = fixed_cases()
    else:
        cases = fixed_cases()
        if tier == "quick":
            cases += gen_cases(rng, 28, 10)
        else:
            cases += gen_cases(rng, 260, 12)
    n, dis, dist, samples, nontriv, stats, vinfo = run_cases(rep, cases, tier)
    rep.coverage.update({
        "evaluations": n, "distinct_nontrivial": nontriv, "disagreements": dis,
        "rule": "generated languages (2-6 base types in a forest, 1-2 compound operators with random variance, "
                "canon = default or 1-3 listed types of nesting <= 2 with/without Top and Bottom, <= 60 canonical "
                "types; 3-7 transformation operators: ground, polymorphic with bounds, higher-order); expressions "
                "grown bottom-up and kept when the real library type-checks them (typed, untyped and shared "
                "sources, function-typed arguments), workflows of 2-4 tools; all nine annotation switches drawn "
                "independently; non-trivial = at least three concepts, one of compound type and one of canonical type",
        "samples": samples, "input_distribution": dict(sorted(dist.items())),
        "not_used": dict(stats), "vocabulary": vinfo, "exhaustive": False})
    rep.assumptions = [
        "the types of the annotated concepts are concrete (cases where inference leaves a variable in the type of a "
        "source or operation are counted under not_used.skipped_type_with_variable and only run, not compared)",
        "Language.supertypes is the repaired one of C10 (Canon/Canon.v lang_succ); URIs are C14's model",
        "a base type always has the URI of its type operator, canonical or not (Language.uri, lang.py:95-98); "
        "'URI iff canonical' is checked for compound types, 'URI iff Language.uri has one' for all",
        "rdfs:label, rdf:type and with_supertype_classes are not modelled; expressions with abstractions "
        "(expanded composite operators) are not generated here (their wiring is C08's)",
        "agreement between model and implementation is tested on the generated cases, not proved",
    ]
    return rep.finish(C.TRUSTED)
