"""C17  Type checking and parsing fail only with their declared errors, and terminate.

engine half   programs of instance / apply / unify / fix commands over constrained
              schemas (self-referential and mutually dependent constraints included)
              run on /repo and on the faithful engine model; oracle: every escaping
              exception is a transforge TypingError, printing never raises, each case
              finishes within the time bound
parser half   token-level fuzzing of Language.parse / parse_type against the parser
              model (harness/c13.py: parser_fuzz), when that module is present
proof stage   coq/props/C17.v
"""
from __future__ import annotations

import random
import time

from . import common as C
from . import engine as E
from .c03 import run_engine_cases

TIME_LIMIT = 2.0


def gen_c17_program(rng, h):
    r0 = rng.random()
    # a third of the programs come from the families built around re-entrant constraint
    # re-checks (a variable resolved while its constraints are minimised or fulfilled)
    prog = E.gen_reentrant_elim(rng, h) if r0 < 0.25 else E.gen_merge_program(rng, h) if r0 < 0.33 \
        else E.gen_program(rng, h)
    nvals = sum(1 for c in prog if c[0] in ("inst", "apply", "fix"))
    extra = rng.choice([0, 0, 1, 2, 3])
    for _ in range(extra):
        r = rng.random()
        if r < 0.35:
            prog.append(("unify", rng.randrange(nvals), rng.randrange(nvals), rng.random() < 0.7))
        elif r < 0.6:
            prog.append(("fix", rng.randrange(nvals), rng.random() < 0.5))
            nvals += 1
        elif r < 0.8:
            sig, _ = E.gen_signature(rng, h)
            prog.append(("inst", sig))
            nvals += 1
        else:
            prog.append(("apply", rng.randrange(nvals), rng.randrange(nvals), rng.random() < 0.8))
            nvals += 1
    return prog


def main(tier: str, seed: int, replay: str | None = None) -> int:
    C.force_repo_on_path()
    import transforge.type as T
    rep = C.Report("C17", tier, seed)
    rep.proof_stage()
    rep.proof_stage("C17_engine")   # no run of the engine model reaches an assertion
    rep.proof_stage("C17_parser")   # the parser model never crashes on any token list
    rep.proof_stage("C05_fix")      # C17_term_P_*: explicit fuel bounds for unify/apply/fix without constraints
    rep.proof_stage("C17_term")     # ... and with subtype constraints: every such program ends with a result or a declared error
    rep.proof_stage("C17_term_elim")  # ... and with elimination constraints over base alternatives (nesting bounded by the unfulfilled constraints)
    rng = random.Random(seed)
    nh, npg = (15, 60) if tier == "quick" else (120, 100)
    items = []
    for _ in range(nh):
        h = E.gen_engine_hier(rng)
        h.build()
        items.append((h, [(gen_c17_program(rng, h), []) for _ in range(npg)]))
    stats = {"ok": 0}
    distinct = set()
    samples = []
    slow = []

    def on_case(h, prog, sched, err, io, mo, crow, mvals):
        names = {i: f"op{i}" for i in h.ops}
        text = [c if c[0] != "inst" else E.schema_py(c[1], names) for c in prog]
        key = "ok" if err is None else err[0]
        stats[key] = stats.get(key, 0) + 1
        if any(len(c[1][2]) >= 1 for c in prog if c[0] == "inst"):
            distinct.add(repr((h.to_json(), prog)))
        if err is not None and not err[3]:
            site = {"AssertionError": "internal assertion", "RecursionError": "unbounded recursion"}.get(err[0], err[0])
            rep.violation(f"undeclared_{len(rep.violations)}", {
                "kind": "oracle", "what": f"engine operation escaped with {err[0]} ({site}): {err[1]}",
                "hierarchy": h.to_json(), "program": prog, "program_text": text,
                "failing_command": err[2]}, has_input=True)
        if len(samples) < 3 and err is not None and len(prog) > 3:
            samples.append({"program_text": text, "outcome": err[0]})

    # time bound + printing: rerun each program on the implementation under a clock
    t_all = time.time()
    n_print = 0
    for h, progs in items:
        for prog, sched in progs:
            t0 = time.time()
            err, vals, pts = E.run_impl(h, prog, sched)
            for v in vals:
                try:
                    str(v); v.text(with_constraints=True); n_print += 1
                except T.TypingError:
                    pass
                except Exception as e:  # noqa: BLE001
                    rep.violation(f"print_{n_print}", {"kind": "oracle",
                        "what": f"printing a type raised {type(e).__name__}: {e}",
                        "hierarchy": h.to_json(), "program": prog}, has_input=True)
            for c in prog:
                if c[0] == "inst":
                    try:
                        str(E.build_schema(h, c[1]))
                    except T.TypingError:
                        pass
                    except Exception as e:  # noqa: BLE001
                        rep.violation(f"printschema_{n_print}", {"kind": "oracle",
                            "what": f"printing a schema raised {type(e).__name__}: {e}",
                            "hierarchy": h.to_json(), "schema": c[1]}, has_input=True)
            dt = time.time() - t0
            if dt > TIME_LIMIT:
                slow.append(dt)
                rep.violation(f"slow_{len(slow)}", {"kind": "oracle",
                    "what": f"case took {dt:.1f}s (> {TIME_LIMIT}s)", "hierarchy": h.to_json(),
                    "program": prog}, has_input=True)
    n, dis = run_engine_cases(rep, f"C17_{tier}", items, check=False, on_case=on_case)
    cov = {
        "evaluations": n, "distinct_nontrivial": len(distinct), "disagreements": dis,
        "rule": "C03's generator plus 0-3 extra unify/fix/instance/apply commands on arbitrary earlier values; "
                "non-trivial = program with at least one constrained schema",
        "outcome_distribution": stats, "types_printed": n_print, "samples": samples,
        "max_case_seconds": round(max(slow) if slow else 0.0, 2), "exhaustive": False}
    # parser half
    try:
        from . import c13
        if hasattr(c13, "parser_fuzz"):
            cov["parser_fuzz"] = c13.parser_fuzz(rep, rng, 1500 if tier == "quick" else 20000)
    except ImportError:
        cov["parser_fuzz"] = "parser model not present"
    rep.coverage.update(cov)
    rep.assumptions = [
        "Python's recursion limit and wall-clock behaviour are observed, not modelled",
        "engine no-crash is proved for the model as stated in props/C17.v; agreement of model and code is tested",
    ]
    return rep.finish(C.TRUSTED)
