"""Shared machinery for the per-property checks.

Everything that touches transforge imports it from /repo's current working
tree (sys.path is forced), never from a snapshot.
"""
from __future__ import annotations

import fcntl
import json
import os
import random
import re
import subprocess
import sys
import time
from pathlib import Path

VERIF = Path(__file__).resolve().parent.parent
REPO = Path(os.environ.get("VERIF_REPO", "/repo"))
COQ = VERIF / "coq"
BUILD = VERIF / "_build"
# evidence describes runs against /repo itself; a run against a scratch worktree (VERIF_REPO,
# used when seeded changes are re-checked) writes its evidence and replays under _build instead
_SCRATCH = REPO.resolve() != Path("/repo")
EVID = (VERIF / "_build" / "scratch_evidence") if _SCRATCH else VERIF / "evidence"
REPLAYS = VERIF / "replays"
CORPUS = VERIF / "corpus"
PY = "/venv/bin/python"
GUARD = "TRANSFORGE_VERIF"

FORBIDDEN = re.compile(
    r"\b(Admitted|admit|Axiom|Axioms|Parameter|Parameters|Conjecture|Conjectures|"
    r"Hypothesis|Hypotheses|Variable|Variables|bypass_check|Admit Obligations)\b"
    r"|Unset Guard|Unset Positivity|Unset Universe|type-in-type|impredicative-set")


def force_repo_on_path() -> None:
    os.environ[GUARD] = "1"
    os.environ.setdefault("PYTHONHASHSEED", "0")
    p = str(REPO)
    if p in sys.path:
        sys.path.remove(p)
    sys.path.insert(0, p)
    for m in list(sys.modules):
        if m == "transforge" or m.startswith("transforge."):
            del sys.modules[m]


def seed_from_env(default: int = 20260930) -> int:
    try:
        return int(os.environ.get("VERIF_SEED", default))
    except ValueError:
        return default


# --------------------------------------------------------------------------
# Coq side

def run(cmd, timeout, cwd=None, env=None):
    return subprocess.run(cmd, cwd=cwd, env=env, timeout=timeout,
        stdout=subprocess.PIPE, stderr=subprocess.STDOUT, text=True)


def ensure_built(timeout: int = 1500, targets: list[str] | None = None) -> tuple[bool, str]:
    """Full .vo build (no-op when current) of the given make targets - by
    default everything in _CoqProject.  A check builds its own property file
    and what that depends on, so that a file somebody is still editing
    elsewhere in the development cannot break it."""
    BUILD.mkdir(exist_ok=True)
    targets = targets or []
    mk = COQ / "Makefile"
    if mk.exists() and mk.stat().st_mtime >= (COQ / "_CoqProject").stat().st_mtime:
        # up to date already?  (question mode reads timestamps only; avoids
        # queueing behind somebody else's build for nothing)
        q = run(["make", "-q"] + targets, 120, cwd=COQ)
        if q.returncode == 0:
            return True, "up to date"
    lock = open(BUILD / ".lock", "w")
    fcntl.flock(lock, fcntl.LOCK_EX)
    try:
        if not mk.exists() or mk.stat().st_mtime < (COQ / "_CoqProject").stat().st_mtime:
            r = run(["coq_makefile", "-f", "_CoqProject", "-o", "Makefile"], 120, cwd=COQ)
            if r.returncode != 0:
                return False, r.stdout
        r = run(["make", "-j8"] + targets, timeout, cwd=COQ)
        (BUILD / "make.log").write_text(r.stdout)
        return r.returncode == 0, r.stdout
    finally:
        fcntl.flock(lock, fcntl.LOCK_UN)
        lock.close()


def scan_forbidden() -> list[str]:
    """Axiom-like declarations anywhere in the development.  `Variable` and
    `Hypothesis` are allowed inside Sections only; we check that each file's
    occurrences are between Section/End."""
    bad = []
    listed = [COQ / l.strip() for l in (COQ / "_CoqProject").read_text().splitlines()
              if l.strip().endswith(".v")]
    for f in sorted(listed):
        depth = 0
        in_comment = 0
        for i, line in enumerate(f.read_text().splitlines(), 1):
            # strip comments (nesting-aware, line-based approximation)
            out = []
            j = 0
            while j < len(line):
                if line.startswith("(*", j):
                    in_comment += 1; j += 2
                elif line.startswith("*)", j) and in_comment:
                    in_comment -= 1; j += 2
                else:
                    if not in_comment:
                        out.append(line[j])
                    j += 1
            code = "".join(out)
            if re.match(r"\s*Section\b", code):
                depth += 1
            if re.match(r"\s*End\b", code) and depth:
                depth -= 1
            for mt in FORBIDDEN.finditer(code):
                w = mt.group(0)
                if w in ("Variable", "Variables", "Hypothesis", "Hypotheses",
                         "Context") and depth > 0:
                    continue
                bad.append(f"{f.relative_to(VERIF)}:{i}: {w}")
    return bad


def check_props(pid: str, timeout: int = 600) -> dict:
    """Proof stage for one property: build everything, then re-check the
    property file on its own and read its Print Assumptions output."""
    t0 = time.time()
    ok, log = ensure_built(targets=[f"props/{pid}.vo"])
    res = {"built": ok, "theorems": [], "closed": 0, "open": [], "log_tail": ""}
    if not ok:
        res["log_tail"] = log[-3000:]
        return res
    src = COQ / "props" / f"{pid}.v"
    text = src.read_text()
    names = re.findall(r"^(?:Theorem|Corollary)\s+(\w+)", text, re.M)
    examples = re.findall(r"^Example\s+(\w+)", text, re.M)
    res["theorems"] = names
    res["examples"] = examples
    # Print Assumptions for EVERY theorem of the (freshly built) property file
    d = BUILD / "pa"
    d.mkdir(parents=True, exist_ok=True)
    pa = d / f"PA_{pid}.v"
    pa.write_text(f"From TFP Require Import {pid}.\n" +
        "".join(f"Print Assumptions {n}.\n" for n in names))
    r2 = run(["coqc", "-Q", str(COQ / "theories"), "TF", "-Q", str(COQ / "props"), "TFP", str(pa)],
        timeout, cwd=d)
    if r2.returncode != 0:
        res["built"] = False
        res["log_tail"] = r2.stdout[-3000:]
        return res
    blocks2 = re.split(r"(?=Closed under the global context|Axioms:)", r2.stdout)
    res["closed"] = sum(1 for b in blocks2 if b.startswith("Closed under the global context"))
    res["open"] = [b.strip()[:400] for b in blocks2 if b.startswith("Axioms:")]
    res["printed"] = len(names)
    res["forbidden"] = scan_forbidden()
    res["wall_s"] = round(time.time() - t0, 2)
    # supporting lemma count: Lemma/Theorem in the theories the file requires
    res["lemmas"] = count_lemmas(text)
    return res


def count_lemmas(prop_text: str) -> int:
    n = 0
    seen = set()
    todo = re.findall(r"From TF Require Import ([^.]*(?:\.[A-Za-z_]+)*[^.]*)\.", prop_text)
    mods = []
    for grp in re.findall(r"From TF Require (?:Import|Export) ([^\n]+?)\.\s*$", prop_text, re.M):
        mods += grp.split()
    while mods:
        m = mods.pop()
        if m in seen:
            continue
        seen.add(m)
        f = COQ / "theories" / (m.replace(".", "/") + ".v")
        if not f.exists():
            continue
        t = f.read_text()
        n += len(re.findall(r"^\s*(?:Lemma|Theorem|Corollary)\s+\w+", t, re.M))
        for grp in re.findall(r"From TF Require (?:Import|Export) ([^\n]+?)\.\s*$", t, re.M):
            mods += grp.split()
    return n


def coq_eval(name: str, body: str, timeout: int = 900) -> str:
    """Compile a generated cases file and return coqc's stdout."""
    d = BUILD / "cases"
    d.mkdir(parents=True, exist_ok=True)
    f = d / f"{name}.v"
    f.write_text("Set Printing Width 1000000.\nSet Printing Depth 1000000.\n" + body)
    env = dict(os.environ)
    r = subprocess.run(
        ["bash", "-c", f"ulimit -s unlimited 2>/dev/null; exec coqc -Q {COQ}/theories TF {f}"],
        cwd=d, timeout=timeout, stdout=subprocess.PIPE, stderr=subprocess.STDOUT,
        text=True, env=env)
    if r.returncode != 0:
        raise RuntimeError(f"coqc failed on {f}:\n{r.stdout[-3000:]}")
    return r.stdout


def coq_eval_many(jobs: list[tuple[str, str]], timeout: int = 1800, par: int = 8) -> list[str]:
    """Evaluate several cases files in parallel."""
    from concurrent.futures import ThreadPoolExecutor
    with ThreadPoolExecutor(max_workers=par) as ex:
        return list(ex.map(lambda nb: coq_eval(nb[0], nb[1], timeout), jobs))


def coq_eval_blocks(tag: str, header: str, blocks: list[tuple[str, int]],
        nfiles: int = 4, timeout: int = 1800) -> list[list]:
    """Evaluate blocks (text, number of Eval commands) packed into a few
    files; return the parsed values per block, in order.  Few files and low
    parallelism: many concurrent coqc processes thrash in the kernel here."""
    nfiles = max(1, min(nfiles, len(blocks)))
    # balance by text size
    order = sorted(range(len(blocks)), key=lambda i: -len(blocks[i][0]))
    files: list[list[int]] = [[] for _ in range(nfiles)]
    sizes = [0] * nfiles
    for i in order:
        k = sizes.index(min(sizes))
        files[k].append(i)
        sizes[k] += len(blocks[i][0])
    jobs = []
    for k, idxs in enumerate(files):
        idxs.sort()
        jobs.append((f"{tag}_{k}", header + "\n".join(blocks[i][0] for i in idxs)))
    outs = coq_eval_many(jobs, timeout=timeout, par=nfiles)
    res: list[list] = [None] * len(blocks)  # type: ignore
    for idxs, out in zip(files, outs):
        vals = parse_vals(out)
        pos = 0
        for i in idxs:
            n = blocks[i][1]
            res[i] = vals[pos:pos + n]
            pos += n
        assert pos == len(vals), (pos, len(vals))
    return res


def parse_vals(out: str) -> list:
    """Parse the results of `Eval vm_compute in ...` commands whose values are
    nested lists / tuples of numbers, booleans and strings."""
    vals = []
    for mt in re.finditer(r"^\s*=\s(.*?)^\s*:\s", out, re.M | re.S):
        s = mt.group(1)
        s = re.sub(r"%\w+", "", s)
        s = s.replace(";", ",").replace("(", "[").replace(")", "]")
        s = re.sub(r"\btrue\b", "true", s)
        s = re.sub(r"\bSome\s+", "", s)
        s = re.sub(r"\bNone\b", "null", s)
        s = re.sub(r"\s+", " ", s)
        vals.append(json.loads(s))
    return vals


def coq_list(xs, f=str) -> str:
    return "[" + "; ".join(f(x) for x in xs) + "]"


# --------------------------------------------------------------------------
# concrete types shared by several checks: (op_id, [args]) with the model's
# numbering Top=0 Bottom=1 Unit=2 Function=3 Product=4, user operators from 5

def ty_coq(t) -> str:
    o, args = t
    return f"(TOp {o} {coq_list(args, ty_coq)})"


def ty_str(t, names=None) -> str:
    o, args = t
    n = (names or {}).get(o, {0: "Top", 1: "Bottom", 2: "Unit", 3: "Function", 4: "Product"}.get(o, f"T{o}"))
    return n + ("(" + ", ".join(ty_str(a, names) for a in args) + ")" if args else "")


class Hierarchy:
    """A generated language: base-type forest plus compound operators, with
    the same numbering on the Python and the Coq side."""

    def __init__(self, parents: dict[int, int], variances: dict[int, list[bool]],
            nbase: int):
        # ids 5 .. 5+nbase-1 are base types, the rest compound
        self.parents = parents
        self.variances = variances
        self.nbase = nbase
        self.ids = list(range(5, 5 + nbase)) + sorted(variances)

    def build(self, skip=()):
        """Instantiate as real transforge operators (base types in `skip` are declared
        later, by build_late)."""
        import transforge.type as T
        ops = {0: T.Top, 1: T.Bottom, 2: T.Unit, 3: T.Function, 4: T.Product}
        for i in range(5, 5 + self.nbase):
            if i in skip:
                continue
            p = self.parents.get(i)
            ops[i] = T.TypeOperator(f"B{i}", supertype=ops[p] if p is not None else None)
        for i, vs in sorted(self.variances.items()):
            ops[i] = T.TypeOperator(f"K{i}",
                params=[T.Variance.CO if v else T.Variance.CONTRA for v in vs])
        self.ops = ops
        return ops

    def build_staged(self, rng):
        """Like build(), but - for every other hierarchy - one leaf base type is declared only
        after the others have been compared with each other (users extend a taxonomy while
        working with it); what is asked afterwards must reflect the taxonomy as it is then."""
        leaves = [i for i in range(5, 5 + self.nbase) if i in self.parents and i not in self.parents.values()]
        if not leaves or rng.random() < 0.5:
            return self.build()
        late = rng.choice(leaves)
        self.late = late
        ops = self.build(skip={late})
        base = [ops[i] for i in range(5, 5 + self.nbase) if i != late]
        for a in base:
            for b_ in base:
                a().is_subtype(b_())
                a().is_subtype(b_(), strict=True)
        self.build_late(late)
        return self.ops

    def build_late(self, i: int):
        """Declare base type i now (its parent must exist already)."""
        import transforge.type as T
        p = self.parents.get(i)
        self.ops[i] = T.TypeOperator(f"B{i}", supertype=self.ops[p] if p is not None else None)
        return self.ops[i]

    def arity(self, o: int) -> int:
        if o in (3, 4):
            return 2
        return len(self.variances.get(o, []))

    def variance(self, o: int) -> list[bool]:
        if o == 3:
            return [False, True]
        if o == 4:
            return [True, True]
        return self.variances.get(o, [])

    def coq(self) -> str:
        ps = coq_list(sorted(self.parents.items()), lambda kv: f"({kv[0]}, {kv[1]})")
        vs = coq_list(sorted(self.variances.items()),
            lambda kv: f"({kv[0]}, {coq_list(kv[1], lambda b: 'true' if b else 'false')})")
        return f"(mk_hier {ps} {vs})"

    def to_json(self):
        d = {"parents": {str(k): v for k, v in self.parents.items()},
             "variances": {str(k): v for k, v in self.variances.items()},
             "nbase": self.nbase}
        if getattr(self, "late", None) is not None:
            d["declared_after_first_comparisons"] = self.late     # see build_staged
        return d

    @staticmethod
    def from_json(d) -> "Hierarchy":
        return Hierarchy({int(k): v for k, v in d["parents"].items()},
            {int(k): v for k, v in d["variances"].items()}, d["nbase"])

    def inst(self, t, memo=None):
        """(op, args) -> transforge TypeOperation.  With a memo dict, equal
        subterms are one shared object (as when a user writes S = A() once and
        uses S in several types)."""
        o, args = t
        if memo is None:
            return self.ops[o](*(self.inst(a) for a in args))
        k = repr(t)
        if k not in memo:
            memo[k] = self.ops[o](*(self.inst(a, memo) for a in args))
        return memo[k]

    def names(self):
        return {i: str(op) for i, op in self.ops.items()}

    def all_ops(self) -> list[int]:
        return [0, 1, 2, 3, 4] + self.ids


def gen_hierarchy(rng: random.Random, max_base: int = 8, max_comp: int = 3) -> Hierarchy:
    nbase = rng.randint(1, max_base)
    parents = {}
    depth = {}
    for i in range(5, 5 + nbase):
        cands = [j for j in range(5, i) if depth[j] < 4]
        if cands and rng.random() < 0.7:
            p = rng.choice(cands)
            parents[i] = p
            depth[i] = depth[p] + 1
        else:
            depth[i] = 0
    variances = {}
    for k in range(rng.randint(0, max_comp)):
        ar = rng.randint(1, 3)
        variances[5 + nbase + k] = [rng.random() < 0.6 for _ in range(ar)]
    return Hierarchy(parents, variances, nbase)


def gen_ty(rng: random.Random, h: Hierarchy, depth: int, p_special: float = 0.15):
    ops0 = [o for o in h.all_ops() if h.arity(o) == 0]
    opsn = [o for o in h.all_ops() if h.arity(o) > 0]
    if depth <= 0 or rng.random() < 0.35:
        if rng.random() < p_special:
            return (rng.choice([0, 1, 2]), [])
        return (rng.choice(ops0), [])
    o = rng.choice(opsn)
    return (o, [gen_ty(rng, h, depth - 1, p_special) for _ in range(h.arity(o))])


def mutate_ty(rng: random.Random, h: Hierarchy, t, depth: int):
    """A type related to t: replace some leaves by relatives so that subtype
    pairs are common (uniform pairs are almost never related)."""
    o, args = t
    if not args:
        r = rng.random()
        if r < 0.35:
            return t
        if r < 0.45:
            return (rng.choice([0, 1]), [])
        # relatives on the same chain
        rel = [o]
        p = o
        while p in h.parents:
            p = h.parents[p]
            rel.append(p)
        rel += [c for c, q in h.parents.items() if q == o]
        rel += [c for c, q in h.parents.items() if q in rel]
        if r < 0.9:
            return (rng.choice(rel), [])
        return gen_ty(rng, h, depth)
    if rng.random() < 0.08:
        return gen_ty(rng, h, depth)
    return (o, [mutate_ty(rng, h, a, depth - 1) for a in args])


def ty_size(t) -> int:
    return 1 + sum(ty_size(a) for a in t[1])


def enum_types(h: Hierarchy, depth: int, limit_ops=None) -> list:
    """All concrete types of nesting <= depth (over limit_ops if given)."""
    ops = limit_ops if limit_ops is not None else h.all_ops()
    level = [(o, []) for o in ops if h.arity(o) == 0]
    allt = list(level)
    for _ in range(depth):
        import itertools
        new = []
        for o in ops:
            ar = h.arity(o)
            if ar == 0:
                continue
            for combo in itertools.product(allt, repeat=ar):
                new.append((o, list(combo)))
        seen = set(map(repr, allt))
        for t in new:
            if repr(t) not in seen:
                allt.append(t)
                seen.add(repr(t))
    return allt


# --------------------------------------------------------------------------
# verdicts, evidence, findings

def load_findings() -> dict:
    f = VERIF / "known_findings.json"
    if f.exists():
        return json.loads(f.read_text())
    return {"findings": [], "fixed": []}


class Report:
    def __init__(self, pid: str, tier: str, seed: int):
        self.pid = pid
        self.tier = tier
        self.seed = seed
        self.t0 = time.time()
        self.violations: list[tuple[str, bool]] = []   # (replay path, has_input)
        self.known_hits: list[str] = []
        self.coverage: dict = {}
        self.assumptions: list[str] = []
        self.findings = [f for f in load_findings().get("findings", [])
            if f.get("property") == pid]
        # which statements of the anchored functions does this run execute?
        self._mcov = None
        if pid in ANCHORED and os.environ.get("VERIF_NO_COVERAGE") != "1":
            self._mcov = MultiCoverage(ANCHORED[pid])
            self._mcov.start()
        # replays of earlier runs are stale
        d = REPLAYS / pid
        if d.exists() and "--replay" not in sys.argv:
            for f in d.glob("*.json"):
                try:
                    f.unlink()
                except OSError:
                    pass

    def known(self, signature: str) -> dict | None:
        for f in self.findings:
            if f.get("signature") == signature:
                return f
        return None

    def violation(self, name: str, payload: dict, *, has_input: bool = True,
            signature: str | None = None) -> None:
        """Record a violation unless its root-cause signature is a listed
        known finding."""
        if signature is not None:
            f = self.known(signature)
            if f is not None:
                msg = f"{f.get('what', signature)}"
                if msg not in self.known_hits:
                    self.known_hits.append(msg)
                return
        d = REPLAYS / self.pid
        d.mkdir(parents=True, exist_ok=True)
        p = d / f"{name}.json"
        payload = dict(payload)
        payload.update({"property": self.pid, "seed": self.seed, "tier": self.tier,
            "signature": signature})
        p.write_text(json.dumps(payload, indent=1, default=str))
        self.violations.append((str(p), has_input))

    def proof_stage(self, pid: str | None = None) -> dict:
        pid = pid or self.pid
        res = check_props(pid)
        obligations = len(res.get("theorems", [])) + res.get("lemmas", 0)
        ok = (res.get("built") and not res.get("open")
            and res.get("closed", 0) == res.get("printed", -1)
            and res.get("closed", 0) >= len(res.get("theorems", [])) >= 1
            and not res.get("forbidden"))
        prev = self.coverage if "obligations" in self.coverage else {}
        self.coverage.update({
            "obligations": prev.get("obligations", 0) + obligations,
            "discharged": prev.get("discharged", 0) + (obligations if ok else 0),
            "property_theorems": prev.get("property_theorems", []) + res.get("theorems", []),
            "nonvacuity_examples": prev.get("nonvacuity_examples", []) + res.get("examples", []),
            "print_assumptions_closed": prev.get("print_assumptions_closed", 0) + res.get("closed", 0),
            "axioms_reported": prev.get("axioms_reported", []) + res.get("open", []),
            "checker_cmd": (prev.get("checker_cmd", "make -C coq -j16 (full .vo build)") +
                f" && coqc props/{pid}.v + Print Assumptions for every theorem of it"),
        })
        if ok and self.tier == "thorough":
            # independent re-check of the compiled property file and everything
            # it depends on; lists every axiom of every loaded library
            t0 = time.time()
            r = run(["coqchk", "-silent", "-o", "-Q", "theories", "TF", "-Q", "props", "TFP", f"TFP.{pid}"],
                1800, cwd=COQ)
            mt = re.search(r"\* Axioms:(.*?)\n\s*\n\* Constants", r.stdout, re.S)
            ax = mt.group(1).strip() if mt else "?"
            self.coverage["coqchk"] = {"exit": r.returncode, "axioms": ax,
                "wall_s": round(time.time() - t0, 1)}
            if r.returncode != 0 or ax != "<none>":
                ok = False
                res["open"] = res.get("open", []) + [f"coqchk: exit {r.returncode}, axioms: {ax[:300]}"]
                self.coverage["discharged"] = 0
        if not ok:
            what = "build failed" if not res.get("built") else (
                "axioms: " + "; ".join(res.get("open", [])) if res.get("open") else
                "forbidden declarations: " + "; ".join(res.get("forbidden", [])) if res.get("forbidden")
                else "Print Assumptions count mismatch")
            self.violation("proof_stage", {"kind": "proof", "theorems": res.get("theorems"),
                "what": what, "log_tail": res.get("log_tail", "")}, has_input=False)
        return res

    def finish(self, level_trusted: list[str]) -> int:
        if self._mcov is not None and "anchored_code_lines_executed_by_this_run" not in self.coverage:
            self.coverage["anchored_code_lines_executed_by_this_run"] = self._mcov.stop()
        cov = self.coverage
        cov.setdefault("trusted_base", level_trusted)
        ev = {
            "property_id": self.pid, "tier": self.tier, "seed": self.seed,
            "level": "proof", "coverage": cov,
            "assumptions": self.assumptions,
            "wall_s": round(time.time() - self.t0, 2),
            "violations": len(self.violations),
            "known_findings_reproduced": self.known_hits,
        }
        EVID.mkdir(exist_ok=True)
        (EVID / f"{self.pid}.json").write_text(json.dumps(ev, indent=1, default=str))
        for msg in self.known_hits:
            print(f"KNOWN-FINDING: property={self.pid} {msg}")
        if self.violations:
            # prefer a violation with a concrete failing input
            self.violations.sort(key=lambda v: not v[1])
            path, has_input = self.violations[0]
            tail = "" if has_input else " no-failing-input-found"
            print(f"VIOLATION property={self.pid} replay={path}{tail}")
            return 1
        print(f"OK property={self.pid} tier={self.tier} seed={self.seed} "
              f"wall={ev['wall_s']}s")
        return 0


TRUSTED = [
    "Coq 8.16.1 kernel (coqc; vm_compute used for model evaluation and finite witnesses; no native_compute)",
    "axioms: none (every property theorem prints 'Closed under the global context')",
    "hand-written Gallina model of the anchored code, tied to /repo by the correspondence run of this check (tested agreement on generated cases, not proved)",
    "Python harness: generators, canonicalisation of observations, parsing of coqc output",
    "CPython 3.12 evaluation of transforge; rdflib where graphs are involved",
]


# --------------------------------------------------------------------------
# how much of the anchored code did the correspondence run execute?

ANCHORED = {
 "C01": {"transforge/type.py": ["TypeOperator.subtype", "TypeInstance.match", "Type.is_subtype"]},
 "C02": {"transforge/type.py": ["Type.apply", "TypeInstance.unify", "TypeOperator.subtype"]},
 "C04": {"transforge/expr.py": ["Application.__init__", "Expr.fix", "Operator.instance", "Operation.__init__", "Source.__init__"],
         "transforge/lang.py": ["Language.parse_expr", "Language.parse_type"],
         "transforge/type.py": ["Type.apply", "TypeInstance.unify", "TypeVariable.bind", "TypeInstance.fix"]},
 "C05": {"transforge/type.py": ["TypeVariable.above", "TypeVariable.below", "TypeVariable.bind", "TypeInstance.fix", "TypeInstance.unify"]},
 "C06": {"transforge/type.py": ["EliminationConstraint.minimize", "EliminationConstraint.fulfill", "TypeInstance.match", "with_parameters"]},
 "C07": {"transforge/graph.py": ["TransformationGraph.add_expr", "TransformationGraph.add_type"]},
 "C08": {"transforge/graph.py": ["TransformationGraph.add_expr", "TransformationGraph.add_from"]},
 "C09": {"transforge/graph.py": ["TransformationGraph.add_from"]},
 "C10": {"transforge/lang.py": ["Language.expand_canon", "Language.successors"],
         "transforge/type.py": ["TypeOperation.successors", "TypeOperator.floor", "TypeOperator.ceiling"],
         "transforge/graph.py": ["TransformationGraph.add_taxonomy", "TransformationGraph.add_subtypes", "TransformationGraph.add_supertypes"]},
 "C11": {"transforge/query.py": ["TransformationQuery.assign_variables", "TransformationQuery.chronology", "TransformationQuery.types",
                                 "TransformationQuery.operators", "TransformationQuery.output_nodes", "TransformationQuery.input_nodes",
                                 "TransformationQuery.sparql", "TransformationQuery.from_list"]},
 "C12": {"transforge/graph.py": ["TransformationGraph.add_workflow"],
         "transforge/workflow.py": ["Workflow.source_types", "Workflow.target"]},
 "C13": {"transforge/lang.py": ["Language.parse_expr", "tokenize", "strip_comments"], "transforge/expr.py": ["Expr.match"]},
 "C14": {"transforge/lang.py": ["Language.uri", "Language.parse_type_uri", "Language.parse_type", "Language.add"],
         "transforge/type.py": ["TypeInstance.text"]},
 "C15": {"transforge/expr.py": ["Expr.primitive", "Expr.normalize", "Expr.copy", "Operator.validate", "Abstraction.calculate_type"]},
 "C16": {"transforge/expr.py": ["Operation.__init__", "Operator.instance"], "transforge/type.py": ["TypeSchema.instance"],
         "transforge/lang.py": ["Language.parse_type", "Language.parse_expr"]},
 "C17": {"transforge/type.py": ["TypeVariable.bind", "TypeVariable.above", "TypeVariable.below", "TypeVariable.check_constraints",
                                "EliminationConstraint.fulfill", "SubtypeConstraint.fulfill", "TypeInstance.text"],
         "transforge/lang.py": ["Language.parse_expr", "Language.parse_type"]},
 "C18": {"transforge/type.py": ["TypeVariable.check_constraints", "EliminationConstraint.fulfill", "EliminationConstraint.minimize",
                                "SubtypeConstraint.fulfill"]},
 "C20": {"transforge/bag.py": ["TypeUnion.add", "TypeUnion.is_subtype", "Bag.add"], "transforge/query.py": ["TransformationQuery.types"]},
}


class MultiCoverage:
    """coverage.py over several modules of /repo for the anchored functions of one property."""

    def __init__(self, spec: dict):
        self.spec = spec
        self.cov = None

    def start(self):
        try:
            import coverage
        except ImportError:
            return
        try:
            self.cov = coverage.Coverage(include=[str(REPO / m) for m in self.spec], data_file=None)
            self.cov.start()
        except Exception:  # noqa: BLE001 - another tracer is active; coverage stays unmeasured
            self.cov = None

    def stop(self) -> dict:
        if self.cov is None:
            return {"available": False}
        try:
            self.cov.stop()
        except Exception:  # noqa: BLE001
            return {"available": False}
        out = {"available": True, "functions": {}}
        for mod, fns in self.spec.items():
            lc = LineCoverage(mod, fns)
            lc.cov = self.cov
            lc._external = True
            r = lc.stop()
            if r.get("available"):
                for k, v in r["functions"].items():
                    out["functions"][f"{mod}:{k}"] = v
        tot = sum(v["statements"] for v in out["functions"].values() if isinstance(v, dict))
        ex = sum(v["executed"] for v in out["functions"].values() if isinstance(v, dict))
        out["statements"] = tot
        out["executed"] = ex
        return out


class LineCoverage:
    """Measures, with coverage.py, which lines of the named functions of one
    transforge module were executed between start() and stop().  Reported in
    the evidence as a measure of how tightly the generated cases tie the model
    to the code; never a verdict."""

    def __init__(self, module_rel: str, functions: list[str]):
        self.path = str(REPO / module_rel)
        self.functions = functions
        self.cov = None

    def start(self):
        try:
            import coverage
        except ImportError:
            return
        self.cov = coverage.Coverage(include=[self.path], data_file=None)
        self.cov.start()

    def stop(self) -> dict:
        if self.cov is None:
            return {"available": False}
        import ast
        if not getattr(self, "_external", False):
            self.cov.stop()
        try:
            _, statements, _, missing, _ = self.cov.analysis2(self.path)
        except Exception as e:  # noqa: BLE001
            return {"available": False, "error": str(e)}
        tree = ast.parse(open(self.path).read())
        spans = {}
        for node in ast.walk(tree):
            if isinstance(node, ast.ClassDef):
                for f in node.body:
                    if isinstance(f, ast.FunctionDef):
                        spans[f"{node.name}.{f.name}"] = (f.lineno, f.end_lineno)
            elif isinstance(node, ast.FunctionDef):
                spans.setdefault(node.name, (node.lineno, node.end_lineno))
        out = {}
        stm, mis = set(statements), set(missing)
        for fn in self.functions:
            if fn not in spans:
                out[fn] = "not found"
                continue
            a, b_ = spans[fn]
            st = [l for l in stm if a <= l <= b_]
            ms = sorted(l for l in mis if a <= l <= b_)
            out[fn] = {"statements": len(st), "executed": len(st) - len(ms), "not_executed_lines": ms}
        return {"available": True, "file": self.path, "functions": out}
