"""C19 -- the part of the check that runs INSIDE an interpreter that imports
transforge: building a language from a JSON spec, generating the graphs of the
cases, dumping them as plain triples.  Used in-process by harness/c19.py and as
the child program of the fresh interpreters it spawns

    PYTHONHASHSEED=<n> [TRANSFORGE_VERIF=1] PYTHONPATH=<repo> python c19_impl.py job.json out.json

Nothing of transforge is patched or replaced.  The only classes defined on top of
transforge are implementations of its public abstract Workflow interface whose
`sources` / `tool_outputs` sets iterate in a prescribed order (the schedules
quantifier of the property)."""
from __future__ import annotations

import json
import sys


# --------------------------------------------------------------------------
# language from spec
#
# spec = {"bases": [[name, parent|None], ...]        parents first
#         "compounds": [[name, [co?, ...]], ...]
#         "ops": [[name, type_source, body_source|None, doc|None], ...]
#         "canon": [type_source, ...] | None }
# the sources are Python expressions over the type operators, `_`, Top, Bottom
# and (bodies) the operators declared before

def build_language(spec):
    import transforge.type as T
    from transforge.expr import Operator
    from transforge.lang import Language
    env = {"Top": T.Top, "Bottom": T.Bottom, "Unit": T.Unit, "_": T._}
    scope = {}
    for name, parent in spec["bases"]:
        scope[name] = env[name] = T.TypeOperator(name, supertype=env[parent] if parent else None)
    for name, var in spec["compounds"]:
        scope[name] = env[name] = T.TypeOperator(name,
            params=[T.Variance.CO if v else T.Variance.CONTRA for v in var])
    for name, ty, body, doc in spec["ops"]:
        t = eval(ty, dict(env))
        b = eval(body, dict(env)) if body else None
        scope[name] = env[name] = Operator(doc, type=t, body=b)
    kw = {}
    if spec.get("canon") is not None:
        kw["canon"] = [eval(c, dict(env)) for c in spec["canon"]]     # an ordered collection
    lang = Language(scope=scope, namespace="https://example.com/#", **kw)
    return lang, env


# --------------------------------------------------------------------------
# workflows with a prescribed listing order

def workflow_classes():
    from transforge.workflow import Workflow

    class OrderedSet(set):
        """a set whose iteration order is the given one"""
        def __init__(self, items):
            super().__init__(items)
            self._order = list(dict.fromkeys(items))

        def __iter__(self):
            return iter(self._order)

        def __sub__(self, other):
            return OrderedSet([x for x in self._order if x not in other])

    class ListedWorkflow(Workflow):
        def __init__(self, root, tool_apps, sources, app_order, source_order):
            self._root = root
            self._apps = dict(tool_apps)
            self._sources = OrderedSet([sources[i] for i in source_order])
            keys = list(tool_apps)
            self._outputs = OrderedSet([keys[i] for i in app_order])

        root = property(lambda self: self._root)
        sources = property(lambda self: self._sources)
        tool_outputs = property(lambda self: self._outputs)

        def expression(self, r):
            return self._apps[r][0]

        def inputs(self, r):
            return iter(self._apps[r][1])

        def tool(self, r):
            return r

    return OrderedSet, ListedWorkflow


# --------------------------------------------------------------------------
# one case -> one graph

def run_case(lang, case, sched=None):
    """-> {"status": "ok", "triples": [...]} | {"status": "error", "cls": ...}
    sched (workflows only): {"apps": [permutation], "sources": [permutation]}"""
    from rdflib import BNode, URIRef
    from transforge.graph import TransformationGraph
    from transforge.expr import Source
    from transforge.workflow import WorkflowDict
    NS = "https://example.com/#"
    kind = case["kind"]
    flags = dict(case.get("flags") or {})
    try:
        if kind == "vocab":
            g = TransformationGraph(lang, **flags)
            g.add_vocabulary()
        elif kind == "expr":
            g = TransformationGraph(lang, **flags)
            srcs = [Source() for _ in range(case["n_inputs"])]
            for i, text in enumerate(case["exprs"]):
                e = lang.parse_expr(text, *srcs)
                if case.get("primitive", True):
                    e = e.primitive()
                g.add_expr(e, URIRef(NS + f"root{i}"))
        elif kind == "workflow":
            g = TransformationGraph(lang, passthrough=case["passthrough"], **flags)
            apps = {URIRef(NS + name): (text, [URIRef(NS + i) for i in inputs])
                    for name, text, inputs in case["tools"]}
            sources = [URIRef(NS + s) for s in case["sources"]]
            if sched is None:
                wf = WorkflowDict(URIRef(NS + "wf"), apps, set(sources))
            else:
                _, Listed = workflow_classes()
                wf = Listed(URIRef(NS + "wf"), apps, sources, sched["apps"], sched["sources"])
            g.add_workflow(wf)
            if case.get("with_vocab"):
                g.add_vocabulary()
        else:
            raise ValueError(kind)
    except Exception as e:      # noqa: BLE001 - every failure is an observation
        import traceback
        frames = [f.name for f in traceback.extract_tb(e.__traceback__)]
        cause = e.__cause__
        return {"status": "error", "cls": type(e).__name__,
                "cause": type(cause).__name__ if cause is not None else None,
                "msg": str(e)[:300] if not isinstance(e, AssertionError) else "",
                "frames": frames[-4:]}
    kind, form = canonical(dump(g))
    return {"status": "ok", "n": len(form), "canon": kind, "form": form}


def term(t):
    from rdflib import BNode, URIRef, Literal
    if isinstance(t, BNode):
        return "_:" + str(t)
    if isinstance(t, URIRef):
        return "<" + str(t) + ">"
    assert isinstance(t, Literal), t
    return t.n3()


def dump(g):
    return sorted([term(s), term(p), term(o)] for s, p, o in g)


def canon_of(lang):
    """the canonical set as sorted texts (Language.canon after expand_canon)"""
    return sorted(t.text() for t in lang.canon)



# --------------------------------------------------------------------------
# canonical form of a graph up to blank-node renaming (pure Python)
#
# colour refinement + individualisation: the result is a triple list in which
# blank nodes are named by their position in a canonical order, so two graphs are
# isomorphic iff their canonical forms are EQUAL.  When the search budget is
# exhausted (many independent symmetric parts) the form is only an isomorphism
# INVARIANT (kind "invariant"): different invariants still prove non-isomorphism.

import re as _re

_TAU = _re.compile("\u03c4[0-9]+")


def mask_literal(o: str) -> str:
    """rename the running numbers of printed type variables by first occurrence
    inside the literal (tau7 ** tau7 ** tau9 -> tau#1 ** tau#1 ** tau#2)"""
    if not o.startswith('"') or "\u03c4" not in o:
        return o
    seen = {}

    def ren(m):
        return seen.setdefault(m.group(0), "\u03c4#%d" % (len(seen) + 1))
    return _TAU.sub(ren, o)


def _refine(nodes, adj, col):
    """stable colouring; colours are ranks of isomorphism-invariant signatures"""
    ncls = len(set(col.values()))
    while True:
        sig = {}
        for b in nodes:
            sig[b] = (col[b], tuple(sorted((d, p, (0, col[o], "") if o in col else (1, 0, o))
                                           for d, p, o in adj[b])))
        order = {s: i for i, s in enumerate(sorted(set(sig.values())))}
        col = {b: order[sig[b]] for b in nodes}
        n2 = len(order)
        if n2 == ncls:
            return col
        ncls = n2


def _labelled(triples, col):
    def nm(x):
        return "_:c%d" % col[x] if x in col else x
    return sorted([nm(s), p, nm(o)] for s, p, o in triples)


def canonical(triples, budget=200):
    """-> (kind, form): kind "exact" | "invariant" """
    triples = [(s, p, mask_literal(o)) for s, p, o in triples]
    nodes = sorted({x for s, _, o in triples for x in (s, o) if x.startswith("_:")})
    if not nodes:
        return "exact", sorted([s, p, o] for s, p, o in triples)
    adj = {b: [] for b in nodes}
    for s, p, o in triples:
        if s in adj:
            adj[s].append((0, p, o))
        if o in adj:
            adj[o].append((1, p, s))
    col = _refine(nodes, adj, {b: 0 for b in nodes})
    left = [budget]
    best = [None]

    def search(col):
        classes = {}
        for b in nodes:
            classes.setdefault(col[b], []).append(b)
        multi = sorted(c for c, ms in classes.items() if len(ms) > 1)
        if not multi:
            form = _labelled(triples, col)
            if best[0] is None or form < best[0]:
                best[0] = form
            left[0] -= 1
            return
        members = classes[multi[0]]
        # true twins (identical neighbourhoods, not adjacent to each other) are swapped
        # by an automorphism: one representative per group is enough
        groups = {}
        for v in members:
            key = frozenset(adj[v])
            groups.setdefault(key, []).append(v)
        reps = []
        for key, vs in groups.items():
            inside = any(o in vs for _, _, o in key)
            reps += vs if inside else vs[:1]
        for v in sorted(reps):
            if left[0] <= 0:
                return
            c2 = {b: 2 * c + 1 for b, c in col.items()}
            c2[v] = 2 * col[v]
            search(_refine(nodes, adj, c2))

    search(col)
    if left[0] <= 0:
        # budget exhausted: the stable colouring is still an invariant
        return "invariant", _labelled(triples, col)
    # rename classes 0..n-1 in order (colours of a discrete partition are already ranks)
    return "exact", best[0]


def digest(form) -> str:
    import hashlib
    return hashlib.sha1(json.dumps(form, ensure_ascii=False).encode()).hexdigest()


# --------------------------------------------------------------------------
# child program

def advance_tau(offset):
    """An unrelated history: fresh type variables are printed until the running number in
    the names of unresolved variables stands just below a power of ten (the names printed
    next differ in length: "τ9", "τ10").  Only the running numbers may depend on this."""
    import re
    import transforge.type as T
    try:
        n = int(re.sub(r"\D", "", T.TypeVariable().text()) or 0)
    except Exception:       # noqa: BLE001
        return
    target = 10
    while target - 1 - offset <= n:
        target *= 10
    if target > 100000:
        return
    for _ in range(target - 2 - offset - n):
        T.TypeVariable().text()


def child(job):
    """job = {"langs": [{"spec":..., "cases": [...]}], "junk": n}
    Passes per language (plus tau0/tau1: as `again`, after an unrelated history that brings
    the running number of variable names just below a power of ten):
      first   every case once, in order, on a freshly built language
      again   every case once more, in reverse order, on the SAME language object
              (each case now comes after unrelated graphs from the same language)
      rebuilt every case on a language built a second time in this process"""
    out = []
    junk = [object() for _ in range(job.get("junk", 0))]       # shifts the allocation pattern
    for lj in job["langs"]:
        res = {"first": [], "again": [], "tau0": [], "tau1": [], "rebuilt": [], "canon": None, "lang_error": None}
        try:
            lang, _ = build_language(lj["spec"])
        except Exception as e:      # noqa: BLE001
            res["lang_error"] = f"{type(e).__name__}: {e}"[:300]
            out.append(res)
            continue
        cases = lj["cases"]
        res["canon"] = canon_of(lang)
        res["first"] = [run_case(lang, c) for c in cases]
        keep = [object() for _ in range(97)]
        res["again"] = [run_case(lang, c) for c in reversed(cases)][::-1]
        # ... and with the running number of variable names brought just below a power of ten
        # (for the cases whose labels print constraints of at least two unresolved variables -
        # a process has only a handful of such boundaries to spend; the others repeat `again`)
        cand = [i for i, r in enumerate(res["first"]) if r.get("status") == "ok" and any(
            t[2].startswith('"') and "τ#2" in t[2] and "[" in t[2] for t in r["form"])]
        for name, off in (("tau0", 0), ("tau1", 1)):
            res[name] = list(res["again"])
            for i in cand:
                advance_tau(off)
                res[name][i] = run_case(lang, cases[i])
        res["canon_again"] = canon_of(lang)
        lang2, _ = build_language(lj["spec"])
        res["rebuilt"] = [run_case(lang2, c) for c in cases]
        del keep
        out.append(res)
    del junk
    return out


if __name__ == "__main__":
    job = json.loads(open(sys.argv[1]).read())
    import os
    result = {"hashseed": os.environ.get("PYTHONHASHSEED"),
              "guard": os.environ.get("TRANSFORGE_VERIF"),
              "results": child(job)}
    open(sys.argv[2], "w").write(json.dumps(result))
