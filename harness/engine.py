"""Engine programs: shared by the checks that exercise the inference engine
(C03, C04, C05, C06, C16, C17, C18).

A *program* is a list of commands over a value list, mirrored by
coq/theories/Infer/Run.v:
    ("inst", schema)           push TypeSchema(...).instance()
    ("apply", f, x, fix)       push vals[f].apply(vals[x], fix=fix)
    ("unify", a, b, sub)       vals[a].unify(vals[b], subtype=sub)
    ("fix", a, prefer_lower)   push vals[a].fix(prefer_lower)
schema = (n, body, [constraint]);  schematic types: ("v", i) | ("w",) | ("o", op, [args])
constraint = ("sub", ref, target, strict) | ("elim", ref, [alts])
"""
from __future__ import annotations

import itertools
import math
import random

from . import common as C

FUEL = 400

HDR = """From Coq Require Import List Arith Bool.
Import ListNotations.
From TF Require Import Base.Hier Base.Ty Infer.Store Infer.Engine Infer.Run Infer.Witness Infer.Check.
"""

ERRCODE = {"SubtypeMismatch": 0, "TypeMismatch": 1, "FunctionApplicationError": 2,
    "RecursiveTypeError": 3, "ConstraintViolation": 4, "AssertionError": 5,
    "RecursionError": 6}
ERRNAME = {v: k for k, v in ERRCODE.items()}


# ---------------------------------------------------------------- Coq syntax

def sty_coq(t) -> str:
    if t[0] == "v":
        return f"(SVar {t[1]})"
    if t[0] == "w":
        return "SWild"
    return f"(SOp {t[1]} {C.coq_list(t[2], sty_coq)})"


def b(x) -> str:
    return "true" if x else "false"


def expand_wp(arity_of, ops, param, at):
    """The alternatives with_parameters(*ops, param=param, at=at) produces
    (transforge/type.py with_parameters), as schematic types."""
    out = []
    for o in ops:
        ar = arity_of(o)
        idxs = ([at - 1] if at else list(range(ar))) if param is not None else [-1]
        for i in idxs:
            if i < ar:
                out.append(("o", o, [param if (param is not None and i == j) else ("w",) for j in range(ar)]))
    return out


_ARITY = {"f": None}


def constr_coq(c) -> str:
    if c[0] == "elimwp":
        return constr_coq(("elim", c[1], expand_wp(_ARITY["f"], c[2], c[3], c[4])))
    if c[0] == "sub":
        return f"(SCSub {sty_coq(c[1])} {sty_coq(c[2])} {b(c[3])})"
    return f"(SCElim {sty_coq(c[1])} {C.coq_list(c[2], sty_coq)})"


def schema_coq(sc) -> str:
    n, body, cs = sc
    return f"(mkSchema {n} {sty_coq(body)} {C.coq_list(cs, constr_coq)})"


def cmd_coq(c) -> str:
    if c[0] == "inst":
        return f"(CInst {schema_coq(c[1])})"
    if c[0] == "apply":
        return f"(CApply {c[1]} {c[2]} {b(c[3])})"
    if c[0] == "unify":
        return f"(CUnify {c[1]} {c[2]} {b(c[3])})"
    return f"(CFix {c[1]} {b(c[2])})"


def conc_to_sty(t):
    """concrete (op, args) -> schematic type"""
    return ("o", t[0], [conc_to_sty(a) for a in t[1]])


def conc_schema(t):
    return (0, conc_to_sty(t) if not (isinstance(t, tuple) and t and t[0] in ("v", "w", "o")) else t, [])


def pool_of(h: C.Hierarchy) -> list:
    """Candidate instantiations for unresolved variables: every base type,
    Top, Bottom, Unit and two compound samples."""
    bases = list(range(5, 5 + h.nbase))
    pool = [(b_, []) for b_ in bases] + [(0, []), (1, []), (2, [])]
    un = [o for o in h.ids if h.arity(o) == 1]
    if un:
        pool.append((un[0], [(bases[0], [])]))
    pool.append((3, [(bases[0], []), (bases[-1], [])]))
    return pool


def case_block_check(name: str, h: C.Hierarchy, progs, cap: int = 60) -> tuple[str, int]:
    """Like case_block, with the verified witness checker's row appended."""
    _ARITY["f"] = h.arity
    txt = f"Definition {name} := {h.coq()}.\n"
    pool = C.coq_list(pool_of(h), C.ty_coq)
    items = C.coq_list(progs, lambda ps: f"({C.coq_list(ps[1])}, {C.coq_list(ps[0], cmd_coq)})")
    txt += (f"Eval vm_compute in map (fun p : list nat * list cmd => run_check {name} {FUEL} {cap} {pool} (fst p) (snd p)) "
            f"{items}.\n")
    return txt, 1


def case_block(name: str, h: C.Hierarchy, progs: list[tuple[list, list[int]]]) -> tuple[str, int]:
    """One Coq block evaluating several (program, schedule) pairs over one hierarchy."""
    _ARITY["f"] = h.arity
    txt = f"Definition {name} := {h.coq()}.\n"
    items = C.coq_list(progs, lambda ps: f"({C.coq_list(ps[1])}, {C.coq_list(ps[0], cmd_coq)})")
    txt += (f"Eval vm_compute in map (fun p : list nat * list cmd => run_dump {name} {FUEL} (fst p) (snd p)) "
            f"{items}.\n")
    return txt, 1


# ------------------------------------------------------------ Python syntax

def sty_py(t, names) -> str:
    if t[0] == "v":
        return f"x{t[1]}"
    if t[0] == "w":
        return "_"
    o, args = t[1], t[2]
    if o == 3:
        return f"({sty_py(args[0], names)} ** {sty_py(args[1], names)})"
    if o == 4:
        return f"({sty_py(args[0], names)} * {sty_py(args[1], names)})"
    return f"{names[o]}({', '.join(sty_py(a, names) for a in args)})"


def constr_py(c, names) -> str:
    if c[0] == "elimwp":
        args = [names[o] for o in c[2]]
        if c[3] is not None:
            args.append(f"param={sty_py(c[3], names)}")
        if c[4]:
            args.append(f"at={c[4]}")
        return f"({sty_py(c[1], names)} << with_parameters({', '.join(args)}))"
    if c[0] == "sub":
        return f"({sty_py(c[1], names)} {'<' if c[3] else '<='} {sty_py(c[2], names)})"
    return f"({sty_py(c[1], names)} << [{', '.join(sty_py(a, names) for a in c[2])}])"


def schema_py(sc, names) -> str:
    n, body, cs = sc
    params = ", ".join(f"x{i}" for i in range(n))
    src = sty_py(body, names)
    if body[0] != "o":
        # a bare variable/wildcard body: make sure it is an instance
        src = f"{src}.instance()" if body[0] == "w" else src
    if cs:
        src = f"({src})[{', '.join(constr_py(c, names) for c in cs)}{',' if len(cs) == 1 else ''}]"
    return f"lambda {params}: {src}"


def build_schema(h: C.Hierarchy, sc):
    import transforge.type as T
    names = {i: f"op{i}" for i in h.ops}
    env = {f"op{i}": op for i, op in h.ops.items()}
    env["_"] = T._
    env["with_parameters"] = T.with_parameters
    return T.TypeSchema(eval(schema_py(sc, names), env))


# ------------------------------------------------------- mirror object graph

class MVar:
    __slots__ = ("wildcard", "bound", "lower", "upper", "cons", "key")

    def __init__(self, key):
        self.key = key
        self.wildcard = False
        self.bound = None
        self.lower = None
        self.upper = None
        self.cons = []      # list of MCon


class MOp:
    __slots__ = ("op", "params")

    def __init__(self, op, params):
        self.op = op
        self.params = params


class MCon:
    __slots__ = ("seq", "elim", "strict", "done", "ref", "alts")


def follow(t):
    while isinstance(t, MVar) and t.bound is not None:
        t = t.bound
    return t


def snap_impl(h: C.Hierarchy, vals):
    """Snapshot the reachable transforge objects as mirror objects."""
    import transforge.type as T
    opid = {id(op): i for i, op in h.ops.items()}
    vmap: dict[int, MVar] = {}
    cmap: dict[int, MCon] = {}
    keep = []

    def conv(t):
        if isinstance(t, T.TypeVariable):
            if id(t) in vmap:
                return vmap[id(t)]
            keep.append(t)
            m = vmap[id(t)] = MVar(len(vmap))
            m.wildcard = bool(t.wildcard)
            m.lower = opid[id(t.lower)] if t.lower is not None else None
            m.upper = opid[id(t.upper)] if t.upper is not None else None
            m.bound = conv(t.bound) if t.bound is not None else None
            m.cons = [convc(c) for c in set.__iter__(t._constraints)] \
                if isinstance(t._constraints, set) else [convc(c) for c in t._constraints]
            return m
        assert isinstance(t, T.TypeOperation), type(t)
        return MOp(opid[id(t.operator)], [conv(p) for p in t.params])

    def convc(c):
        if id(c) in cmap:
            return cmap[id(c)]
        keep.append(c)
        m = cmap[id(c)] = MCon()
        m.seq = getattr(c, "_verif_seq", len(cmap))
        m.done = bool(c.fulfilled)
        if isinstance(c, T.EliminationConstraint):
            m.elim, m.strict = True, False
            m.ref = None
            m.alts = []
            m.ref = conv(c.reference)
            m.alts = [conv(a) for a in c.alternatives]
        else:
            m.elim, m.strict = False, bool(c.strict)
            m.ref = None
            m.alts = []
            m.ref = conv(c.reference)
            m.alts = [conv(c.target)]
        return m

    return [conv(v) for v in vals]


def dec_tyv(row, pos, vars_):
    if row[pos] == 0:
        return vars_[row[pos + 1]], pos + 2
    o, n = row[pos + 1], row[pos + 2]
    pos += 3
    ps = []
    for _ in range(n):
        p, pos = dec_tyv(row, pos, vars_)
        ps.append(p)
    return MOp(o, ps), pos


def snap_model(rows):
    """Parse Run.dump output: (error or None, mirror values)."""
    status = rows[0]
    err = None if status[0] == 0 else (status[1], status[2], status[3])
    nv = sum(1 for r in rows if r[0] == 20)
    vars_ = [MVar(i) for i in range(nv)]
    csets = {}
    cons: dict[int, MCon] = {}
    vals = []
    pending_vals = []
    cur = None
    for r in rows[1:]:
        k = r[0]
        if k == 10:
            pending_vals.append(r)
        elif k == 20:
            v = vars_[r[1]]
            v.wildcard = bool(r[2])
            v.lower = r[3] - 1 if r[3] else None
            v.upper = r[4] - 1 if r[4] else None
            v.cons = r[5]   # set index for now
        elif k == 21:
            vars_[r[1]].bound, _ = dec_tyv(r, 2, vars_)
        elif k == 25:
            csets[r[1]] = r[2:]
        elif k == 30:
            cur = cons[r[1]] = MCon()
            cur.seq = r[1]
            cur.elim, cur.strict, cur.done = bool(r[2]), bool(r[3]), bool(r[4])
            cur.alts = []
        elif k == 31:
            cur.ref, _ = dec_tyv(r, 1, vars_)
        elif k == 32:
            a, _ = dec_tyv(r, 1, vars_)
            cur.alts.append(a)
    for v in vars_:
        v.cons = [cons[c] for c in csets.get(v.cons, [])]
    for r in pending_vals:
        t, _ = dec_tyv(r, 1, vars_)
        vals.append(t)
    return err, vals


def canon(vals):
    """Canonical, comparable form of a mirror graph: variables numbered by
    first occurrence, constraints ranked by creation order."""
    varnum: dict[int, int] = {}
    order: list[MVar] = []
    cons_seen: dict[int, MCon] = {}

    def walk(t):
        t = follow(t)
        if isinstance(t, MVar):
            if id(t) not in varnum:
                varnum[id(t)] = len(varnum)
                order.append(t)
            return ("v", varnum[id(t)])
        return ("o", t.op, tuple(walk(p) for p in t.params))

    out_vals = [walk(v) for v in vals]
    i = 0
    ctab = {}
    while i < len(order):
        v = order[i]
        i += 1
        for c in sorted(v.cons, key=lambda c: c.seq):
            if id(c) not in cons_seen:
                cons_seen[id(c)] = c
                ctab[id(c)] = ("elim" if c.elim else "sub", c.strict, c.done,
                    walk(c.ref), tuple(walk(a) for a in c.alts))
    ranked = sorted(cons_seen.values(), key=lambda c: c.seq)
    rank = {id(c): k for k, c in enumerate(ranked)}
    vtab = [(v.wildcard, v.lower, v.upper, tuple(sorted(rank[id(c)] for c in v.cons)))
            for v in order]
    return {"vals": out_vals, "vars": vtab, "cons": [ctab[id(c)] for c in ranked]}


# ------------------------------------------------------------ running impl

class Sched:
    """Imposes a re-check schedule on the implementation through the hook:
    the k-th choice point (>= 2 pending constraints) uses entry k."""

    def __init__(self, entries):
        self.entries = list(entries)
        self.points: list[int] = []   # number of pending constraints at each point

    def __call__(self, items):
        k = len(self.points)
        self.points.append(len(items))
        r = self.entries[k] if k < len(self.entries) else 0
        return permute(r, list(items))


def permute(r, l):
    out = []
    l = list(l)
    while l:
        n = len(l)
        i = r % n
        out.append(l.pop(i))
        r //= n
    return out


def run_impl(h: C.Hierarchy, prog, sched=()):
    """Run a program on transforge.  Returns (err, vals, sched_points) with
    err = None | (class name, message, command index)."""
    import transforge.type as T
    s = Sched(sched)
    T._verif_schedule = s
    vals = []
    err = None
    try:
        for i, c in enumerate(prog):
            try:
                if c[0] == "inst":
                    vals.append(build_schema(h, c[1]).instance())
                elif c[0] == "apply":
                    vals.append(vals[c[1]].apply(vals[c[2]], fix=c[3]))
                elif c[0] == "unify":
                    vals[c[1]].unify(vals[c[2]], subtype=c[3])
                else:
                    vals.append(vals[c[1]].fix(prefer_lower=c[2]))
            except Exception as e:  # noqa: BLE001 - every escape is an observation
                err = (type(e).__name__, str(e)[:200] if not isinstance(e, T.TypingError) else "", i,
                    isinstance(e, T.TypingError))
                break
    finally:
        T._verif_schedule = None
    return err, vals, s.points


def err_key_impl(err):
    if err is None:
        return None
    name, msg, i, declared = err
    code = ERRCODE.get(name, 99)
    site = 0
    if name == "AssertionError":
        site = 1 if "unified twice" in msg else -1
    return (code, site, i)


def err_key_model(err):
    if err is None:
        return None
    code, site, i = err
    if code == 5 and site != 1:
        site = -1
    return (code, site, i)


def observe_impl(h, prog, sched=()):
    err, vals, points = run_impl(h, prog, sched)
    snap = canon(snap_impl(h, vals))
    return err, vals, {"err": err_key_impl(err), **snap}, points


def observe_model(rows):
    err, vals = snap_model(rows)
    return {"err": err_key_model(err), **canon(vals)}


def model_eval(tag: str, items: list[tuple[C.Hierarchy, list[tuple[list, list[int]]]]], nfiles=4,
        check=False):
    """items: per hierarchy, a list of (program, schedule).  Returns, per
    hierarchy, the list of raw dumps (with the checker row when check=True)."""
    mk = case_block_check if check else case_block
    blocks = [mk(f"H{k}", h, progs) for k, (h, progs) in enumerate(items)]
    outs = C.coq_eval_blocks(tag, HDR, blocks, nfiles=nfiles)
    return [o[0] for o in outs]


# --------------------------------------------------------------- generators

def chain_of(h: C.Hierarchy, o: int) -> list[int]:
    r = [o]
    while o in h.parents:
        o = h.parents[o]
        r.append(o)
    return r


def gen_engine_hier(rng: random.Random) -> C.Hierarchy:
    """Hierarchies with at least one unary and one binary compound operator."""
    nbase = rng.randint(3, 7)
    parents = {}
    depth = {}
    for i in range(5, 5 + nbase):
        cands = [j for j in range(5, i) if depth[j] < 3]
        if cands and rng.random() < 0.75:
            p = rng.choice(cands)
            parents[i] = p
            depth[i] = depth[p] + 1
        else:
            depth[i] = 0
    k = 5 + nbase
    variances = {k: [True], k + 1: [rng.random() < 0.7, True]}
    if rng.random() < 0.4:
        variances[k + 2] = [False]
    return C.Hierarchy(parents, variances, nbase)


def gen_sty(rng, h, nvars, depth, p_var=0.45, p_wild=0.08):
    r = rng.random()
    if nvars and r < p_var:
        return ("v", rng.randrange(nvars))
    if r < p_var + p_wild:
        return ("w",)
    comp = [o for o in h.all_ops() if h.arity(o) > 0]
    if depth > 0 and rng.random() < 0.5:
        o = rng.choice(comp)
        return ("o", o, [gen_sty(rng, h, nvars, depth - 1, p_var, p_wild) for _ in range(h.arity(o))])
    base = list(range(5, 5 + h.nbase))
    if rng.random() < 0.08:
        return ("o", rng.choice([0, 1]), [])
    return ("o", rng.choice(base), [])


def sty_vars(t, acc=None):
    acc = set() if acc is None else acc
    if t[0] == "v":
        acc.add(t[1])
    elif t[0] == "o":
        for a in t[2]:
            sty_vars(a, acc)
    return acc


def gen_constraint(rng, h, nvars):
    base = list(range(5, 5 + h.nbase))
    x = ("v", rng.randrange(nvars))
    r = rng.random()
    if r < 0.35:
        tgt = ("o", rng.choice(base), [])
        if rng.random() < 0.25:
            comp1 = [o for o in h.ids if h.arity(o) == 1]
            if comp1:
                o = rng.choice(comp1)
                return ("sub", ("o", o, [x]), ("o", o, [tgt]), rng.random() < 0.3)
        return ("sub", x, tgt, rng.random() < 0.3)
    if r < 0.45 and nvars > 1:
        return ("sub", x, ("v", rng.randrange(nvars)), rng.random() < 0.3)
    if r < 0.52:
        # a variable against a compound target: unify(skip_basic) binds x to a
        # skeleton of fresh variables
        comp = [o for o in h.ids if h.arity(o) >= 1]
        o = rng.choice(comp)
        # (a parameter may be a variable of the signature, x itself included: x <= F(x) has no
        # finite solution and must be refused as a recursive type)
        tgt = ("o", o, [rng.choice([("o", rng.choice(base), []), ("w",), ("v", rng.randrange(nvars))])
                        for _ in range(h.arity(o))])
        return ("sub", x, tgt, False) if rng.random() < 0.6 else ("sub", tgt, x, False)
    nalt = rng.randint(1, 4)
    alts = []
    for _ in range(nalt):
        q = rng.random()
        if q < 0.45:
            alts.append(("o", rng.choice(base), []))
        else:
            alts.append(gen_sty(rng, h, nvars, 2 if rng.random() < 0.25 else 1, p_var=0.4, p_wild=0.2))
            if alts[-1][0] in ("v", "w") and rng.random() < 0.7:
                alts[-1] = ("o", rng.choice(base), [])
    ref = x
    if rng.random() < 0.15:
        ref = gen_sty(rng, h, nvars, 1, p_var=0.7, p_wild=0.0)
    return ("elim", ref, alts)


def gen_signature(rng, h, max_vars=3, max_params=3, max_constraints=3):
    nvars = rng.randint(1, max_vars)
    nparams = rng.randint(1, max_params)
    params = [gen_sty(rng, h, nvars, 2) for _ in range(nparams)]
    result = gen_sty(rng, h, nvars, 2, p_var=0.6)
    body = result
    for p in reversed(params):
        body = ("o", 3, [p, body])
    ncons = rng.choice([0, 0, 1, 1, 2, 3][:max_constraints + 3]) if max_constraints else 0
    cs = [gen_constraint(rng, h, nvars) for _ in range(ncons)]
    return (nvars, body, cs), params


def instantiate(rng, h, t, assign):
    """A concrete(ish) argument fitting parameter t under a random assignment."""
    base = list(range(5, 5 + h.nbase))
    if t[0] == "v":
        if t[1] not in assign:
            assign[t[1]] = rng.choice(base)
        o = assign[t[1]]
        # move along the chain: mostly subtypes (children) or the same
        r = rng.random()
        if r < 0.08:
            # a compound argument for a variable that earlier arguments may
            # already have bounded (from below or, contravariantly, from above)
            un = [q for q in h.ids if h.arity(q) == 1]
            if un:
                return ("o", rng.choice(un), [("o", o, [])])
        if r < 0.5:
            return ("o", o, [])
        kids = [c for c, p in h.parents.items() if p == o]
        if r < 0.8 and kids:
            return ("o", rng.choice(kids), [])
        ch = chain_of(h, o)
        return ("o", rng.choice(ch), [])
    if t[0] == "w":
        return gen_sty(rng, h, 0, 1, p_var=0, p_wild=0.1)
    o, args = t[1], t[2]
    if not args:
        r = rng.random()
        if r < 0.6:
            return t
        kids = [c for c, p in h.parents.items() if p == o]
        if kids and r < 0.9:
            return ("o", rng.choice(kids), [])
        return ("o", rng.choice(base + [0, 1]), [])
    if rng.random() < 0.07:
        return gen_sty(rng, h, 0, 1, p_var=0, p_wild=0.1)
    return ("o", o, [instantiate(rng, h, a, assign) for a in args])


def gen_program(rng, h, constrained=True):
    sig, params = gen_signature(rng, h, max_constraints=3 if constrained else 0)
    prog = [("inst", sig)]
    nvals = 1
    cur = 0
    assign = {}
    nargs = rng.randint(1, len(params))
    for k in range(nargs):
        if rng.random() < 0.12:
            arg = gen_sty(rng, h, 0, 2, p_var=0, p_wild=0.15)
        else:
            arg = instantiate(rng, h, params[k], assign)
        prog.append(("inst", (0, arg, [])))
        argi = nvals
        nvals += 1
        prog.append(("apply", cur, argi, True))
        cur = nvals
        nvals += 1
    return prog


def gen_misc_program(rng, h):
    """Programs that reach the less travelled branches of Type.apply and of
    above/below: applying a variable, Top or a non-function, Top/Bottom as
    arguments at contravariant positions, unify/fix on arbitrary values."""
    base = list(range(5, 5 + h.nbase))
    prog = []
    r = rng.random()
    if r < 0.3:
        # apply a wildcard (a variable) to something, then use the result
        prog = [("inst", (0, ("w",), [])), ("inst", (0, ("o", rng.choice(base + [0, 1]), []), [])),
                ("apply", 0, 1, rng.random() < 0.7)]
        if rng.random() < 0.5:
            prog += [("inst", (0, ("o", rng.choice(base), []), [])), ("apply", 2, 3, True)]
    elif r < 0.45:
        f = rng.choice([("o", 0, []), ("o", rng.choice(base), []), ("o", 2, [])])
        prog = [("inst", (0, f, [])), ("inst", (0, ("o", rng.choice(base), []), [])), ("apply", 0, 1, True)]
    else:
        x = ("v", 0)
        ctxs = [lambda t: t, lambda t: ("o", 3, [t, ("o", base[0], [])]), lambda t: ("o", 3, [("o", base[0], []), t])]
        ks = [rng.choice(ctxs) for _ in range(rng.randint(2, 3))]
        body = x
        for k in reversed(ks):
            body = ("o", 3, [k(x), body])
        prog = [("inst", (1, body, []))]
        cur, n = 0, 1
        for k in ks:
            a = ("o", rng.choice(base + [0, 0, 1, 1]), [])
            prog += [("inst", (0, k(a), [])), ("apply", cur, n, True)]
            cur, n = n + 1, n + 2
    nvals = sum(1 for c in prog if c[0] in ("inst", "apply", "fix"))
    for _ in range(rng.choice([0, 1, 2])):
        q = rng.random()
        if q < 0.5:
            prog.append(("unify", rng.randrange(nvals), rng.randrange(nvals), rng.random() < 0.7))
        else:
            prog.append(("fix", rng.randrange(nvals), rng.random() < 0.5))
            nvals += 1
    return prog


def gen_bound_then_other(rng, h):
    """Targeted family: one variable met first through a bound-inducing context
    (covariant: lower bound, contravariant: upper bound) and then by an
    argument of another shape (compound, unrelated base, Top/Bottom)."""
    base = list(range(5, 5 + h.nbase))
    un = [q for q in h.ids if h.arity(q) == 1]
    x = ("v", 0)

    def ctx(kind, t):
        b0 = ("o", rng.choice(base), [])
        if kind == "id":
            return t
        if kind == "F":
            return ("o", rng.choice(un), [t])
        if kind == "arg":
            return ("o", 3, [t, b0])
        if kind == "res":
            return ("o", 3, [b0, t])
        return ("o", 4, [t, b0])
    kinds = ["id", "F", "arg", "res", "prod"]
    n = rng.randint(2, 4)
    ks = [rng.choice(kinds) for _ in range(n)]
    if n >= 3 and rng.random() < 0.5:
        # both a lower and an upper bound first (covariant then contravariant use)
        ks[0], ks[1] = rng.choice(["id", "res"]), "arg"
    res = rng.choice([x, ("o", rng.choice(un), [x])])
    body = res
    for k in reversed(ks):
        body = ("o", 3, [ctx(k, x), body])
    cs = [gen_constraint(rng, h, 1)] if rng.random() < 0.3 else []
    b1 = rng.choice(base)
    if rng.random() < 0.3:
        # lower bound, upper bound, then a fresh variable in contravariant
        # position (the bounded variable is bound TO it and must hand both bounds
        # on), then a probe that respects or exceeds a bound
        ks = [rng.choice(["id", "res"]), "arg", "arg", rng.choice(["id", "id", "arg", "res"])]
        res = x
        body = res
        for k in reversed(ks):
            body = ("o", 3, [ctx(k, x), body])
        deep = [o for o in range(5, 5 + h.nbase) if o in h.parents]
        if deep and rng.random() < 0.8:
            b1 = rng.choice(deep)
        ch = chain_of(h, b1)
        lo = ("o", b1, [])
        up = ("o", ch[1] if len(ch) > 1 and rng.random() < 0.7 else rng.choice(ch), [])
        above_up = chain_of(h, up[1])[1:]
        if rng.random() < 0.6:
            anyb = ("o", rng.choice(above_up + [0]), [])       # strictly above the upper bound: must be rejected
        else:
            anyb = ("o", rng.choice(ch + [c for c, p in h.parents.items() if p in ch] + base), [])
        fills = [lo, up, ("w",), anyb]
        if rng.random() < 0.3:
            fills[0], fills[1] = fills[1], fills[0]
            ks[0], ks[1] = ks[1], ks[0]
        prog = [("inst", (1, body, []))]
        cur, nvals = 0, 1
        for k, fill in zip(ks, fills):
            prog.append(("inst", (0, ctx(k, fill) if k != "id" else fill, [])))
            prog.append(("apply", cur, nvals, True))
            cur = nvals + 1
            nvals += 2
        return prog
    prog = [("inst", (1, body, cs))]
    cur, nvals = 0, 1
    for i, k in enumerate(ks):
        r = rng.random()
        if i >= 1 and rng.random() < 0.15:
            fill = ("w",)       # a fresh variable meets the (possibly bounded) variable: bind(var, var) hands the bounds on
        elif i == 0 or r < 0.4:
            fill = ("o", rng.choice(chain_of(h, b1) + [c for c, p in h.parents.items() if p == b1] + [b1]), [])
        elif r < 0.75:
            fill = ("o", rng.choice(un), [("o", b1, [])])
        elif r < 0.85:
            fill = ("o", 3, [("o", b1, []), ("o", b1, [])])
        else:
            fill = ("o", rng.choice(base + [0, 1]), [])
        prog.append(("inst", (0, ctx(k, fill) if k != "id" else fill, [])))
        prog.append(("apply", cur, nvals, True))
        cur = nvals + 1
        nvals += 2
    return prog


def gen_nested_elim(rng, h):
    """Targeted family for the re-check order: several elimination constraints
    on one variable whose alternatives are nested patterns sharing a second
    variable, applied to a nested argument that contains fresh (wildcard)
    variables - resolving one constraint narrows variables the other needs."""
    base = [("o", o, []) for o in range(5, 5 + h.nbase)]
    un = [q for q in h.ids if h.arity(q) == 1]
    bi = [q for q in h.ids if h.arity(q) == 2] or [4]
    x, y, w = ("v", 0), ("v", 1), ("w",)

    def leaf(p_y=0.35, p_w=0.25):
        r = rng.random()
        if r < p_y:
            return y
        if r < p_y + p_w:
            return w
        return rng.choice(base)

    def nest(d):
        if d == 0 or rng.random() < 0.25:
            return leaf()
        if rng.random() < 0.5:
            return ("o", rng.choice(un), [nest(d - 1)])
        return ("o", rng.choice(bi), [nest(d - 1), nest(d - 1)])

    def alt():
        a = nest(2)
        return a if a[0] == "o" else ("o", rng.choice(un), [a])
    ncons = rng.randint(2, 3)
    cs = [("elim", x, [alt() for _ in range(rng.randint(2, 3))]) for _ in range(ncons)]
    if rng.random() < 0.3:
        cs.append(("sub", y, rng.choice(base), False))
    res = rng.choice([y, x, ("o", rng.choice(un), [y])])
    sig = (2, ("o", 3, [x, res]), cs)

    def inst(t, d=0):
        if t[0] == "v":
            r = rng.random()
            return w if r < 0.3 else (rng.choice(base) if r < 0.7 else ("o", rng.choice(un), [rng.choice(base)]))
        if t[0] == "w":
            return w if rng.random() < 0.5 else rng.choice(base)
        if not t[2]:
            return t if rng.random() < 0.8 else w
        return ("o", t[1], [inst(a, d + 1) for a in t[2]])
    a0 = rng.choice(rng.choice(cs[:ncons])[2])
    arg = inst(a0)
    if arg[0] != "o":
        arg = rng.choice(base)
    return [("inst", sig), ("inst", (0, arg, [])), ("apply", 0, 1, True)]


def gen_merge_program(rng, h):
    """Targeted family: two variables of one signature collect bounds from arguments of
    one chain and carry constraints; a second operator then identifies them
    (`K(u, u) ** u` applied to the still open `K(x, y)`): bind(variable, variable) has to
    hand bounds and pending constraints on and re-check them, also when the target's
    bound is already the tighter one.  A probe argument may follow."""
    base = list(range(5, 5 + h.nbase))
    un = [q for q in h.ids if h.arity(q) == 1]
    bi = [q for q in h.ids if h.arity(q) == 2] or [4]
    K = rng.choice(bi)
    deep = max(base, key=lambda o: (len(chain_of(h, o)), rng.random()))
    ch = chain_of(h, deep) if rng.random() < 0.85 else chain_of(h, rng.choice(base))
    near = ch + [c for c, p_ in h.parents.items() if p_ in ch]
    x, y = ("v", 0), ("v", 1)

    def bt(pool):
        return ("o", rng.choice(pool), [])
    kinds = [rng.choice(["id", "id", "arg"]) for _ in range(2)]      # arg: the variable occurs contravariantly
    args = [rng.choice(ch) if rng.random() < 0.9 else rng.choice(near) for _ in range(2)]
    if len(ch) >= 2 and rng.random() < 0.6:
        # the first variable gets the strictly tighter bound (higher lower bound / lower upper
        # bound), so that handing the second one's bound on changes nothing by itself
        i, j = sorted(rng.sample(range(len(ch)), 2))            # ch[i] is below ch[j]
        kinds[1] = kinds[0]
        args = [ch[j], ch[i]] if kinds[0] == "id" else [ch[i], ch[j]]
    cs = []
    for v, k, a in zip((x, y), kinds, args):
        r = rng.random()
        # types the variable can still take given its argument: above it (covariant use) or below it
        ok = [c for c in near if (c in chain_of(h, a)) == (k == "id") or c == a] or [a]
        if r < 0.6:
            alts = [bt(ok)] + [bt(near) for _ in range(rng.randint(1, 2))]
            if rng.random() < 0.3:
                alts.append(bt(base))
            if rng.random() < 0.2:
                alts.append(("o", rng.choice(un), [rng.choice([bt(near), ("w",), x, y])]))
            rng.shuffle(alts)
            cs.append(("elim", v, alts))
        elif r < 0.75:
            cs.append(("sub", v, bt(ok if rng.random() < 0.8 else near), rng.random() < 0.2))
    if rng.random() < 0.15:
        cs.append(("elim", ("o", K, [x, y]), [("o", K, [bt(near), rng.choice([bt(near), ("w",)])])
                                              for _ in range(rng.randint(1, 3))]))

    def ctx(kind, t):
        return t if kind == "id" else ("o", 3, [t, ("o", rng.choice(base), [])])
    body = ("o", K, [x, y])
    for k, v in reversed(list(zip(kinds, (x, y)))):
        body = ("o", 3, [ctx(k, v), body])
    prog = [("inst", (2, body, cs))]
    cur, nvals = 0, 1
    for k, a in zip(kinds, args):
        t = ("w",) if rng.random() < 0.08 else ("o", a, [])
        prog.append(("inst", (0, ctx(k, t), [])))
        prog.append(("apply", cur, nvals, False))        # not fixed: K(x, y) stays open
        cur = nvals + 1
        nvals += 2
    u = ("v", 0)
    res = rng.choice([u, ("o", rng.choice(un), [u]), bt(base)])
    first, second = rng.choice([(u, u), (u, u), (u, u), (u, bt(near)), (("o", rng.choice(un), [u]), u)])
    tcs = [("elim", u, [bt(near) for _ in range(rng.randint(1, 3))])] if rng.random() < 0.2 else []
    prog.append(("inst", (1, ("o", 3, [("o", K, [first, second]), res]), tcs)))
    prog.append(("apply", nvals, cur, rng.random() < 0.5))
    nvals += 2
    if rng.random() < 0.4:
        # a probe: the merged variable meets one more argument
        prog.append(("inst", (1, ("o", 3, [("v", 0), ("o", 3, [("v", 0), ("v", 0)])]), [])))
        prog.append(("apply", nvals, nvals - 1, False))
        prog.append(("inst", (0, bt(near), [])))
        prog.append(("apply", nvals + 1, nvals + 2, True))
    return prog


def gen_reentrant_elim(rng, h):
    """Targeted family: two or three elimination constraints over three variables whose
    alternatives include bare variables and patterns mentioning the other variables, with
    compound references (K(v, v'), v ** v'), so that minimising or fulfilling one
    constraint (fixing an alternative binds a variable) decides another one re-entrantly."""
    base = list(range(5, 5 + h.nbase))
    un = [q for q in h.ids if h.arity(q) == 1]
    bi = [q for q in h.ids if h.arity(q) == 2] or [4]
    deep = max(base, key=lambda o: (len(chain_of(h, o)), rng.random()))
    ch = chain_of(h, deep)
    near = ch + [c for c, p_ in h.parents.items() if p_ in ch]
    vs = [("v", i) for i in range(3)]

    def bt():
        return ("o", rng.choice(near if rng.random() < 0.8 else base), [])

    def leaf():
        r = rng.random()
        return rng.choice(vs) if r < 0.45 else ("w",) if r < 0.55 else bt()

    def pat(fun_ok):
        r = rng.random()
        if fun_ok and r < 0.5:
            return ("o", 3, [rng.choice([bt(), leaf()]), rng.choice([("o", rng.choice(un), [bt()]), leaf()])])
        if r < 0.75:
            return ("o", rng.choice(un), [leaf()])
        return ("o", rng.choice(bi), [leaf(), leaf()])
    cs = []
    for _ in range(rng.randint(2, 3)):
        r = rng.random()
        if r < 0.5:
            ref, fun = rng.choice(vs), False
        elif r < 0.8:
            a, b_ = rng.sample(vs, 2)
            ref, fun = ("o", 3, [a, b_]), True
        else:
            ref, fun = ("o", rng.choice(bi), [rng.choice(vs), rng.choice(vs)]), False
        alts = []
        for _ in range(rng.randint(2, 3)):
            q = rng.random()
            if not fun and q < 0.3 and ref[0] == "v":
                alts.append(rng.choice([v for v in vs if v != ref]))       # a bare variable as an alternative
            elif not fun and q < 0.45:
                alts.append(bt())
            elif fun:
                alts.append(("o", 3, [rng.choice([bt(), bt(), leaf()]),
                                      rng.choice([("o", rng.choice(un), [bt()]), bt(), leaf()])]))
            elif ref[0] == "o":
                alts.append(("o", ref[1], [leaf(), leaf()]))
            else:
                alts.append(pat(False))
        cs.append(("elim", ref, alts))
    order = vs[:]
    rng.shuffle(order)
    nparams = rng.randint(1, 2)
    body = order[2] if rng.random() < 0.7 else ("o", rng.choice(un), [order[2]])
    for v in reversed(order[:nparams]):
        body = ("o", 3, [v, body])
    prog = [("inst", (3, body, cs))]
    cur, nvals = 0, 1
    for i in range(nparams):
        r = rng.random()
        a = bt() if r < 0.7 else ("o", rng.choice(un), [bt()]) if r < 0.9 else ("w",)
        prog.append(("inst", (0, a, [])))
        prog.append(("apply", cur, nvals, i == nparams - 1 and rng.random() < 0.7))
        cur = nvals + 1
        nvals += 2
    return prog


def gen_rise_program(rng, h):
    """Targeted family: `x ** ... ** x ** r(x) [x <= T]` (or `x << [T, U]`) with T inside a chain;
    the arguments climb the chain, the first ones stay below T, a later one may exceed it:
    a constraint must not count as settled by the bounds the earlier arguments left."""
    base = list(range(5, 5 + h.nbase))
    un = [q for q in h.ids if h.arity(q) == 1]
    deep = max(base, key=lambda o: (len(chain_of(h, o)), rng.random()))
    ch = chain_of(h, deep)                      # deep first, root last
    x = ("v", 0)
    n = rng.randint(2, 3)
    ti = rng.randrange(len(ch))
    T = ("o", ch[ti], [])
    if rng.random() < 0.7:
        cs = [("sub", x, T, rng.random() < 0.2)]
    else:
        cs = [("elim", x, [T] + ([("o", rng.choice(base), [])] if rng.random() < 0.5 else []))]
    wrap = rng.choice(un) if un and rng.random() < 0.3 else None
    par = ("o", wrap, [x]) if wrap else x
    res = rng.choice([x, ("o", rng.choice(un), [x])]) if un else x
    body = res
    for _ in range(n):
        body = ("o", 3, [par, body])
    idx = sorted(rng.randrange(len(ch)) for _ in range(n))
    idx.reverse()                               # ascending in the order: larger index = higher type, so reverse sorts ascending types last
    idx = sorted(idx, reverse=True) if rng.random() < 0.15 else sorted(idx, reverse=False)[::-1][::-1]
    args = [ch[i] for i in sorted(idx)]         # from the most specific to the most general
    if rng.random() < 0.2:
        rng.shuffle(args)
    prog = [("inst", (1, body, cs))]
    cur, nvals = 0, 1
    for a in args:
        t = ("o", a, [])
        prog.append(("inst", (0, ("o", wrap, [t]) if wrap else t, [])))
        prog.append(("apply", cur, nvals, True))
        cur = nvals + 1
        nvals += 2
    return prog


def gen_elim_two_step(rng, h):
    """Targeted family: x ** x ** r [x << nested alternatives (some via
    with_parameters)], first applied to an argument with a fresh variable deep
    inside, then to a concrete refinement of it - the second argument decides
    the inner variable, which must re-examine the constraint."""
    base = [("o", o, []) for o in range(5, 5 + h.nbase)]
    un = [q for q in h.ids if h.arity(q) == 1]
    bi = [q for q in h.ids if h.arity(q) == 2] or [4]
    x, w = ("v", 0), ("w",)

    def conc(d):
        if d == 0 or rng.random() < 0.2:
            return rng.choice(base)
        if rng.random() < 0.6:
            return ("o", rng.choice(un), [conc(d - 1)])
        return ("o", rng.choice(bi), [conc(d - 1), conc(d - 1)])

    def hole(t):
        """replace one leaf (as deep as possible) by a wildcard"""
        if not t[2]:
            return w
        i = rng.randrange(len(t[2]))
        return ("o", t[1], t[2][:i] + [hole(t[2][i])] + t[2][i + 1:])

    def vary(t):
        """same shape, leaves re-drawn"""
        if t[0] == "w":
            return t
        if not t[2]:
            return rng.choice(base)
        return ("o", t[1], [vary(a) for a in t[2]])
    a0 = conc(2)
    if not a0[2]:
        a0 = ("o", rng.choice(un), [("o", rng.choice(un), [a0])])
    alts = [a0] + [vary(a0) for _ in range(rng.randint(1, 2))]
    cs = [("elim", x, alts)]
    if rng.random() < 0.4:
        ops = rng.sample(un + [q for q in h.ids if h.arity(q) == 2], k=min(2, len(un)))
        cs.append(("elimwp", x, ops, None, None))
    sig = (1, ("o", 3, [x, ("o", 3, [x, x])]), cs)
    first = hole(rng.choice(alts))
    second = vary(first) if rng.random() < 0.5 else rng.choice(alts)
    second = fill(rng, second, base)
    return [("inst", sig), ("inst", (0, first, [])), ("apply", 0, 1, True),
            ("inst", (0, second, [])), ("apply", 2, 3, True)]


def fill(rng, t, base):
    if t[0] == "w":
        return rng.choice(base)
    if t[0] == "v":
        return t
    return ("o", t[1], [fill(rng, a, base) for a in t[2]])


def gen_wp_program(rng, h):
    """a ** r(b) [a << with_parameters(...)] applied to a concrete argument."""
    base = [("o", o, []) for o in range(5, 5 + h.nbase)]
    comp = [q for q in h.ids if h.arity(q) >= 1]
    ops = rng.sample(comp, k=rng.randint(1, min(3, len(comp))))
    b_ = ("v", 1)
    mode = rng.random()
    if mode < 0.4:
        c = ("elimwp", ("v", 0), ops, b_, None)
    elif mode < 0.75:
        c = ("elimwp", ("v", 0), ops, b_, rng.randint(1, 2))
    else:
        c = ("elimwp", ("v", 0), ops, None, None)
    un = [q for q in h.ids if h.arity(q) == 1]
    r = rng.choice([b_, ("o", rng.choice(un), [b_])]) if un else b_
    sig = (2, ("o", 3, [("v", 0), r]), [c])
    o = rng.choice(ops) if rng.random() < 0.85 else rng.choice(comp)
    arg = ("o", o, [rng.choice(base) for _ in range(h.arity(o))])
    return [("inst", sig), ("inst", (0, arg, [])), ("apply", 0, 1, True)]


def all_schedules(points: list[int], limit: int) -> list[list[int]]:
    """All choice vectors for the observed choice points (n! options each),
    truncated to `limit` vectors."""
    spaces = [range(math.factorial(min(n, 4))) for n in points]
    out = []
    for vec in itertools.product(*spaces):
        out.append(list(vec))
        if len(out) >= limit:
            break
    return out


# ----------------------------------------------- independent Python oracle

def py_sub(h: C.Hierarchy, a, b) -> bool:
    """Declarative subtype order on concrete (op, args) types, written from
    the property text (not from the code)."""
    if a[0] == 1 or b[0] == 0:
        return True
    if not a[1] and not b[1] and h.arity(a[0]) == 0 and h.arity(b[0]) == 0:
        return b[0] in chain_of(h, a[0])
    if a[0] != b[0] or len(a[1]) != len(b[1]):
        return False
    return all(py_sub(h, x, y) if v else py_sub(h, y, x)
        for v, x, y in zip(h.variance(a[0]), a[1], b[1]))


def m_ground(t, th):
    t = follow(t)
    if isinstance(t, MVar):
        return th[id(t)]
    return (t.op, [m_ground(p, th) for p in t.params])


def m_vars(t, acc):
    t = follow(t)
    if isinstance(t, MVar):
        if all(t is not u for u in acc):
            acc.append(t)
    else:
        for p in t.params:
            m_vars(p, acc)
    return acc


def m_resolved(t) -> bool:
    t = follow(t)
    if isinstance(t, MVar):
        return False
    return all(m_resolved(p) for p in t.params)


def steps_of(prog):
    n = 0
    out = []
    for c in prog:
        if c[0] == "apply":
            out.append((c[1], c[2], n))
            n += 1
        elif c[0] in ("inst", "fix"):
            n += 1
    return out


def py_witness(h: C.Hierarchy, prog, mvals, cap=60):
    """The C03 conditions evaluated directly on a snapshot (mirror graph) of
    the implementation's final state.  Returns a list of problems."""
    problems = []
    vs = []
    for v in mvals:
        m_vars(v, vs)
    pool = pool_of(h)

    def cands(v):
        out = []
        for t in pool:
            if not t[1] and h.arity(t[0]) == 0:
                if v.lower is not None and not (v.lower == 1 or t[0] == 0 or t[0] in chain_of(h, v.lower)):
                    continue
                if v.upper is not None and not (t[0] == 1 or v.upper == 0 or v.upper in chain_of(h, t[0])):
                    continue
                out.append(t)
            elif v.lower is None and v.upper is None:
                out.append(t)
        return out
    spaces = [cands(v) for v in vs]
    for v, sp in zip(vs, spaces):
        if not sp:
            # (i) some instantiation within the reported bounds must exist
            problems.append(("no-instantiation-within-bounds", v.lower, v.upper))
    n = 0
    steps = [(mvals[f], mvals[x], mvals[r]) for f, x, r in steps_of(prog) if r < len(mvals)]
    for combo in itertools.product(*spaces):
        n += 1
        if n > cap:
            break
        th = {id(v): t for v, t in zip(vs, combo)}
        for fv, xv, rv in steps:
            F, X, R = m_ground(fv, th), m_ground(xv, th), m_ground(rv, th)
            if F[0] == 0 and not F[1]:
                if R != (0, []):
                    problems.append(("top", F, X, R))
                continue
            if F[0] != 3:
                problems.append(("not-a-function", F, X, R))
            elif not py_sub(h, X, F[1][0]):
                problems.append(("argument-not-subtype", F, X, R))
            elif R != F[1][1]:
                problems.append(("result-not-instantiated-output", F, X, R))
    # constraints whose variables are all resolved
    seen = []
    def all_cons():
        todo = list(vs)
        allv = []
        for v in mvals:
            collect_all_vars(v, allv)
        for v in allv:
            for c in v.cons:
                if all(c is not d for d in seen):
                    seen.append(c)
    all_cons()
    for c in seen:
        if m_resolved(c.ref) and all(m_resolved(a) for a in c.alts):
            r = m_ground(c.ref, {})
            alts = [m_ground(a, {}) for a in c.alts]
            if c.elim:
                if not any(py_sub(h, r, a) for a in alts):
                    problems.append(("elimination-constraint-violated", r, alts))
            else:
                if not py_sub(h, r, alts[0]) or (c.strict and r == alts[0]):
                    problems.append(("subtype-constraint-violated", r, alts))
    # ... and the DECLARED constraints of every instantiated signature, read off the program (a
    # constraint the engine has discharged is no longer attached to any variable)
    def bind_schema(body, mt, env):
        if body[0] == "w":
            return True
        if body[0] == "v":
            env.setdefault(body[1], mt)
            return True
        mt = follow(mt)
        if isinstance(mt, MVar) or mt.op != body[1] or len(mt.params) != len(body[2]):
            return False
        return all(bind_schema(b_, p_, env) for b_, p_ in zip(body[2], mt.params))

    def inst_sty(t, env):
        """schematic type -> ground (op, args) under env, or None (a wildcard, an unbound or
        unresolved variable)"""
        if t[0] == "w":
            return None
        if t[0] == "v":
            m = env.get(t[1])
            return m_ground(m, {}) if m is not None and m_resolved(m) else None
        args = [inst_sty(a, env) for a in t[2]]
        return None if any(a is None for a in args) else (t[1], args)
    k = 0
    for c in prog:
        if c[0] == "inst":
            n_, body, cs = c[1]
            env = {}
            if cs and k < len(mvals) and bind_schema(body, mvals[k], env):
                for con in cs:
                    if con[0] == "elimwp":
                        con = ("elim", con[1], expand_wp(h.arity, con[2], con[3], con[4]))
                    r = inst_sty(con[1], env)
                    if r is None:
                        continue
                    if con[0] == "sub":
                        t = inst_sty(con[2], env)
                        if t is not None and (not py_sub(h, r, t) or (con[3] and r == t)):
                            problems.append(("declared-subtype-constraint-violated", r, t))
                    else:
                        alts = [inst_sty(a, env) for a in con[2]]
                        if all(a is not None for a in alts) and not any(py_sub(h, r, a) for a in alts):
                            problems.append(("declared-elimination-constraint-violated", r, alts))
        if c[0] in ("inst", "apply", "fix"):
            k += 1
    # (iv)
    allv = []
    for v in mvals:
        collect_all_vars(v, allv)
    for v in allv:
        if (v.lower is not None or v.upper is not None) and v.bound is not None:
            t = follow(v)
            if isinstance(t, MOp) and t.params:
                problems.append(("bounded-variable-resolved-to-compound", v.lower, v.upper, t.op))
    return problems


def collect_all_vars(t, acc):
    """every variable object reachable (bound ones too)"""
    if isinstance(t, MVar):
        if any(t is u for u in acc):
            return acc
        acc.append(t)
        if t.bound is not None:
            collect_all_vars(t.bound, acc)
        for c in t.cons:
            collect_all_vars(c.ref, acc)
            for a in c.alts:
                collect_all_vars(a, acc)
    else:
        for p in t.params:
            collect_all_vars(p, acc)
    return acc
