"""C18  Inference is independent of the order pending constraints are re-examined.

proof stage     coq/props/C18.v (schedules only permute; refutation witness for the error kind)
correspondence  model and implementation agree *per schedule* (the hook imposes
                the same choice at every re-check point with >= 2 pending constraints)
oracle          outcomes of the implementation compared across all explored schedules
search          all permutations at every re-check point (depth-first over choice vectors), capped
"""
from __future__ import annotations

import math
import random

from . import common as C
from . import engine as E
from .c03 import run_engine_cases

KNOWN_SIG = "C18:error-kind-divergence-all-schedules-fail"
KNOWN_SIG2 = "C18:outcome-depends-on-order-of-interacting-elimination-constraints"

WITNESS2_H = C.Hierarchy({6: 5}, {7: [True], 8: [False, True], 9: [False]}, 2)
WITNESS2_PROG = [
    ("inst", (2, ("o", 3, [("v", 0), ("o", 9, [("v", 1)])]),
        [("elim", ("v", 0), [("o", 7, [("v", 1)]), ("o", 5, [])]),
         ("elim", ("v", 0), [("o", 8, [("o", 5, []), ("v", 1)]), ("o", 7, [("o", 5, [])])])])),
    ("inst", (0, ("o", 7, [("o", 5, [])]), [])),
    ("apply", 0, 1, True)]


def interacting_elims(prog) -> bool:
    """>= 2 constraints in one schema, at least one of them an elimination
    constraint with >= 2 alternatives (EliminationConstraint.fulfill unifies as
    soon as one alternative is left and minimize() fixes alternatives - the
    call sites whose effect depends on what the other constraints did first)."""
    for c in prog:
        if c[0] == "inst":
            cs = c[1][2]
            if len(cs) >= 2 and any(k[0] == "elim" and len(k[2]) >= 2 for k in cs):
                return True
    return False

WITNESS_H = C.Hierarchy({6: 5}, {7: [True, True]}, 2)
WITNESS_PROG = [
    ("inst", (1, ("o", 3, [("v", 0), ("v", 0)]),
        [("sub", ("v", 0), ("o", 5, []), False),
         ("elim", ("v", 0), [("o", 5, []), ("o", 7, [("o", 6, []), ("v", 0)])])])),
    ("inst", (0, ("o", 4, [("o", 6, []), ("o", 6, [])]), [])),
    ("apply", 0, 1, True)]


def explore(h, prog, cap):
    """Depth-first enumeration of choice vectors on the implementation."""
    res = []
    stack = [[]]
    while stack and len(res) < cap:
        e = stack.pop()
        err, vals, io, pts = E.observe_impl(h, prog, e)
        # the property speaks of the resulting type, ITS residual bounds and ITS
        # residual constraints: canonicalise from the result value alone
        io = dict(io, result=E.canon(E.snap_impl(h, vals[-1:])) if err is None and vals else None)
        res.append((e, err, io, pts))
        for k in range(len(e), len(pts)):
            for c in range(1, math.factorial(min(pts[k], 4))):
                stack.append(e + [0] * (k - len(e)) + [c])
    return res, not stack


def outcome_key(io):
    if io["err"] is not None:
        return ("err", E.ERRNAME.get(io["err"][0], str(io["err"][0])))
    r = io["result"]
    # "residual constraints as a set": alternatives of a constraint are a set too
    cons = sorted(repr((k, st, dn, ref, tuple(sorted(set(map(repr, alts))))))
                  for k, st, dn, ref, alts in r["cons"])
    return ("ok", repr(r["vals"]), repr(r["vars"]), repr(cons))


def judge(rep, h, prog, runs, tag):
    names = {i: f"op{i}" for i in h.ops}
    text = [c if c[0] != "inst" else E.schema_py(c[1], names) for c in prog]
    keys = {}
    for e, err, io, pts in runs:
        keys.setdefault(outcome_key(io), e)
    if len(keys) <= 1:
        return False
    payload = {"kind": "oracle", "hierarchy": h.to_json(), "program": prog, "program_text": text,
        "outcomes": [{"schedule": e, "outcome": list(k)} for k, e in keys.items()]}
    declared = {"SubtypeMismatch", "TypeMismatch", "ConstraintViolation", "RecursiveTypeError",
        "FunctionApplicationError"}
    if all(k[0] == "err" and k[1] in declared for k in keys):
        rep.violation(tag, dict(payload, what="every schedule fails, but with different TypingError kinds"),
            has_input=True, signature=KNOWN_SIG)
    else:
        rep.violation(tag, dict(payload,
            what="success/result/bounds/constraints depend on the re-check order"), has_input=True,
            signature=KNOWN_SIG2 if interacting_elims(prog) else None)
    return True


def main(tier: str, seed: int, replay: str | None = None) -> int:
    C.force_repo_on_path()
    rep = C.Report("C18", tier, seed)
    rep.proof_stage()
    rep.proof_stage("C18_pure")     # schedule independence where it holds: read-only subtype constraints
    rep.proof_stage("C18_elim_final_k")  # ... with the followed references of all constraints equal too (eqk)
    rep.proof_stage("C18_elim_final")  # WHOLE PROGRAMS of the base-alternative class: any two schedules give the same failing command, or equal values and eqr-related stores
    rep.proof_stage("C18_elim_whole")  # every reachable store of a progE program satisfies the round invariant; lockstep congruence; whole-program statement conditional on RelCmd
    rep.proof_stage("C18_elim_prog")   # the invariant GI behind RoundPre is preserved by every engine operation except TypeSchema.instance (whole-program lifting partial)
    rep.proof_stage("C18_elim")     # base-alternative class: one whole re-check round (nested rounds included) is order-independent; error kind and raw reference refuted
    rng = random.Random(seed)
    nh, npg, cap = (30, 60, 24) if tier == "quick" else (70, 70, 100)
    # corpus: the refutation witness of props/C18.v, replayed on the implementation
    WITNESS_H.build()
    runs, _ = explore(WITNESS_H, WITNESS_PROG, 10)
    reproduced = judge(rep, WITNESS_H, WITNESS_PROG, runs, "corpus_witness")
    items = [(WITNESS_H, [(WITNESS_PROG, e) for e, _, _, _ in runs])]
    WITNESS2_H.build()
    runs2, _ = explore(WITNESS2_H, WITNESS2_PROG, 10)
    reproduced2 = judge(rep, WITNESS2_H, WITNESS2_PROG, runs2, "corpus_witness2")
    items.append((WITNESS2_H, [(WITNESS2_PROG, e) for e, _, _, _ in runs2]))
    n_prog = multi = n_runs = exhaustive_progs = divergent = 0
    maxpend = 0
    samples = []
    for _ in range(nh):
        h = E.gen_engine_hier(rng)
        h.build()
        progs = []
        for k in range(npg):
            if k % 4 == 3:
                prog = E.gen_nested_elim(rng, h)
            elif k % 4 == 1:
                prog = E.gen_merge_program(rng, h)      # bounded, constrained variables identified afterwards
            else:
                prog = E.gen_program(rng, h)
                if len(prog[0][1][2]) < 2 and rng.random() < 0.8:
                    continue
            n_prog += 1
            runs, complete = explore(h, prog, cap)
            n_runs += len(runs)
            exhaustive_progs += complete
            if len(runs) > 1:
                multi += 1
                maxpend = max(maxpend, max(max(p) if p else 0 for _, _, _, p in runs))
                if judge(rep, h, prog, runs, f"sched_{n_prog}"):
                    divergent += 1
                if len(samples) < 3:
                    names = {i: f"op{i}" for i in h.ops}
                    samples.append({"program_text": [c if c[0] != "inst" else E.schema_py(c[1], names) for c in prog],
                        "schedules_explored": [e for e, _, _, _ in runs][:8],
                        "pending_at_choice_points": runs[0][3]})
            # correspondence for a sample of the explored schedules
            for e, _, _, _ in runs[:6]:
                progs.append((prog, e))
        items.append((h, progs))
    n, dis = run_engine_cases(rep, f"C18_{tier}", items, check=False)
    intensified = 0
    if dis and not any(hi for _, hi in rep.violations):
        # the correspondence broke without a schedule-dependent outcome so far:
        # search harder for a concrete input on which the property fails
        for h, _ in items[2:]:
            for _ in range(400 if tier == "quick" else 3000):
                r = rng.random()
                prog = E.gen_nested_elim(rng, h) if r < 0.5 else E.gen_merge_program(rng, h) if r < 0.8 \
                    else E.gen_program(rng, h)
                runs, _ = explore(h, prog, cap)
                intensified += len(runs)
                if len(runs) > 1 and judge(rep, h, prog, runs, f"search_{intensified}"):
                    break
            if any(hi for _, hi in rep.violations):
                break
    rep.coverage.update({
        "evaluations": n_runs, "distinct_nontrivial": multi, "disagreements": dis,
        "model_vs_impl_runs": n, "intensified_search_runs": intensified,
        "rule": "C03's constrained schemas/arguments (>= 2 constraints preferred), the nested-elimination family and the "
                "merge family (bounded, constrained variables identified by a second operator); for each program all choice vectors "
                f"(all permutations at every re-check point with 2-4 pending constraints, depth-first, at most {cap} runs per "
                "program); non-trivial = program with at least one choice point (>= 2 distinct schedules run)",
        "programs": n_prog, "programs_fully_enumerated": exhaustive_progs,
        "programs_with_divergent_error_kind": divergent,
        "max_pending_constraints_at_a_choice_point": maxpend,
        "refutation_witness_reproduced_on_implementation": reproduced,
        "result_divergence_witness_reproduced_on_implementation": reproduced2,
        "samples": samples, "exhaustive": False})
    rep.assumptions = [
        "schedule independence of success/result/bounds/constraints is searched, not proved (C18_permute is the proved part)",
        "the hook (TRANSFORGE_VERIF=1) is the only source of order in check_constraints during the check",
    ]
    return rep.finish(C.TRUSTED)
