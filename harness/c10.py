"""C10  The canonical taxonomy is exactly the subtype order on canonical types.

proof stage     coq/props/C10.v (canon = closure, contains every allowed subtype of the
                listed types, flags respected; links sound, mirrored, reach = strict
                subtype; taxonomy triples = links, closure = order; vocabulary types;
                the pinned Language.successors refuted by two machine-checked witnesses)
correspondence  Language.canon / subtypes / supertypes (direct and transitive) /
                add_taxonomy triples of the implementation vs the Gallina model
                (expand_canon, lang_succ = Language.successors as repaired by
                proposed_fixes/C10.diff, taxonomy, closure_of)
oracle          the property itself on the implementation's observations:
                canon contains every allowed subtype of each listed type (enumerated
                independently) and respects the Top/Bottom flags and is stable;
                reachability through the direct links = strict subtype (decided by
                Type.is_subtype, tied to the declarative order by C01); links mirror;
                rdfs:subClassOf triples of add_taxonomy() = links, closure = non-strict
                order; vocabulary describes exactly the operators and canonical types
root cause      a failure whose link structure is exactly what the model of the pinned
                algorithm (lang_succ_pinned) computes carries the signature SIG_PINNED;
                anything else has no signature and always fails
"""
from __future__ import annotations

import itertools
import json
import logging
import random

from . import common as C

HDR = """From Coq Require Import List Arith Bool.
Import ListNotations.
From TF Require Import Base.Hier Base.Ty Sub.Match Canon.Worklist Canon.Succ Canon.Canon.
Definition unopt (r : option (list ty)) : list ty := match r with Some c => c | None => [TOp 999999 []] end.
Fixpoint idx (x : ty) (l : list ty) : nat :=
  match l with [] => 0 | y :: r => if ty_eqb x y then 0 else S (idx x r) end.
Definition idxs (c xs : list ty) : list nat := map (fun x => idx x c) xs.
Definition links H (c : list ty) (tr : bool) : list (list nat * list nat) :=
  map (fun t => (idxs c (lang_succ H c DOWN t tr), idxs c (lang_succ H c UP t tr))) c.
Definition plinks H ops top bot (c : list ty) : list (list nat * list nat) :=
  map (fun t => (idxs c (lang_succ_pinned H ops top bot c DOWN t),
                 idxs c (lang_succ_pinned H ops top bot c UP t))) c.
Definition pairs_idx (c : list ty) (ps : list (ty * ty)) : list (nat * nat) :=
  map (fun p => (idx (fst p) c, idx (snd p) c)) ps.
Definition clos_idx (c : list ty) (r : option (list (ty * ty))) : list (nat * nat) :=
  match r with Some ps => pairs_idx c ps | None => [(999999, 999999)] end.
"""

SIG_PINNED = "Language.successors:one-level-look-through"

MAX_CANON = {"quick": 70, "thorough": 110}


# --------------------------------------------------------------------------
# languages

class Lang:
    """A generated language: hierarchy, listed canon specification, flags."""

    def __init__(self, h: C.Hierarchy, listed, top: bool, bot: bool, noperators: int = 1):
        self.h = h
        self.listed = listed
        self.top = top
        self.bot = bot
        self.noperators = noperators

    def to_json(self):
        return {"hierarchy": self.h.to_json(), "listed": self.listed,
                "top": self.top, "bot": self.bot, "noperators": self.noperators,
                "declared_late": getattr(self, "late", None), "shared_subterm_objects": getattr(self, "share", False)}

    @staticmethod
    def from_json(d) -> "Lang":
        def tup(t):
            return (t[0], [tup(a) for a in t[1]])
        L = Lang(C.Hierarchy.from_json(d["hierarchy"]), [tup(t) for t in d["listed"]],
            d["top"], d["bot"], d.get("noperators", 1))
        if d.get("declared_late") is not None:
            L.late = d["declared_late"]
        L.share = bool(d.get("shared_subterm_objects"))
        return L

    def build(self):
        import transforge.type as T
        from transforge.lang import Language
        from transforge.expr import Operator
        h = self.h
        late = getattr(self, "late", None)
        ops = h.build(skip={late} if late is not None else ())
        scope = {str(ops[i]): ops[i] for i in h.ids if i != late}
        base0 = ops[5]
        self.operators = {}
        for k in range(self.noperators):
            self.operators[f"f{k}"] = Operator(type=base0() ** base0())
        scope.update(self.operators)
        # equal subterms of a listed type may be one and the same object (a = A(); F(a, a))
        memo = {} if getattr(self, "share", False) else None
        canon = [h.inst(t, memo) for t in self.listed]
        if self.top:
            canon.append(T.Top)
        if self.bot:
            canon.append(T.Bottom)
        self.lang = Language(scope=scope, namespace="https://example.com/c10#", canon=canon)
        if late is not None:
            # a history: the taxonomy is consulted, THEN a further base type is declared and added,
            # and the canon expanded again; what follows must describe the language as it is now
            lang = self.lang
            for c in list(lang.canon):
                for tr in (False, True):
                    list(lang.subtypes(c, transitive=tr))
                    list(lang.supertypes(c, transitive=tr))
            lang.add(h.build_late(late))
            lang.expand_canon()
        return self.lang

    def text(self):
        n = self.h.names()
        return {"base": {n[i]: (n[self.h.parents[i]] if i in self.h.parents else None)
                         for i in range(5, 5 + self.h.nbase)},
                "compound": {n[i]: ["co" if v else "contra" for v in vs]
                             for i, vs in self.h.variances.items()},
                "canon": [C.ty_str(t, n) for t in self.listed]
                         + (["Top"] if self.top else []) + (["Bottom"] if self.bot else [])}


def gen_lang(rng: random.Random, flags=None) -> Lang:
    nbase = rng.randint(1, 6)
    parents, depth = {}, {}
    for i in range(5, 5 + nbase):
        cands = [j for j in range(5, i) if depth[j] < 3]
        if cands and rng.random() < 0.7:
            p = rng.choice(cands)
            parents[i] = p
            depth[i] = depth[p] + 1
        else:
            depth[i] = 0
    variances = {}
    for k in range(rng.randint(1, 2)):
        ar = rng.randint(1, 2)
        variances[5 + nbase + k] = [rng.random() < 0.55 for _ in range(ar)]
    h = C.Hierarchy(parents, variances, nbase)
    bases = list(range(5, 5 + nbase))
    comps = sorted(variances)
    if rng.random() < 0.2:
        comps = comps + [rng.choice([3, 4])]     # Function / Product

    def ty(d):
        if d == 0 or rng.random() < 0.35:
            if rng.random() < 0.04:
                return (2, [])                   # Unit
            return (rng.choice(bases), [])
        o = rng.choice(comps)
        return (o, [ty(d - 1) for _ in range(h.arity(o))])
    listed = []
    for _ in range(rng.randint(1, 3)):
        r = rng.random()
        listed.append(ty(0) if r < 0.25 else ty(1) if r < 0.7 else ty(2))
    if not any(t[1] for t in listed) and rng.random() < 0.8:
        o = rng.choice(comps)                    # mostly at least one compound listed type
        listed.append((o, [ty(rng.choice([0, 0, 1])) for _ in range(h.arity(o))]))
    if flags is None:
        flags = (rng.random() < 0.5, rng.random() < 0.5)
    L = Lang(h, listed, flags[0], flags[1], rng.randint(0, 2))
    L.share = rng.random() < 0.4
    if L.share and rng.random() < 0.5:
        # make sure there is something to share: a binary operator over one parameter twice
        two = [o for o in comps if h.arity(o) == 2]
        if two:
            a = ty(rng.choice([0, 0, 1]))
            listed.append((rng.choice(two), [a, a]))
    if rng.random() < 0.3:
        # one leaf base type is declared and added only after the taxonomy has been consulted
        leaves = [i for i in bases if i != 5 and i not in parents.values() and i in parents
                  and not any(mentions(t, i) for t in listed)]
        if leaves:
            L.late = rng.choice(leaves)
    return L


def gen_interesting(rng: random.Random, flags) -> Lang:
    """Mostly languages whose canon has at least four types (tiny ones exercise little)."""
    while True:
        L = gen_lang(rng, flags)
        if rng.random() < 0.25:
            return L
        try:
            if len(L.build().canon) >= 4:
                return L
        except Exception:
            return L      # reported by run()


def small_scope(every: int = 1) -> list[Lang]:
    """Every language over A > B > C, D with covariant F, contravariant G and
    K(co, contra) whose canon specification is a single type of nesting <= 1,
    under each Top/Bottom combination (28 x 4 = 112 languages); `every` thins it out."""
    h = lambda: C.Hierarchy({6: 5, 7: 6}, {9: [True], 10: [False], 11: [True, False]}, 4)
    bases = [(b, []) for b in (5, 6, 7, 8)]
    types = list(bases)
    for o, ar in ((9, 1), (10, 1), (11, 2)):
        for combo in itertools.product(bases, repeat=ar):
            types.append((o, list(combo)))
    out = []
    k = 0
    for t in types:
        for flags in ((False, False), (True, False), (False, True), (True, True)):
            if k % every == 0:
                out.append(Lang(h(), [t], flags[0], flags[1], 1))
            k += 1
    return out


FIXED = [
    # the hand probes of DESIGN.md section 5
    Lang(C.Hierarchy({6: 5, 7: 6}, {8: [True]}, 3), [(5, []), (8, [(7, [])])], True, False),
    Lang(C.Hierarchy({6: 5}, {7: [False]}, 2), [(5, []), (7, [(5, [])])], True, False),
    # the pinned tests' languages
    Lang(C.Hierarchy({6: 5}, {7: [True, True]}, 2), [(5, []), (7, [(5, []), (6, [])])], True, False),
    Lang(C.Hierarchy({6: 5}, {7: [True, True]}, 2), [(5, []), (7, [(5, []), (5, [])])], True, True),
    Lang(C.Hierarchy({6: 5, 7: 5}, {8: [True, True]}, 3), [(5, []), (8, [(5, []), (5, [])])], False, False),
    # contravariant and nested with both flags
    Lang(C.Hierarchy({6: 5, 7: 6}, {8: [False], 9: [True, False]}, 3),
         [(8, [(8, [(6, [])])]), (9, [(6, []), (7, [])])], True, True),
    Lang(C.Hierarchy({6: 5}, {}, 2), [(3, [(5, []), (6, [])])], True, True),
]


# --------------------------------------------------------------------------
# implementation side

def from_impl(h: C.Hierarchy, t, inv):
    t = t.follow()
    return (inv[id(t.operator)], tuple(from_impl(h, p, inv) for p in t.params))


def tt(t):
    """(op, [args]) -> hashable nested tuple"""
    return (t[0], tuple(tt(a) for a in t[1]))


def tl(t):
    return (t[0], [tl(a) for a in t[1]])


def dec_enc(xs):
    """inverse of ty_enc on a prefix list"""
    def go(i):
        o, n = xs[i], xs[i + 1]
        i += 2
        args = []
        for _ in range(n):
            a, i = go(i)
            args.append(a)
        return (o, tuple(args)), i
    t, i = go(0)
    assert i == len(xs)
    return t


def observe(L: Lang, with_graph: bool = True) -> dict:
    """Everything the property talks about, read off the implementation."""
    import transforge.type as T
    from transforge.graph import TransformationGraph
    from transforge.namespace import RDFS, RDF, TF
    from rdflib import URIRef, BNode
    lang = L.build()
    h = L.h
    inv = {id(op): i for i, op in h.ops.items()}
    canon_objs = list(lang.canon)
    key = {c: from_impl(h, c, inv) for c in canon_objs}
    obs = {"canon": set(key.values()), "n_canon": len(canon_objs)}
    if len(set(key.values())) != len(canon_objs):
        obs["dup_canon"] = True
    obs["sub"] = {key[c]: {from_impl(h, s, inv) for s in lang.subtypes(c)} for c in canon_objs}
    obs["sup"] = {key[c]: {from_impl(h, s, inv) for s in lang.supertypes(c)} for c in canon_objs}
    obs["subT"] = {key[c]: {from_impl(h, s, inv) for s in lang.subtypes(c, transitive=True)}
                   for c in canon_objs}
    obs["supT"] = {key[c]: {from_impl(h, s, inv) for s in lang.supertypes(c, transitive=True)}
                   for c in canon_objs}
    # the order, as the implementation decides it (C01 ties it to Sub)
    obs["lt"] = {(key[a], key[b]) for a in canon_objs for b in canon_objs
                 if a.is_subtype(b, strict=True)}
    obs["objs"] = {key[c]: c for c in canon_objs}
    if with_graph:
        uri = {lang.uri(c): key[c] for c in canon_objs}
        obs["canon_after"] = None
        obs["uri_collision"] = len(uri) != len(canon_objs)
        for name, closure in (("tax", False), ("taxC", True)):
            g = TransformationGraph(lang, minimal=True, with_canonical_types=True,
                with_transitive_closure=closure)
            g.add_taxonomy()
            trip, other = set(), []
            for s, p, o in g:
                if p == RDFS.subClassOf and s in uri and o in uri:
                    trip.add((uri[s], uri[o]))
                else:
                    other.append((str(s), str(p), str(o)))
            obs[name] = trip
            obs[name + "_other"] = other
        g = TransformationGraph(lang, with_canonical_types=True)
        g.add_vocabulary()
        typed = set(g.subjects(RDF.type, TF.Type))
        obs["vocab_type_uris"] = {n for n in typed if isinstance(n, URIRef)}
        obs["vocab_type_bnodes"] = sum(1 for n in typed if isinstance(n, BNode))
        obs["vocab_ops"] = set(g.subjects(RDF.type, TF.Operation))
        obs["canon_uris"] = set(uri)
        obs["op_uris"] = {lang.uri(op) for op in lang.operators.values()}
        base_params, comp_params = set(), set()

        def walk(t, topl):
            if not topl:
                if t[1]:
                    if t not in obs["canon"]:
                        comp_params.add(t)
                else:
                    base_params.add(t)
            for a in t[1]:
                walk(a, False)
        for c in obs["canon"]:
            walk(c, True)
        obs["param_base_uris"] = {lang.uri(h.inst(tl(b))) for b in base_params}
        obs["param_noncanon_compound"] = len(comp_params)
        # subClassOf among canonical types in the full vocabulary (closure on by default)
        obs["vocab_sub"] = {(uri[s], uri[o]) for s, o in g.subject_objects(RDFS.subClassOf)
                            if s in uri and o in uri}
        # TransformationGraph and add_taxonomy call expand_canon again
        obs["canon_after"] = {from_impl(h, c, inv) for c in lang.canon}
    return obs


# --------------------------------------------------------------------------
# independent enumeration of the allowed subtypes of a listed (plain) type

def chain_up(h, o):
    r = [o]
    while o in h.parents:
        o = h.parents[o]
        r.append(o)
    return r


def descendants(h, o):
    r = [o]
    for c, p in sorted(h.parents.items()):
        if p in r:
            r.append(c)
    return r


def allowed_related(h: C.Hierarchy, t, down: bool, top: bool, bot: bool):
    """All s with s <= t (down) or t <= s (not down) that mention Bottom only
    if bot and Top only if top; t is Top/Bottom-free."""
    o, args = t
    res = []
    if down and bot:
        res.append((1, ()))
    if not down and top:
        res.append((0, ()))
    if not args:
        if o > 4:
            rel = descendants(h, o) if down else chain_up(h, o)
        else:
            rel = [o]
        res += [(b, ()) for b in rel]
    else:
        vs = h.variance(o)
        per = [allowed_related(h, a, down if v else not down, top, bot) for a, v in zip(args, vs)]
        for combo in itertools.product(*per):
            res.append((o, tuple(combo)))
    return res


def mentions(t, o):
    return t[0] == o or any(mentions(a, o) for a in t[1])


# --------------------------------------------------------------------------
# the property on the implementation's observations

def reach(direct: dict, t):
    seen, st = set(), list(direct.get(t, ()))
    while st:
        x = st.pop()
        if x in seen:
            continue
        seen.add(x)
        st.extend(direct.get(x, ()))
    return seen


def oracle(L: Lang, obs: dict) -> list[tuple[str, dict]]:
    """Violations of the property text, each with the offending types."""
    h, names = L.h, L.h.names()
    s_ = lambda t: C.ty_str(tl(t), names)
    out = []
    canon = obs["canon"]
    # 1. canon contains every allowed subtype of each listed type
    for t in L.listed:
        for s in allowed_related(h, t, True, L.top, L.bot):
            if s not in canon:
                out.append(("canon_missing_subtype", {"listed": s_(tt(t)), "missing": s_(s)}))
                break
    if L.top and (0, ()) not in canon:
        out.append(("canon_missing_top", {}))
    if L.bot and (1, ()) not in canon:
        out.append(("canon_missing_bottom", {}))
    for c in canon:
        if not L.bot and mentions(c, 1):
            out.append(("canon_bottom_unrequested", {"type": s_(c)}))
            break
        if not L.top and mentions(c, 0):
            out.append(("canon_top_unrequested", {"type": s_(c)}))
            break
    if obs.get("canon_after") is not None and obs["canon_after"] != canon:
        out.append(("canon_not_stable", {"added_by_second_expand_canon":
            sorted(map(s_, obs["canon_after"] - canon))[:10]}))
    lt = obs["lt"]
    # 2. reachability through direct links = strict subtype; links canonical
    for t in canon:
        for kind, direct, strict in (
                ("sub", obs["sub"], {s for s in canon if (s, t) in lt}),
                ("sup", obs["sup"], {s for s in canon if (t, s) in lt})):
            if not direct[t] <= canon:
                out.append((f"link_not_canonical_{kind}", {"of": s_(t),
                    "links": sorted(map(s_, direct[t] - canon))}))
                continue
            r = reach(direct, t)
            if r - strict:
                out.append((f"reach_unsound_{kind}", {"of": s_(t), "reached_but_unrelated": sorted(map(s_, r - strict))}))
            if strict - r:
                out.append((f"reach_incomplete_{kind}", {"of": s_(t), "strict_but_unreached": sorted(map(s_, strict - r))}))
            tr = obs[kind + "T"][t]
            if tr != strict:
                out.append((f"transitive_{kind}", {"of": s_(t), "missing": sorted(map(s_, strict - tr)),
                    "extra": sorted(map(s_, tr - strict))}))
    # 3. mirror
    for t in canon:
        for s in obs["sub"][t]:
            if s in canon and t not in obs["sup"][s]:
                out.append(("mirror", {"super": s_(t), "sub": s_(s), "what": "s in subtypes(t) but t not in supertypes(s)"}))
        for s in obs["sup"][t]:
            if s in canon and t not in obs["sub"][s]:
                out.append(("mirror", {"sub": s_(t), "super": s_(s), "what": "s in supertypes(t) but t not in subtypes(s)"}))
    # 4. triples
    if "tax" in obs:
        links = {(s, t) for t in canon for s in obs["sub"][t]} | {(t, s) for t in canon for s in obs["sup"][t]}
        if obs["tax"] != links or obs["tax_other"]:
            out.append(("taxonomy_triples", {"missing": sorted(map(lambda p: (s_(p[0]), s_(p[1])), links - obs["tax"])),
                "extra": sorted(map(lambda p: (s_(p[0]), s_(p[1])), obs["tax"] - links)), "other": obs["tax_other"][:5]}))
        le = lt | {(c, c) for c in canon}
        if obs["taxC"] != le or obs["taxC_other"]:
            out.append(("taxonomy_closure", {"missing": sorted(map(lambda p: (s_(p[0]), s_(p[1])), le - obs["taxC"]))[:10],
                "extra": sorted(map(lambda p: (s_(p[0]), s_(p[1])), obs["taxC"] - le))[:10], "other": obs["taxC_other"][:5]}))
        if obs["vocab_sub"] != le:
            out.append(("vocabulary_subclass", {"missing": sorted(map(lambda p: (s_(p[0]), s_(p[1])), le - obs["vocab_sub"]))[:10],
                "extra": sorted(map(lambda p: (s_(p[0]), s_(p[1])), obs["vocab_sub"] - le))[:10]}))
        # 5. vocabulary describes exactly the operators and the canonical types
        # (parameters of canonical types appear as part of their description)
        if obs["uri_collision"]:
            out.append(("uri_collision", {}))
        if obs["vocab_ops"] != obs["op_uris"]:
            out.append(("vocabulary_operators", {"missing": sorted(map(str, obs["op_uris"] - obs["vocab_ops"])),
                "extra": sorted(map(str, obs["vocab_ops"] - obs["op_uris"]))}))
        if not obs["canon_uris"] <= obs["vocab_type_uris"]:
            out.append(("vocabulary_type_missing", {"missing": sorted(map(str, obs["canon_uris"] - obs["vocab_type_uris"]))}))
        extra = obs["vocab_type_uris"] - obs["canon_uris"] - obs["param_base_uris"]
        if extra or obs["vocab_type_bnodes"] != obs["param_noncanon_compound"]:
            out.append(("vocabulary_type_extra", {"extra": sorted(map(str, extra)),
                "blank_type_nodes": obs["vocab_type_bnodes"],
                "noncanonical_compound_parameters": obs["param_noncanon_compound"]}))
    return out


ROOT_CAUSE_KINDS = ("reach_incomplete_sub", "reach_incomplete_sup", "mirror", "transitive_sub",
    "transitive_sup", "taxonomy_closure", "vocabulary_subclass")


# --------------------------------------------------------------------------
# model side

def coq_block(i: int, L: Lang, n_canon: int, pinned: bool) -> tuple[str, int]:
    h = L.h
    fuel = f"(60 * ({n_canon} + {len(L.listed)} + 10))"
    b = lambda x: "true" if x else "false"
    listed = []
    for t in L.listed:      # Language.__init__ builds a set
        if t not in listed:
            listed.append(t)
    body = (f"Definition H_{i} := {h.coq()}.\n"
        f"Definition ops_{i} := {C.coq_list(h.ids)}.\n"
        f"Definition L_{i} := {C.coq_list(listed, C.ty_coq)}.\n"
        f"Definition C_{i} := Eval vm_compute in unopt (expand_canon H_{i} ops_{i} {b(L.top)} {b(L.bot)} {fuel} (rev L_{i}) L_{i}).\n"
        f"Eval vm_compute in map ty_enc C_{i}.\n"
        f"Eval vm_compute in links H_{i} C_{i} false.\n"
        f"Eval vm_compute in links H_{i} C_{i} true.\n"
        f"Eval vm_compute in pairs_idx C_{i} (taxonomy H_{i} C_{i}).\n"
        f"Eval vm_compute in clos_idx C_{i} (closure_of (taxonomy H_{i} C_{i}) {fuel} C_{i}).\n")
    n = 5
    if pinned:
        body += f"Eval vm_compute in plinks H_{i} ops_{i} {b(L.top)} {b(L.bot)} C_{i}.\n"
        n += 1
    return body, n


def model_obs(vals, pinned: bool) -> dict:
    canon = [dec_enc(x) for x in vals[0]]
    at = lambda k: canon[k] if k < len(canon) else ("?", k)
    m = {"canon_list": canon, "canon": set(canon)}
    for name, v in (("", vals[1]), ("T", vals[2])):
        m["sub" + name] = {canon[i]: {at(k) for k in v[i][0]} for i in range(len(canon))}
        m["sup" + name] = {canon[i]: {at(k) for k in v[i][1]} for i in range(len(canon))}
    m["tax"] = {(at(a), at(b)) for a, b in vals[3]}
    m["taxC"] = {(at(a), at(b)) for a, b in vals[4]}
    if pinned:
        v = vals[5]
        m["psub"] = {canon[i]: {at(k) for k in v[i][0]} for i in range(len(canon))}
        m["psup"] = {canon[i]: {at(k) for k in v[i][1]} for i in range(len(canon))}
    return m


def compare(L: Lang, obs: dict, m: dict) -> list[tuple[str, dict]]:
    names = L.h.names()
    s_ = lambda t: C.ty_str(tl(t), names) if t[0] != "?" else str(t)
    out = []
    if obs["canon"] != m["canon"]:
        out.append(("K_canon", {"impl_only": sorted(map(s_, obs["canon"] - m["canon"])),
            "model_only": sorted(map(s_, m["canon"] - obs["canon"]))}))
        return out
    for k in ("sub", "sup", "subT", "supT"):
        for t in obs["canon"]:
            if obs[k][t] != m[k][t]:
                out.append((f"K_{k}", {"of": s_(t), "impl_only": sorted(map(s_, obs[k][t] - m[k][t])),
                    "model_only": sorted(map(s_, m[k][t] - obs[k][t]))}))
                break
    for k in ("tax", "taxC"):
        if k in obs and obs[k] != m[k]:
            out.append((f"K_{k}", {"impl_only": sorted((s_(a), s_(b)) for a, b in obs[k] - m[k])[:10],
                "model_only": sorted((s_(a), s_(b)) for a, b in m[k] - obs[k])[:10]}))
    return out


def matches_pinned(obs: dict, m: dict) -> bool:
    """Is the implementation's link structure exactly what the pinned algorithm
    (model lang_succ_pinned: TypeOperation.successors with the language's
    universe, filtered to canonical types with a one-level look-through)
    computes, transitive variants included?"""
    if "psub" not in m or obs["canon"] != m["canon"]:
        return False
    for t in obs["canon"]:
        if obs["sub"][t] != m["psub"][t] or obs["sup"][t] != m["psup"][t]:
            return False
        if obs["subT"][t] != reach(m["psub"], t) or obs["supT"][t] != reach(m["psup"], t):
            return False
    return True


# --------------------------------------------------------------------------

def nontrivial(L: Lang, obs: dict) -> bool:
    """a compound canonical type exists and some canonical type has two
    canonical types strictly below it that are themselves ordered"""
    if not any(c[1] for c in obs["canon"]):
        return False
    lt = obs["lt"]
    below = {}
    for a, b in lt:
        below.setdefault(b, set()).add(a)
    return any((x, y) in lt for b, xs in below.items() for x in xs for y in xs)


def run(rep: C.Report, langs: list[Lang], tag: str, tier: str):
    # implementation first (also bounds the model's fuel and filters sizes)
    kept = []
    n_exc = 0
    stats = {"generated": len(langs), "skipped_large": 0, "flags": {"--": 0, "T-": 0, "-B": 0, "TB": 0},
             "canon_sizes": [], "with_contravariant": 0, "with_nested_listed": 0,
             "with_nonroot_listed": 0, "with_builtin_compound": 0, "strict_pairs": 0, "direct_links": 0}
    for L in langs:
        try:
            L.build()
        except Exception as e:   # generator produced something the constructor refuses
            rep.violation(f"build_{tag}_{len(kept)}", {"kind": "harness", "what": f"language construction raised {type(e).__name__}: {e}",
                "language": L.to_json()}, has_input=False)
            continue
        if len(L.lang.canon) > MAX_CANON[tier]:
            stats["skipped_large"] += 1
            continue
        kept.append(L)
    observations = []
    survivors = []
    for L in kept:
        try:
            obs = observe(L)
        except Exception as e:   # the property's observables must be computable at all
            import traceback
            tb = traceback.extract_tb(e.__traceback__)
            site = next((f"{fr.filename.split('/')[-1]}:{fr.name}" for fr in reversed(tb)
                         if "/transforge/" in fr.filename), "?")
            n_exc += 1
            if n_exc <= 3:
                rep.violation(f"exception_{tag}_{len(survivors)}", {"kind": "oracle", "language": L.to_json(),
                    "language_text": L.text(),
                    "what": f"reading canon/subtypes/supertypes/add_taxonomy/add_vocabulary raised {type(e).__name__} at {site}: {e}"},
                    has_input=True)
            continue
        survivors.append(L)
        observations.append(obs)
        stats["flags"][("T" if L.top else "-") + ("B" if L.bot else "-")] += 1
        stats["canon_sizes"].append(obs["n_canon"])
        stats["with_contravariant"] += any(not all(v) for v in L.h.variances.values()) or any(
            mentions(tt(t), 3) for t in L.listed)
        stats["with_nested_listed"] += any(ty_depth_py(t) >= 2 for t in L.listed)
        stats["with_nonroot_listed"] += any(_has_nonroot(L.h, t) for t in L.listed)
        stats["with_builtin_compound"] += any(mentions(tt(t), 3) or mentions(tt(t), 4) for t in L.listed)
        stats["strict_pairs"] += len(obs["lt"])
        stats["direct_links"] += sum(len(v) for v in obs["sub"].values())
    kept = survivors
    stats["implementation_exceptions"] = n_exc
    blocks = [coq_block(i, L, observations[i]["n_canon"], True) for i, L in enumerate(kept)]
    outs = C.coq_eval_blocks(f"C10_{tag}", HDR, blocks, nfiles=4)
    n_dis = n_viol = 0
    distinct = 0
    samples = []
    for i, (L, obs, vals) in enumerate(zip(kept, observations, outs)):
        m = model_obs(vals, True)
        if nontrivial(L, obs):
            distinct += 1
        payload = {"language": L.to_json(), "language_text": L.text(),
                   "canon": sorted(C.ty_str(tl(c), L.h.names()) for c in obs["canon"])}
        viol = oracle(L, obs)
        dis = compare(L, obs, m)
        pinned_shape = matches_pinned(obs, m)
        if len(samples) < 3 and nontrivial(L, obs) and len(obs["canon"]) >= 6:
            t0 = max(obs["canon"], key=lambda c: len(obs["sub"][c]))
            samples.append(dict(L.text(), n_canon=len(obs["canon"]),
                example_direct_subtypes={C.ty_str(tl(t0), L.h.names()):
                    sorted(C.ty_str(tl(s), L.h.names()) for s in obs["sub"][t0])}))
        if viol:
            n_viol += 1
            kinds = sorted({k for k, _ in viol})
            # root cause: the link structure is exactly what the pinned
            # one-level look-through computes, and only its symptoms are seen
            sig = SIG_PINNED if (pinned_shape and all(k in ROOT_CAUSE_KINDS for k in kinds)) else None
            if n_viol <= 6 or sig is None:
                rep.violation(f"oracle_{tag}_{i}", dict(payload, kind="oracle",
                    what="property fails on the implementation: " + ", ".join(kinds),
                    failures=[{"check": k, **d} for k, d in viol[:12]],
                    replay_hint="./check C10 --replay <this file>"), has_input=True, signature=sig)
        if dis:
            n_dis += 1
            if not viol and n_dis <= 6:
                # (the pinned algorithm also reports some redundant, non-covering links)
                rep.violation(f"K_C10_{tag}_{i}", dict(payload, kind="correspondence",
                    what="implementation differs from the model (K_C10) without violating the oracle",
                    differences=[{"check": k, **d} for k, d in dis[:8]]), has_input=False,
                    signature=SIG_PINNED if pinned_shape else None)
    stats["canon_size_hist"] = _hist(stats.pop("canon_sizes"))
    return len(kept), distinct, n_dis, n_viol, stats, samples


def _has_nonroot(h, t):
    return (t[0] in h.parents) or any(_has_nonroot(h, a) for a in t[1])


def _hist(xs):
    bins = {"1-5": 0, "6-15": 0, "16-40": 0, "41+": 0}
    for x in xs:
        bins["1-5" if x <= 5 else "6-15" if x <= 15 else "16-40" if x <= 40 else "41+"] += 1
    return bins


def ty_depth_py(t):
    return 0 if not t[1] else 1 + max(ty_depth_py(a) for a in t[1])



def main(tier: str, seed: int, replay: str | None = None) -> int:
    # read the replay first: Report() clears replays/C10/ of stale files, and that
    # is where the file to replay usually lives
    d = json.loads(open(replay).read()) if replay else {}
    ev_file = C.EVID / "C10.json"
    old_evidence = ev_file.read_text() if (replay and ev_file.exists()) else None
    C.force_repo_on_path()
    # Function types print as `A ** B`; rdflib warns about the blank in the URI (C14's business)
    logging.getLogger("rdflib.term").setLevel(logging.ERROR)
    rep = C.Report("C10", tier, seed)
    rep.proof_stage()
    rep.proof_stage("C10_term")     # expand_canon terminates within an explicit fuel bound; C10 theorems without the 'completed run' hypothesis
    rng = random.Random(seed)
    if "language" in d:
        langs = [Lang.from_json(d["language"])]
    else:
        n = 120 if tier == "quick" else 1000
        langs = list(FIXED) + small_scope()
        for k in range(n):
            # each flag combination gets a quarter of the stream
            flags = [(False, False), (True, False), (False, True), (True, True)][k % 4]
            langs.append(gen_interesting(rng, flags))
    n, distinct, dis, viol, stats, samples = run(rep, langs, tier if not replay else "replay", tier)
    rep.coverage.update({
        "evaluations": n, "distinct_nontrivial": distinct, "disagreements": dis, "oracle_failures": viol,
        "rule": "seven fixed languages (hand probes, pinned tests), the small scope (every single-type canon of nesting <= 1 over "
                "A>B>C, D, F co, G contra, K(co,contra) x 4 flag combinations = 112 languages), and random "
                "languages: forests of 1-6 base types (depth <= 3), 1-2 compound operators of arity 1-2 with random "
                "variance (20%: also Function/Product), 1-3 listed types of nesting 0-2 over root and non-root base types, "
                "the four Top/Bottom combinations in equal shares, canon size capped; observation = canon, direct and "
                "transitive subtypes/supertypes of every canonical type, subClassOf triples with and without closure, "
                "vocabulary; non-trivial = has a compound canonical type and a canonical chain of length >= 3",
        "samples": samples, "input_distribution": stats, "exhaustive": False})
    rep.assumptions = [
        "hierarchies are forests declared in order (wf_hier) and every operator with a parent belongs to the language (TypeOperator.children is global state)",
        "listed canon types mention neither Top nor Bottom (the flags request them); aliases are not generated",
        "expand_canon is modelled with fuel: the theorems cover every completed run (any stack order); termination is observed, not proved",
        "rdflib's store and transitive_subjects are modelled, not verified; adding closure triples while iterating is assumed not to change the closure",
        "agreement between model and implementation is tested on the generated languages, not proved",
    ]
    rc = rep.finish(C.TRUSTED)
    if old_evidence is not None:      # a replay is diagnostic: keep the evidence of the last full run
        ev_file.write_text(old_evidence)
    return rc
