"""C09  depends is the transitive closure of from.

proof stage     coq/props/C09.v  (every history of add_from calls, either flag,
                cycles included: depends = closure of from; order irrelevant;
                pinned code refuted / right on bottom-up histories only)
correspondence  TransformationGraph.add_from of /repo vs the model [add_from]:
                * direct random call sequences (the histories quantifier itself),
                  compared after every call;
                * the call sequences that add_expr / add_workflow really perform
                  (recovered from a logging subclass of the graph; transforge
                  itself is never patched), compared on the finished graph
oracle          on every finished graph of the implementation:
                set(depends) == transitive closure of set(from), computed in
                Python and, independently, by the certified decider [closedb]
"""
from __future__ import annotations

import json
import os
import random
import subprocess
import traceback
from pathlib import Path

from . import common as C

PID = "C09"
# root-cause signature of the defect of the pinned tree (see proposed_fixes/C09.diff)
SIG_PINNED = "graph.py:add_from:new-dependencies-not-propagated-to-dependents-of-a"

HDR = """From Coq Require Import List Arith Bool.
Import ListNotations.
From TF Require Import Graph.Closure.
Definition deps (gs : list graph) : list (list edge) := map dep gs.
Definition fin (ops : list op) : list (list edge) := let g := run ops in [frm g; dep g].
Definition finp (ops : list op) : list edge := dep (run_pinned ops).
Definition dec (f d : list edge) : nat := Nat.b2n (closedb (mkG f d)).
"""


# --------------------------------------------------------------------------
# the language the generated expressions and workflows are written in

def make_language():
    from transforge.type import TypeOperator
    from transforge.expr import Operator
    from transforge.lang import Language
    from transforge.graph import TEST
    A = TypeOperator('A')
    B = TypeOperator('B', supertype=A)
    scope = dict(
        A=A, B=B,
        f=Operator(type=A ** A),
        f2=Operator(type=A ** A),
        fb=Operator(type=A ** B),
        g=Operator(type=A ** A ** A),
        h=Operator(type=(A ** A) ** A ** A),
        k=Operator(type=(A ** A) ** A),
        h2=Operator(type=(A ** A ** A) ** A ** A ** A),
        m=Operator(type=(A ** A) ** (A ** A) ** A ** A),
        t3=Operator(type=(A ** A) ** (A ** A) ** (A ** A) ** A ** A),
    )
    f, g, h = scope["f"], scope["g"], scope["h"]
    # composite operators: become abstractions under .primitive()
    scope["c"] = Operator(type=A ** A, body=lambda x: f(f(x)))
    scope["cid"] = Operator(type=A ** A, body=lambda x: x)
    scope["c2"] = Operator(type=A ** A ** A, body=lambda x, y: g(y, g(x, y)))
    scope["ch"] = Operator(type=A ** A, body=lambda x: h(f, x))
    return Language(scope=scope, namespace=TEST, canon={A, B})


# Expression generator (type-directed, mostly well-typed by construction).
# Leaves are numbered inputs (shared Source objects) or anonymous sources.

def gen_data(rng, depth, leaves, ho):
    """an expression of type A as text"""
    if depth <= 0 or rng.random() < 0.22:
        if leaves and rng.random() < 0.8:
            return str(rng.choice(leaves))
        return "(-: A)" if rng.random() < 0.8 else "(-: B)"
    r = rng.random()
    d = depth - 1
    if r < (0.45 if ho else 1.0):
        w = rng.random()
        if w < 0.3:
            return f"(f {gen_data(rng, d, leaves, ho)})"
        if w < 0.4:
            return f"(fb {gen_data(rng, d, leaves, ho)})"
        if w < 0.8:
            return f"(g {gen_data(rng, d, leaves, ho)} {gen_data(rng, d, leaves, ho)})"
        if w < 0.9:
            return f"(c {gen_data(rng, d, leaves, ho)})"
        return f"(c2 {gen_data(rng, d, leaves, ho)} {gen_data(rng, d, leaves, ho)})"
    w = rng.random()
    if w < 0.4:
        return f"(h {gen_fun(rng, d, leaves)} {gen_data(rng, d, leaves, ho)})"
    if w < 0.5:
        return f"(k {gen_fun(rng, d, leaves)})"
    if w < 0.65:
        return (f"(h2 {gen_fun2(rng, d, leaves)} {gen_data(rng, d, leaves, ho)} "
                f"{gen_data(rng, d, leaves, ho)})")
    if w < 0.85:
        return f"(m {gen_fun(rng, d, leaves)} {gen_fun(rng, d, leaves)} {gen_data(rng, d, leaves, ho)})"
    if w < 0.93:
        return (f"(t3 {gen_fun(rng, d, leaves)} {gen_fun(rng, d, leaves)} "
                f"{gen_fun(rng, d, leaves)} {gen_data(rng, d, leaves, ho)})")
    return f"(ch {gen_data(rng, d, leaves, ho)})"


FUN_INPUTS = []     # numbered inputs used as functions (set per case by gen_expr_case)


def gen_fun(rng, depth, leaves):
    """an expression of type A ** A"""
    r = rng.random()
    if FUN_INPUTS and rng.random() < 0.3:
        # a function-valued input: one Source object, possibly passed to several operations
        return str(rng.choice(FUN_INPUTS))
    if depth <= 0 or r < 0.45:
        return rng.choice(["f", "f2", "f", "c", "cid", "fb", "ch"])
    d = depth - 1
    if r < 0.7:
        return f"(g {gen_data(rng, d, leaves, True)})"
    if r < 0.85:
        return f"(h {gen_fun(rng, d, leaves)})"
    if r < 0.93:
        return f"(m {gen_fun(rng, d, leaves)} {gen_fun(rng, d, leaves)})"
    return f"(c2 {gen_data(rng, d, leaves, True)})"


def gen_fun2(rng, depth, leaves):
    """an expression of type A ** A ** A"""
    r = rng.random()
    if depth <= 0 or r < 0.7:
        return rng.choice(["g", "g", "c2"])
    return f"(h2 {gen_fun2(rng, depth - 1, leaves)})"


def strip(s: str) -> str:
    return s[1:-1] if s.startswith("(") and s.endswith(")") and s.count("(") == s.count(")") \
        and _balanced_outer(s) else s


def _balanced_outer(s: str) -> bool:
    n = 0
    for i, ch in enumerate(s):
        n += ch == "("
        n -= ch == ")"
        if n == 0 and i < len(s) - 1:
            return False
    return True


# --------------------------------------------------------------------------
# cases

def gen_history(rng):
    n = rng.randint(2, 8)
    length = rng.randint(1, 24)
    style = rng.random()
    ops = []
    for i in range(length):
        if style < 0.25:
            # chains inserted top-down / inside-out: the worst case for the pinned code
            a = rng.randrange(n); b = (a + 1) % n if rng.random() < 0.7 else rng.randrange(n)
        elif style < 0.5:
            a, b = sorted(rng.sample(range(n), 2)) if n > 1 else (0, 0)   # acyclic
        else:
            a, b = rng.randrange(n), rng.randrange(n)
        ops.append([int(rng.random() < 0.25), a, b])
    return {"kind": "history", "uri_nodes": rng.random() < 0.3, "ops": ops}


def exhaustive_histories(n_nodes: int, max_len: int, flags=(0, 1)):
    """every call sequence up to max_len over n_nodes nodes (self-loops, repeats, both flags)"""
    import itertools
    calls = [[r, a, b] for r in flags for a in range(n_nodes) for b in range(n_nodes)]
    out = []
    for length in range(1, max_len + 1):
        for seq in itertools.product(calls, repeat=length):
            out.append({"kind": "history", "uri_nodes": False, "ops": [list(c) for c in seq],
                        "exhaustive": True})
    return out


def gen_flags(rng):
    r = rng.random()
    if r < 0.6:
        return {"minimal": True, "with_operators": True, "with_dependencies": True}
    if r < 0.8:
        return {"with_dependencies": True}           # everything on (the defaults)
    return {"minimal": True, "with_dependencies": True, "with_types": True,
            "with_noncanonical_types": True, "with_labels": True}


def gen_expr_case(rng):
    k = rng.randint(0, 3)
    leaves = list(range(1, k + 1))
    ho = rng.random() < 0.75
    n = 1 if rng.random() < 0.7 else rng.randint(2, 3)
    nf = rng.choice([0, 0, 1, 1, 2]) if ho else 0
    FUN_INPUTS[:] = list(range(k + 1, k + nf + 1))
    exprs = [strip(gen_data(rng, rng.randint(1, 4), leaves, ho)) for _ in range(n)]
    FUN_INPUTS[:] = []
    k += nf
    return {"kind": "expr", "n_inputs": k, "exprs": exprs, "primitive": rng.random() < 0.85,
            "preadd": rng.random() < 0.35, "preadd_seed": rng.randrange(10 ** 6),
            "flags": gen_flags(rng)}


def renumber(text: str, used: list[int]) -> str:
    import re
    m = {u: i + 1 for i, u in enumerate(used)}
    return re.sub(r"(?<![\w])(\d+)(?![\w])", lambda mt: str(m[int(mt.group(1))]), text)


def gen_workflow_case(rng):
    import re
    for _ in range(50):
        nsrc = rng.randint(1, 3)
        ntools = rng.randint(1, 5)
        res = [f"s{i}" for i in range(nsrc)]
        tools = []
        unused = []
        ho = rng.random() < 0.6
        for t in range(ntools):
            kk = rng.randint(1, 3)
            text = strip(gen_data(rng, rng.randint(1, 3), list(range(1, kk + 1)), ho))
            used = sorted({int(x) for x in re.findall(r"(?<![\w])(\d+)(?![\w])", text)})
            if not used:
                text = f"g ({text}) 1" if rng.random() < 0.5 else "f 1"
                used = [1]
            elif re.fullmatch(r"\d+", text):
                text = f"f {text}"            # a tool is at least one operation
            text = renumber(text, used)
            inputs = []
            for j in range(len(used)):
                if unused and (rng.random() < 0.6 or t == ntools - 1):
                    x = unused.pop(rng.randrange(len(unused)))
                else:
                    x = rng.choice(res)
                inputs.append(x)
            if rng.random() < 0.3:
                text = re.sub(r"(?<![\w])1(?![\w])", "(1: A)", text, count=1)
            name = f"t{t}"
            tools.append([name, text, inputs])
            unused = [u for u in unused if u not in inputs]
            res.append(name)
            unused.append(name)
        srcs_used = sorted({x for _, _, ins in tools for x in ins if x.startswith("s")})
        if len(unused) == 1 and srcs_used:
            # (declared but unused sources are not representable with minimal graphs)
            return {"kind": "workflow", "sources": srcs_used,
                    "tools": tools, "passthrough": rng.random() < 0.5, "flags": gen_flags(rng)}
    raise RuntimeError("workflow generator did not converge")


# fixed cases that are always run first: the probes of DESIGN.md section 5 and the
# shapes of the pinned test-suite
FIXED = [
    {"kind": "history", "uri_nodes": False, "ops": [[0, 2, 1], [0, 0, 2], [0, 0, 3], [0, 1, 3]]},
    {"kind": "history", "uri_nodes": False, "ops": [[0, 0, 1], [0, 1, 2], [0, 2, 3], [1, 3, 4], [0, 4, 0]]},
    {"kind": "history", "uri_nodes": True, "ops": [[0, 0, 0], [1, 1, 1], [0, 1, 0], [1, 2, 1]]},
    {"kind": "expr", "n_inputs": 0, "exprs": ["h f (-: A)"], "primitive": True, "preadd": False,
     "preadd_seed": 0, "flags": {"minimal": True, "with_operators": True, "with_dependencies": True}},
    {"kind": "expr", "n_inputs": 1, "exprs": ["t3 f f2 f 1"], "primitive": True, "preadd": False,
     "preadd_seed": 0, "flags": {"minimal": True, "with_operators": True, "with_dependencies": True}},
    {"kind": "expr", "n_inputs": 2, "exprs": ["h2 c2 1 2", "g 1 (f 2)"], "primitive": True, "preadd": False,
     "preadd_seed": 0, "flags": {"with_dependencies": True}},
    {"kind": "expr", "n_inputs": 1, "exprs": ["g (f 1) (g (f 1) (-: A))"], "primitive": True, "preadd": True,
     "preadd_seed": 1, "flags": {"minimal": True, "with_operators": True, "with_dependencies": True}},
    {"kind": "workflow", "sources": ["s0", "s1"], "passthrough": True, "flags": {"with_dependencies": True},
     "tools": [["t0", "f (1: A)", ["s0"]], ["t1", "g 1 (f 2)", ["t0", "s1"]], ["t2", "g 1 2", ["t1", "t0"]]]},
    {"kind": "workflow", "sources": ["s0", "s1"], "passthrough": False, "flags": {"with_dependencies": True},
     "tools": [["t0", "f (1: A)", ["s0"]], ["t1", "g 1 (f 2)", ["t0", "s1"]], ["t2", "g 1 2", ["t1", "t0"]]]},
    {"kind": "workflow", "sources": ["s0", "s1"], "passthrough": False,
     "flags": {"minimal": True, "with_operators": True, "with_dependencies": True},
     "tools": [["t0", "h f (1: A)", ["s0"]], ["t1", "h (g 1) 2", ["t0", "s1"]]]},
]


# --------------------------------------------------------------------------
# running a case on the implementation

def traced_class():
    """A logging subclass of TransformationGraph.  Only rdflib's own methods
    (Graph.add, Graph.transitive_objects) are overridden, each delegating to
    super(); no transforge method is replaced."""
    from transforge.graph import TransformationGraph, TF

    class Traced(TransformationGraph):
        def __init__(self, *a, **k):
            self.log = []
            super().__init__(*a, **k)

        def add(self, triple):
            p = triple[1]
            if p == TF["from"]:
                self.log.append(("F", triple[0], triple[2]))
            elif p == TF.depends:
                self.log.append(("D", triple[0], triple[2]))
            return super().add(triple)

        def transitive_objects(self, subject, predicate, remember=None):
            if remember is None and predicate == TF["from"]:
                self.log.append(("T", subject))
            return super().transitive_objects(subject, predicate, remember)

    return Traced


class Numbering:
    def __init__(self):
        self.ids = {}

    def __call__(self, node):
        if node not in self.ids:
            self.ids[node] = len(self.ids)
        return self.ids[node]


def sets_of(g, num):
    from transforge.graph import TF
    fr = sorted({(num(a), num(b)) for a, b in g.subject_objects(TF["from"])})
    dp = sorted({(num(a), num(b)) for a, b in g.subject_objects(TF.depends)})
    return fr, dp


def checked_history(ops, fr):
    """The logged calls, provided the log accounts for exactly the from-edges of the
    finished graph.  If it does not (say the code adds triples past the overridable
    Graph.add), fall back to the finished graph's from-edges in sorted order: by
    C09_order_irrelevant the model's result does not depend on the order."""
    if {(a, b) for _, a, b in ops} == set(fr):
        return ops, True
    return [[0, a, b] for a, b in fr], False


def history_of(log, num):
    """the add_from calls as the log shows them: one per from-insertion, flagged
    recursive when transitive_objects(., from) was started before the next one"""
    ops = []
    for ev in log:
        if ev[0] == "F":
            ops.append([0, num(ev[1]), num(ev[2])])
        elif ev[0] == "T" and ops:
            ops[-1][0] = 1
    return ops


def subexprs(e):
    """data-typed sub-expressions in argument position"""
    from transforge.expr import Application, Abstraction, Source
    from transforge.type import TypeOperation, Function
    out = []

    def walk(x, arg):
        if isinstance(x, Application):
            t = x.type
            isfun = isinstance(t, TypeOperation) and t.operator == Function
            if arg and not isfun:
                out.append(x)
            walk(x.f, False)
            if not isinstance(x.x, Abstraction):
                walk(x.x, True)
    walk(e, False)
    return out


def run_impl(case, lang):
    """-> dict(status, snapshots=[(from, depends)], ops=history, extra) ;
    node numbers follow first use"""
    from rdflib import BNode, URIRef
    from transforge.graph import TransformationGraph, TEST
    from transforge.expr import Source
    from transforge.workflow import WorkflowDict
    num = Numbering()
    kind = case["kind"]
    if kind == "history":
        g = TransformationGraph(lang, minimal=True, with_dependencies=True)
        n = 1 + max(max(o[1], o[2]) for o in case["ops"])
        nodes = [URIRef(f"https://example.com/#n{i}") if case.get("uri_nodes") else BNode()
                 for i in range(n)]
        # numbering by first use, as for the traced cases
        snaps = []
        ops = []
        for r, a, b in case["ops"]:
            ops.append([r, num(nodes[a]), num(nodes[b])])
            g.add_from(nodes[a], nodes[b], bool(r))
            snaps.append(sets_of(g, num))
        return {"status": "ok", "snapshots": snaps, "ops": ops, "stepwise": True}
    Traced = traced_class()
    flags = dict(case.get("flags") or {})
    if kind == "expr":
        g = Traced(lang, **flags)
        srcs = [Source() for _ in range(case["n_inputs"])]
        snaps = []
        rng = random.Random(case.get("preadd_seed", 0))
        for text in case["exprs"]:
            e = lang.parse_expr(text, *srcs)
            if case.get("primitive", True):
                e = e.primitive()
            root = BNode()
            if case.get("preadd"):
                subs = subexprs(e)
                rng.shuffle(subs)
                for s in subs[:rng.randint(1, 3)]:
                    if s not in g.expr_nodes:
                        # what add_workflow does for tool outputs: add a part first
                        # and let the whole reuse its node
                        g.expr_nodes[s] = g.add_expr(s, root)
            g.add_expr(e, root)
            snaps.append(sets_of(g, num))
        ops, traced = checked_history(history_of(g.log, num), snaps[-1][0])
        return {"status": "ok", "snapshots": snaps, "ops": ops, "stepwise": False, "traced": traced}
    if kind == "workflow":
        g = Traced(lang, passthrough=case["passthrough"], **flags)
        wf = WorkflowDict(TEST.wf,
            {TEST[name]: (text, [TEST[i] for i in inputs]) for name, text, inputs in case["tools"]},
            {TEST[s] for s in case["sources"]})
        g.add_workflow(wf)
        snap = sets_of(g, num)
        ops, traced = checked_history(history_of(g.log, num), snap[0])
        return {"status": "ok", "snapshots": [snap], "ops": ops, "stepwise": False, "traced": traced}
    raise ValueError(kind)


# --------------------------------------------------------------------------
# oracle (plain Python; cross-checked against the certified decider)

def closure(edges):
    succ = {}
    for a, b in edges:
        succ.setdefault(a, set()).add(b)
    out = set()
    for a in succ:
        seen = set()
        stack = list(succ[a])
        while stack:
            x = stack.pop()
            if x in seen:
                continue
            seen.add(x)
            stack.extend(succ.get(x, ()))
        out |= {(a, x) for x in seen}
    return out


def pinned_sim(ops):
    """what the pinned add_from would record for this call sequence -- used only to
    classify the root cause of an already failing large case (the small ones are
    classified with the Coq model [run_pinned])"""
    frm, dep = set(), set()
    for r, a, b in ops:
        frm.add((a, b))
        dep.add((a, b))
        if r:
            below = {b} | {y for x, y in closure(frm) if x == b}
        else:
            below = {y for x, y in dep if x == b}
        dep |= {(a, y) for y in below}
    return sorted(dep)


def bottom_up(ops) -> bool:
    seen_targets = set()
    for _, a, b in ops:
        if a in seen_targets or a == b:
            return False
        seen_targets.add(b)
    return True


def cyclic(edges) -> bool:
    return any(a == b for a, b in closure(edges))


def coq_ops(ops) -> str:
    return C.coq_list(ops, lambda o: f"({'true' if o[0] else 'false'}, ({o[1]}, {o[2]}))")


def coq_edges(es) -> str:
    return C.coq_list(es, lambda e: f"({e[0]}, {e[1]})")


def pairs(v):
    return sorted({(int(a), int(b)) for a, b in v})


def howto(case) -> str:
    if case["kind"] == "history":
        return ("g = TransformationGraph(lang, minimal=True, with_dependencies=True); "
                "for (recursive, a, b) in ops: g.add_from(node[a], node[b], bool(recursive)); "
                "then compare set(g.subject_objects(TF.depends)) with the transitive closure of "
                "set(g.subject_objects(TF['from']))")
    if case["kind"] == "expr":
        return ("language = harness.c09.make_language(); g = TransformationGraph(language, **flags); "
                "for each text in exprs: g.add_expr(language.parse_expr(text, *sources).primitive(), BNode()); "
                "compare depends with the closure of from")
    return ("language = harness.c09.make_language(); g = TransformationGraph(language, passthrough=passthrough, "
            "**flags); g.add_workflow(WorkflowDict(TEST.wf, {TEST[name]: (text, [TEST[i] ...])}, sources)); "
            "compare depends with the closure of from")


def ensure_model_built():
    """Graph/Closure.vo may not be in _CoqProject yet: compile it when stale."""
    src = C.COQ / "theories" / "Graph" / "Closure.v"
    vo = src.with_suffix(".vo")
    if not vo.exists() or vo.stat().st_mtime < src.stat().st_mtime:
        subprocess.run(["coqc", "-Q", "theories", "TF", "-Q", "props", "TFP",
            "theories/Graph/Closure.v"], cwd=C.COQ, timeout=300,
            stdout=subprocess.PIPE, stderr=subprocess.STDOUT)


def main(tier: str, seed: int, replay: str | None = None) -> int:
    C.force_repo_on_path()
    rep = C.Report(PID, tier, seed)
    ensure_model_built()
    rep.proof_stage()
    rng = random.Random(seed)
    lang = make_language()

    old_evidence = None
    pre = ""
    if replay:
        # a replay is diagnostic: keep the evidence of the last full run
        ev = C.EVID / f"{PID}.json"
        old_evidence = ev.read_text() if ev.exists() else None
        pre = "replay_"
        d = json.loads(Path(replay).read_text())
        cases = [d["case"]] if "case" in d else []
        if "history" in d and d.get("case", {}).get("kind") != "history":
            cases.append({"kind": "history", "uri_nodes": False, "ops": d["history"]})
    else:
        nh, ne, nw = (160, 150, 90) if tier == "quick" else (2500, 2000, 1200)
        cases = [dict(c) for c in FIXED]
        if tier == "quick":
            cases += exhaustive_histories(2, 2)                       # 8 + 64
        else:
            cases += exhaustive_histories(3, 2)                       # 18 + 324
            cases += [c for c in exhaustive_histories(3, 3, flags=(0,)) if len(c["ops"]) == 3]   # 729
        cases += [gen_history(rng) for _ in range(nh)]
        cases += [gen_expr_case(rng) for _ in range(ne)]
        cases += [gen_workflow_case(rng) for _ in range(nw)]

    # ---- implementation
    runs = []
    rejected = {}
    crashed = []
    for case in cases:
        try:
            res = run_impl(case, lang)
        except Exception as e:
            frames = [fs.name for fs in traceback.extract_tb(e.__traceback__)]
            if case["kind"] == "history" or "add_from" in frames:
                crashed.append((f"crash_{case['kind']}_{len(crashed)}", {"case": case, "kind": "oracle",
                    "how": howto(case), "what": "add_from raised instead of recording the edge",
                    "exception": f"{type(e).__name__}: {e}", "frames": frames[-6:]}))
            else:
                # the input was not accepted (typing, normalisation, ...) or add_expr itself
                # failed before reaching add_from: not C09's business
                key = f"{case['kind']}:{type(e).__name__}"
                rejected[key] = rejected.get(key, 0) + 1
            continue
        runs.append((case, res))

    # ---- oracle only for the few very large graphs (the Coq model evaluation is cubic):
    # plain Python closure on the finished graph
    cap_calls, cap_dep = (40, 400) if tier == "quick" else (64, 800)
    big = [(c, r) for c, r in runs if len(r["ops"]) > cap_calls or len(r["snapshots"][-1][1]) > cap_dep]
    runs = [(c, r) for c, r in runs if not (len(r["ops"]) > cap_calls or len(r["snapshots"][-1][1]) > cap_dep)]
    big_fail = 0
    big_viol = []
    for bi, (case, res) in enumerate(big):
        fr, dp = res["snapshots"][-1]
        want, have = closure(fr), set(dp)
        if want != have:
            big_fail += 1
            sig = SIG_PINNED if (sorted(have) == pinned_sim(res["ops"]) and not (have - want)) else None
            big_viol.append((f"{pre}oracle_big_{case['kind']}_{bi}", {"case": case, "history": res["ops"],
                "how": howto(case), "kind": "oracle",
                "what": "depends differs from the transitive closure of from on a generated graph",
                "from": fr, "depends": dp, "missing": sorted(want - have), "extra": sorted(have - want)}, sig))

    # ---- model
    blocks = []
    for ci, (case, res) in enumerate(runs):
        ops = res["ops"]
        body = f"Definition ops_{ci} : list op := {coq_ops(ops)}.\n"
        n = 0
        if res["stepwise"]:
            body += f"Eval vm_compute in deps (trace_from empty ops_{ci}).\n"; n += 1
        body += f"Eval vm_compute in fin ops_{ci}.\n"; n += 1
        body += f"Eval vm_compute in finp ops_{ci}.\n"; n += 1
        fr, dp = res["snapshots"][-1]
        body += f"Eval vm_compute in dec {coq_edges(fr)} {coq_edges(dp)}.\n"; n += 1
        blocks.append((body, n))
    outs = C.coq_eval_blocks(f"{PID}_{tier}" + ("_replay" if replay else ""), HDR, blocks, nfiles=4) \
        if blocks else []

    # ---- compare
    n_eval = len(big)
    n_dis = 0
    n_oracle_fail = 0
    distinct = set()
    dist = {"history": 0, "expr": 0, "workflow": 0, "calls": 0, "recursive_calls": 0,
            "not_bottom_up": 0, "cyclic": 0, "higher_order": 0, "passthrough_off": 0,
            "multi_expr": 0, "preadd": 0, "max_calls": 0, "max_depends": 0, "history_not_from_log": 0,
            "full_graph_flags": 0}
    samples = []
    failing = []      # (size, name, payload, signature, has_input)
    disagree = []
    for ci, ((case, res), vals) in enumerate(zip(runs, outs)):
        ops = res["ops"]
        vals = list(vals)
        m_steps = [pairs(s) for s in vals.pop(0)] if res["stepwise"] else None
        m_from, m_dep = [pairs(v) for v in vals.pop(0)]
        m_pinned = pairs(vals.pop(0))
        decided = vals.pop(0)
        fr, dp = res["snapshots"][-1]
        kind = case["kind"]
        dist[kind] += 1
        dist["calls"] += len(ops)
        dist["recursive_calls"] += sum(1 for o in ops if o[0])
        dist["max_calls"] = max(dist["max_calls"], len(ops))
        dist["max_depends"] = max(dist["max_depends"], len(dp))
        nbu = not bottom_up(ops)
        dist["history_not_from_log"] += not res.get("traced", True)
        dist["not_bottom_up"] += nbu
        dist["cyclic"] += cyclic(fr)
        if kind != "history":
            dist["higher_order"] += any(w in " ".join(case.get("exprs") or [t[1] for t in case["tools"]])
                for w in ("h ", "h2 ", "m ", "t3 ", "k ", "ch"))
            dist["full_graph_flags"] += "minimal" not in (case.get("flags") or {})
        if kind == "workflow":
            dist["passthrough_off"] += not case["passthrough"]
        if kind == "expr":
            dist["multi_expr"] += len(case["exprs"]) > 1
            dist["preadd"] += bool(case.get("preadd"))
        if nbu and ops:
            distinct.add(json.dumps(ops))
        base = {"case": case, "history": ops, "how": howto(case),
            "history_note": "the add_from calls the implementation performed, [recursive, a, b], nodes "
                            "numbered by first use; replaying them directly on an empty graph reproduces the result"}
        # oracle on every finished graph (every snapshot is the result of complete public calls)
        for si, (sfr, sdp) in enumerate(res["snapshots"]):
            n_eval += 1
            want = closure(sfr)
            have = set(sdp)
            if want != have:
                n_oracle_fail += 1
                # root cause: on this history the implementation yields exactly what the pinned
                # add_from yields (only a itself receives b's dependencies), and nothing is extra
                sig = SIG_PINNED if (dp == m_pinned and not (have - want)) else None
                failing.append((len(ops), f"{pre}oracle_{kind}_{ci}_{si}", dict(base, kind="oracle",
                    what="depends differs from the transitive closure of from on a generated graph",
                    snapshot=si, **{"from": sfr, "depends": sdp,
                    "missing": sorted(want - have), "extra": sorted(have - want)}), sig, True))
                break
        # certified decider must agree with the Python oracle on the final graph
        py_ok = closure(fr) == set(dp)
        if bool(decided) != py_ok:
            disagree.append((f"{pre}decider_{ci}", dict(base, kind="harness",
                what="Python closure oracle and the certified decider closedb disagree",
                **{"from": fr, "depends": dp, "closedb": decided})))
        # correspondence
        n_eval += 1
        bad = None
        if m_from != fr:
            bad = "from-set differs from the model"
        elif m_dep != dp:
            bad = "depends-set differs from the model on the finished graph"
        elif m_steps is not None:
            for si, ((sfr, sdp), ms) in enumerate(zip(res["snapshots"], m_steps)):
                if ms != sdp:
                    bad = f"depends-set differs from the model after call {si + 1}"
                    break
        if bad:
            n_dis += 1
            disagree.append((f"{pre}disagree_{kind}_{ci}", dict(base, kind="correspondence",
                what=f"add_from differs from the model (K_C09): {bad}",
                impl={"from": fr, "depends": dp}, model={"from": m_from, "depends": m_dep},
                pinned_model_depends=m_pinned)))
        if nbu and all(sm["kind"] != kind for sm in samples):
            samples.append({"kind": kind, "case": case, "history": ops,
                "n_from": len(fr), "n_depends": len(dp)})

    for name, payload in crashed[:3]:
        rep.violation(name, payload, has_input=True)
    # smallest failing inputs first; a handful of replay files is enough
    failing.sort(key=lambda t: t[0])
    by_sig = {}
    for size, name, payload, sig, has_input in failing:
        k = (sig, payload["case"]["kind"])
        by_sig[k] = by_sig.get(k, 0) + 1
        if by_sig[k] <= 2:
            rep.violation(name, payload, has_input=has_input, signature=sig)
    for name, payload, sig in big_viol[:2]:
        rep.violation(name, payload, has_input=True, signature=sig)
    if not failing:
        # correspondence-only disagreements (no failing input of the property itself)
        for name, payload in disagree[:5]:
            rep.violation(name, payload, has_input=False)
    else:
        for name, payload in disagree[:5]:
            if payload["kind"] == "harness":
                rep.violation(name, payload, has_input=False)

    total = max(1, dist["history"] + dist["expr"] + dist["workflow"])
    rep.coverage.update({
        "evaluations": n_eval, "distinct_nontrivial": len(distinct), "disagreements": n_dis,
        "oracle_failures": n_oracle_fail + big_fail, "crashes_in_add_from": len(crashed),
        "large_graphs_oracle_only": {"count": len(big), "rule": f"more than {cap_calls} add_from calls or "
            f"{cap_dep} depends triples: closure oracle only, no model evaluation"},
        "exhaustive_scope": ("all add_from call sequences of length <= 2 over 2 nodes, both flags" if tier == "quick"
            else "all add_from call sequences of length <= 2 over 3 nodes with both flags, and all of length 3 "
                 "over 3 nodes with recursive=False"),
        "rule": "10 fixed cases (design probes, pinned test shapes); the exhaustive scope; random add_from call sequences over 2-8 nodes, "
                "1-24 calls, 25% recursive, chains inserted top-down / acyclic / arbitrary (self-loops, cycles, "
                "repeats), compared with the model after every call; type-directed random expressions over a "
                "language with first-order, higher-order (1-3 function arguments, partial applications) and "
                "composite operators, 0-3 shared inputs, 1-3 expressions per graph, optionally parts added first; "
                "random workflows of 1-5 tools over 1-3 sources, passthrough on/off; three graph-option sets. "
                "non-trivial = distinct call history that is not bottom-up (some edge is added below a node that "
                "already has an incoming edge - where closure maintenance matters)",
        "samples": samples, "input_distribution": dist,
        "mean_calls_per_graph": round(dist["calls"] / total, 2),
        "rejected_inputs": rejected, "exhaustive": False})
    rep.assumptions = [
        "every tf:from / tf:depends triple of a generated graph is created by add_from (checked on every case: the "
        "model fed with the logged calls reproduces both sets exactly)",
        "rdflib store and transitive_objects are modelled by their specification",
        "agreement between model and implementation is tested on the generated cases, not proved",
    ]
    rc = rep.finish(C.TRUSTED)
    if replay:
        print(f"replayed {len(runs)} case(s): oracle failures {n_oracle_fail}, disagreements {n_dis}")
        if old_evidence is not None:
            (C.EVID / f"{PID}.json").write_text(old_evidence)
    return rc
