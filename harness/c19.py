"""C19  Graph generation is deterministic up to blank-node renaming.

proof stage     coq/props/C19.v: the set-iteration orders of the modelled code are
                unobservable in the produced triple set (add_from histories, the
                wiring loops of add_expr over Graph.objects(), children sets in
                successors/floor, the stack discipline of expand_canon, the taxonomy
                read off the canonical set, the listing order of tool_outputs)
oracle          the property itself on the implementation: every case (vocabulary,
                expression graph, workflow graph; with_* switches sampled) is generated
                  * in >= 3 fresh interpreters with different PYTHONHASHSEED, with
                    TRANSFORGE_VERIF unset and set, each with a different allocation
                    pattern, and three times in each: on a fresh language, again
                    after all the other graphs of that language, and on a language
                    built a second time;
                  * in this process as well;
                  * workflows additionally under explicit listing orders of
                    wf.tool_outputs / wf.sources (a Workflow implementation whose
                    sets iterate in a prescribed order - the public interface)
                and all graphs of one case must have the same canonical form (blank
                nodes renamed canonically, every literal compared, the running numbers
                of printed type variables renamed by first occurrence); failures to
                generate count as an outcome that must be the same everywhere
correspondence  the scheduled Coq models against /repo: add_expr_s under three listing
                orders of Graph.objects() vs the from/internal/via/depends triples of
                the implementation; expand_canon_s under two disciplines vs
                Language.canon
"""
from __future__ import annotations

import itertools
import json
import os
import random
import subprocess
import tempfile
import time
from collections import Counter
from pathlib import Path

from . import common as C
from . import c19_gen as G
from . import c19_impl as I

PID = "C19"
NS = "https://example.com/#"
TFNS = "https://github.com/quangis/transforge#"

import sys as _sys
THIS = ("this-process hashseed=" + ("random" if _sys.flags.hash_randomization and
        os.environ.get("PYTHONHASHSEED") in (None, "", "random") else "as-launched") + " guard=1")

# root causes seen on the pinned tree
SIG_TEXT = "type.py:text:constraints-and-bounds-printed-in-set-iteration-order"
SIG_SRC = "workflow.py:source_types:unannotated-and-annotated-uses-override-each-other-in-listing-order"

DET_FILES = ["Det/Perm.v", "Det/AddFromTr.v", "Det/WireSched.v", "Det/CanonSched.v",
             "Det/WorkflowSched.v"]
DEP_FILES = ["Canon/Worklist.v", "Canon/Succ.v", "Canon/SuccProofs.v", "Canon/Canon.v",
             "Canon/CanonProofs.v", "Graph/Workflow.v"]


def ensure_model_built():
    """the Det/ files (and the models of C10 / C12 they build on) may not be listed in
    _CoqProject yet: compile what is missing or stale, in dependency order"""
    for rel in DEP_FILES + DET_FILES:
        src = C.COQ / "theories" / rel
        vo = src.with_suffix(".vo")
        if not src.exists():
            continue
        if not vo.exists() or vo.stat().st_mtime < src.stat().st_mtime:
            subprocess.run(["coqc", "-Q", "theories", "TF", "-Q", "props", "TFP", f"theories/{rel}"],
                cwd=C.COQ, timeout=600, stdout=subprocess.PIPE, stderr=subprocess.STDOUT)


# --------------------------------------------------------------------------
# fresh interpreters

def spawn_children(job, confs, workdir):
    """confs: [(hashseed, guard or None, junk)] -> list of parsed outputs"""
    procs = []
    for i, (hs, guard, junk) in enumerate(confs):
        jp, op = f"{workdir}/job{i}.json", f"{workdir}/out{i}.json"
        Path(jp).write_text(json.dumps(dict(job, junk=junk)))
        env = {k: v for k, v in os.environ.items() if k != C.GUARD}
        env["PYTHONHASHSEED"] = str(hs)
        env["PYTHONPATH"] = str(C.REPO)
        if guard:
            env[C.GUARD] = guard
        procs.append((subprocess.Popen([C.PY, str(Path(I.__file__).resolve()), jp, op], env=env,
            stdout=subprocess.PIPE, stderr=subprocess.STDOUT, text=True), op, (hs, guard, junk)))
    outs = []
    for p, op, conf in procs:
        try:
            log, _ = p.communicate(timeout=1500)
        except subprocess.TimeoutExpired:
            p.kill()
            log = "timeout"
        if p.returncode != 0 or not Path(op).exists():
            outs.append({"conf": conf, "crash": (log or "")[-1500:]})
        else:
            d = json.loads(Path(op).read_text())
            d["conf"] = conf
            outs.append(d)
    return outs


# --------------------------------------------------------------------------
# comparing the observations of one case

def obs_key(x):
    if x["status"] == "error":
        return "E"
    return x["canon"] + ":" + I.digest(x["form"])


def literal_order_only(f1, f2) -> bool:
    """the two forms differ only in literals, and only in the order of the items inside
    the square brackets of a printed type"""
    import re

    def norm(form):
        out = []
        for s, p, o in form:
            if o.startswith('"'):
                o = re.sub("τ#?[0-9]+", "τ", o)
                o = re.sub(r"\[([^\[\]]*)\]", lambda m: "[" + ", ".join(sorted(_split_top(m.group(1)))) + "]", o)
            out.append([s, p, o])
        # blank nodes were named with the literals in view: name them again
        return I.canonical(sorted(out))
    return f1 != f2 and norm(f1) == norm(f2)


def _split_top(s: str):
    parts, depth, cur = [], 0, ""
    for ch in s:
        if ch in "([":
            depth += 1
        elif ch in ")]":
            depth -= 1
        if ch == "," and depth == 0:
            parts.append(cur.strip())
            cur = ""
        else:
            cur += ch
    if cur.strip():
        parts.append(cur.strip())
    return parts


def diff_summary(f1, f2, n=6):
    a = {json.dumps(t, ensure_ascii=False) for t in f1}
    b = {json.dumps(t, ensure_ascii=False) for t in f2}
    return {"only_in_first": sorted(a - b)[:n], "only_in_second": sorted(b - a)[:n],
            "sizes": [len(f1), len(f2)]}


def source_types_by_order(lang, case, orders):
    """Workflow.source_types (public API) under listing orders: {order: {source: text}}"""
    from rdflib import URIRef
    _, Listed = I.workflow_classes()
    apps = {URIRef(NS + name): (text, [URIRef(NS + i) for i in inputs])
            for name, text, inputs in case["tools"]}
    sources = [URIRef(NS + s) for s in case["sources"]]
    out = {}
    for ao, so in orders:
        try:
            wf = Listed(URIRef(NS + "wf"), apps, sources, ao, so)
            res = {str(n)[len(NS):]: I.mask_literal('"' + str(t) + '"') for n, t in wf.source_types(lang)}
        except Exception as e:      # noqa: BLE001
            res = {"error": type(e).__name__}
        out[json.dumps([ao, so])] = res
    return out


def to_rdflib(form):
    from rdflib import Graph, BNode
    from rdflib.util import from_n3
    g = Graph()
    bn = {}

    def tm(x):
        if x.startswith("_:"):
            return bn.setdefault(x, BNode())
        return from_n3(x)
    for s, p, o in form:
        g.add((tm(s), tm(p), tm(o)))
    return g


def rdflib_iso(f1, f2, seconds=4):
    """rdflib.compare.isomorphic with a time limit (it does not terminate in reasonable
    time on graphs with repeated identical parts) -> True | False | None"""
    import signal
    from rdflib.compare import isomorphic

    def onalarm(*_):
        raise TimeoutError
    old = signal.signal(signal.SIGALRM, onalarm)
    signal.alarm(seconds)
    try:
        return bool(isomorphic(to_rdflib(f1), to_rdflib(f2)))
    except TimeoutError:
        return None
    finally:
        signal.alarm(0)
        signal.signal(signal.SIGALRM, old)


def perturb(rng, form):
    """a graph that differs in one place: a literal changed, or an edge redirected"""
    form = [list(t) for t in form]
    lits = [i for i, t in enumerate(form) if t[2].startswith('"')]
    bl = [i for i, t in enumerate(form) if t[2].startswith("_:")]
    nodes = sorted({t[0] for t in form if t[0].startswith("_:")})
    if lits and (rng.random() < 0.5 or not bl):
        i = rng.choice(lits)
        form[i][2] = form[i][2][:-1] + '~"' if form[i][2].endswith('"') else form[i][2] + "~"
        return form
    if bl and len(nodes) > 1:
        i = rng.choice(bl)
        other = [n for n in nodes if n != form[i][2]]
        form[i][2] = rng.choice(other)
        return form
    return None


def howto(case) -> str:
    k = case["kind"]
    base = ("language: harness.c19_impl.build_language(spec) (type operators, operators and canon as "
            "listed in 'spec'); ")
    if k == "vocab":
        return base + "g = TransformationGraph(lang, **flags); g.add_vocabulary()"
    if k == "expr":
        return base + ("g = TransformationGraph(lang, **flags); sources = [Source() ...]; for each text: "
                       "g.add_expr(lang.parse_expr(text, *sources).primitive() if primitive, root)")
    return base + ("g = TransformationGraph(lang, passthrough=..., **flags); "
                   "g.add_workflow(WorkflowDict(root, {tool: (expression, inputs)}, sources))")


# --------------------------------------------------------------------------
# Coq side of the correspondence

HDR = """From Coq Require Import List Arith Bool.
Import ListNotations.
From TF Require Import Base.Hier Base.Ty Graph.AddExpr Canon.Worklist Canon.Succ Canon.Canon.
From TF Require Import Det.Perm Det.AddFromTr Det.WireSched Det.CanonSched.
Definition rot : sched := fun g s p => match objs g s p with [] => [] | x :: r => r ++ [x] end.
Definition trip (t : triple) : list nat := [t_subj t; t_pred t; t_obj t].
Definition out (r : option (list node * gstate)) : option (list node * list (list nat)) :=
  match r with Some (ns, s) => Some (ns, map trip (g_tr s)) | None => None end.
Definition run1 (dep : bool) (ob : sched) (es : list expr) :=
  out (add_exprs_s (if dep then add_from_tr false else add_from_plain) (map (fun e => (e, ob)) es) g_empty).
Definition run3 (dep : bool) (es : list expr) := [run1 dep objs es; run1 dep objs_rev es; run1 dep rot es].
Definition canon2 (H : hier) (ops : list nat) (top bot : bool) (fuel : nat) (L : list ty) :=
  [option_map (map ty_enc) (expand_canon_s (can_push H ops top bot) fuel (rev L) L);
   option_map (map ty_enc) (expand_canon_s (fun x seen => rev (can_push H (rev ops) top bot x seen)) fuel L L)].
"""


def expr_to_coq(e, ids, opidx):
    """the Gallina term for a transforge expression (object identities numbered by first
    visit; the fn flag is graph.py's own test on the argument's type)"""
    from transforge.expr import Source, Operation, Application, Abstraction, Variable
    from transforge.type import TypeOperation, Function

    def ident(x):
        return ids.setdefault(id(x), len(ids))

    def go(x):
        if isinstance(x, Variable) and x.bound is not None:
            return go(x.bound)
        if isinstance(x, Source):
            return f"(ESrc {ident(x)})"
        if isinstance(x, Variable):
            return f"(EVar {ident(x)})"
        if isinstance(x, Operation):
            return f"(EOp {ident(x)} {opidx[x.operator.name]})"
        if isinstance(x, Application):
            fn = isinstance(x.x.type, TypeOperation) and x.x.type.operator == Function
            return f"(EApp {ident(x)} {go(x.f)} {go(x.x)} {'true' if fn else 'false'})"
        assert isinstance(x, Abstraction), type(x)
        ps = C.coq_list([ident(p) for p in x.params])
        return f"(EAbs {ident(x)} {ps} {go(x.body)})"
    return go(e)


def expr_size(e) -> int:
    from transforge.expr import Application, Abstraction, Variable
    if isinstance(e, Variable) and e.bound is not None:
        return expr_size(e.bound)
    if isinstance(e, Application):
        return 1 + expr_size(e.f) + expr_size(e.x)
    if isinstance(e, Abstraction):
        return 1 + expr_size(e.body)
    return 1


PRED = {0: f"<{TFNS}from>", 1: f"<{TFNS}internal>", 2: f"<{TFNS}via>", 3: f"<{TFNS}depends>"}


def model_form(val, opnames):
    """canonical form of the triple list printed by the model"""
    if val is None:
        return None
    _, trs = val
    out = set()
    for s, p, o in trs:
        obj = f"<{NS}{opnames[o]}>" if p == 2 else f"_:m{o}"
        out.add((f"_:m{s}", PRED[p], obj))
    return I.canonical(sorted(list(t) for t in out))


def impl_expr_corr(lang, case, dep: bool):
    """run an expression case with the flags the model covers; -> (coq text, canonical form) or None"""
    from rdflib import URIRef
    from transforge.graph import TransformationGraph
    from transforge.expr import Source
    g = TransformationGraph(lang, minimal=True, with_operators=True, with_dependencies=dep)
    srcs = [Source() for _ in range(case["n_inputs"])]
    ids = {}
    opidx = {name: i for i, name in enumerate(lang.operators)}
    terms = []
    size = 0
    for i, text in enumerate(case["exprs"]):
        e = lang.parse_expr(text, *srcs)
        if case.get("primitive", True):
            e = e.primitive()
        terms.append(expr_to_coq(e, ids, opidx))
        size += expr_size(e)
        g.add_expr(e, URIRef(NS + f"root{i}"))
    keep = set(PRED.values())
    trs = [t for t in I.dump(g) if t[1] in keep]
    return terms, I.canonical(trs), size, list(lang.operators)


# canonical sets ------------------------------------------------------------

def gen_canon_lang(rng: random.Random):
    nbase = rng.randint(1, 6)
    parents, depth = {}, {}
    for i in range(5, 5 + nbase):
        cands = [j for j in range(5, i) if depth[j] < 3]
        if cands and rng.random() < 0.7:
            p = rng.choice(cands)
            parents[i] = p
            depth[i] = depth[p] + 1
        else:
            depth[i] = 0
    variances = {}
    for k in range(rng.randint(1, 2)):
        variances[5 + nbase + k] = [rng.random() < 0.55 for _ in range(rng.randint(1, 2))]
    h = C.Hierarchy(parents, variances, nbase)
    bases = list(range(5, 5 + nbase))
    comps = sorted(variances)

    def ty(d):
        if d == 0 or rng.random() < 0.35:
            return (rng.choice(bases), [])
        o = rng.choice(comps)
        return (o, [ty(d - 1) for _ in range(h.arity(o))])
    listed = []
    for _ in range(rng.randint(1, 3)):
        r = rng.random()
        t = ty(0) if r < 0.25 else ty(1) if r < 0.75 else ty(2)
        if t not in listed:
            listed.append(t)
    if not any(t[1] for t in listed):
        o = rng.choice(comps)
        listed.append((o, [ty(rng.choice([0, 0, 1])) for _ in range(h.arity(o))]))
    return {"hierarchy": h.to_json(), "listed": listed, "top": rng.random() < 0.5, "bot": rng.random() < 0.5}


def canon_impl(cl):
    import transforge.type as T
    from transforge.lang import Language
    h = C.Hierarchy.from_json(cl["hierarchy"])

    def tup(t):
        return (t[0], [tup(a) for a in t[1]])
    listed = [tup(t) for t in cl["listed"]]
    ops = h.build()
    scope = {str(ops[i]): ops[i] for i in h.ids}
    canon = [h.inst(t) for t in listed]
    if cl["top"]:
        canon.append(T.Top)
    if cl["bot"]:
        canon.append(T.Bottom)
    lang = Language(scope=scope, namespace=NS, canon=canon)
    inv = {id(op): i for i, op in ops.items()}

    def back(t):
        t = t.follow()
        return (inv[id(t.operator)], tuple(back(p) for p in t.params))
    got = {back(t) for t in lang.canon}
    fuel = 60 * (len(got) + len(listed) + 10)
    b = lambda x: "true" if x else "false"      # noqa: E731
    text = (f"Eval vm_compute in canon2 {h.coq()} {C.coq_list(h.ids)} {b(cl['top'])} {b(cl['bot'])} "
            f"{fuel} {C.coq_list(listed, C.ty_coq)}.\n")
    return got, text


def dec_enc(xs):
    def go(i):
        o, n = xs[i], xs[i + 1]
        i += 2
        args = []
        for _ in range(n):
            a, i = go(i)
            args.append(a)
        return (o, tuple(args)), i
    t, i = go(0)
    assert i == len(xs)
    return t


# --------------------------------------------------------------------------

def make_jobs(rng, tier, replay_payload=None):
    if replay_payload is not None:
        cases = replay_payload.get("cases") or [replay_payload["case"]]
        return [{"spec": replay_payload["spec"], "cases": cases, "fixed": False}]
    nl, nv, ne, nw = (28, 2, 7, 5) if tier == "quick" else (120, 2, 9, 7)
    jobs = []
    for lang, cases in G.fixed_languages():
        jobs.append({"spec": lang.spec, "cases": cases, "fixed": True})
    for _ in range(nl):
        lang = G.gen_language(rng)
        cases = [G.gen_vocab_case(rng, lang) for _ in range(nv)]
        cases += [G.gen_expr_case(rng, lang) for _ in range(ne)]
        cases += [c for c in (G.gen_workflow_case(rng, lang) for _ in range(nw)) if c]
        jobs.append({"spec": lang.spec, "cases": cases, "fixed": False})
    return jobs


def main(tier: str, seed: int, replay: str | None = None) -> int:
    C.force_repo_on_path()
    rep = C.Report(PID, tier, seed)
    ensure_model_built()
    rep.proof_stage()
    rng = random.Random(seed)
    t_start = time.time()

    old_evidence = None
    payload = None
    if replay:
        ev = C.EVID / f"{PID}.json"
        old_evidence = ev.read_text() if ev.exists() else None
        payload = json.loads(Path(replay).read_text())
        if "spec" not in payload or ("case" not in payload and "cases" not in payload):
            print("replay file has no language/case (proof-stage or correspondence record)")
            payload = None
    jobs = make_jobs(rng, tier, payload) if (payload or not replay) else []
    pre = "replay_" if replay else ""

    # ---- fresh interpreters (started first, they run while this process works)
    if tier == "quick":
        confs = [(1, None, 0), (2, "1", 1237), (3, None, 40111)]
    else:
        confs = [(1, None, 0), (2, "1", 1237), (3, None, 40111), (4, "1", 7), (5, None, 250000), (6, None, 613)]
    workdir = tempfile.mkdtemp(prefix="c19_", dir=str(C.BUILD)) if C.BUILD.exists() else tempfile.mkdtemp(prefix="c19_")
    job = {"langs": [{"spec": j["spec"], "cases": j["cases"]} for j in jobs]}
    import threading
    child_out = {}
    th = threading.Thread(target=lambda: child_out.setdefault("outs", spawn_children(job, confs, workdir)))
    th.start()

    # ---- this process: the same three passes, plus listing orders for workflows
    parent = I.child(dict(job, junk=0))
    sched_obs = {}          # (li, ci) -> [(order, observation)]
    built = {}
    n_orders = 0
    for li, j in enumerate(jobs):
        if parent[li]["lang_error"]:
            continue
        try:
            lang, _ = I.build_language(j["spec"])
        except Exception:      # noqa: BLE001
            continue
        built[li] = lang
        for ci, case in enumerate(j["cases"]):
            if case["kind"] != "workflow":
                continue
            na, ns = len(case["tools"]), len(case["sources"])
            pa = list(itertools.permutations(range(na)))
            ps = list(itertools.permutations(range(ns)))
            orng = random.Random(f"{seed}:{li}:{ci}")
            cap = (6 if tier == "quick" else 24) if not j["fixed"] else 24
            if len(pa) > cap:
                pa = [pa[0], pa[-1]] + orng.sample(pa[1:-1], cap - 2)
            orders = [(list(a), list(ps[k % len(ps)])) for k, a in enumerate(pa)]
            if len(ps) > 1:
                orders.append((list(pa[0]), list(ps[-1])))
            obs = []
            for ao, so in orders:
                obs.append(((ao, so), I.run_case(lang, case, {"apps": ao, "sources": so})))
                n_orders += 1
            sched_obs[(li, ci)] = obs
    th.join()
    outs = child_out.get("outs", [])

    crashed = [o for o in outs if "crash" in o]
    for k, o in enumerate(crashed[:2]):
        rep.violation(f"{pre}interpreter_{k}", {"kind": "harness", "what": "a fresh interpreter did not finish",
            "conf": o["conf"], "log": o["crash"]}, has_input=False)
    outs = [o for o in outs if "crash" not in o]

    # ---- compare
    dist = Counter()
    n_eval = 0
    n_graphs = 0
    distinct = set()
    samples = []
    failing = []        # (size, name, payload, signature)
    err_classes = Counter()
    for li, j in enumerate(jobs):
        runs = [(THIS, parent[li])]
        runs += [(f"fresh-interpreter hashseed={o['conf'][0]} guard={o['conf'][1]} junk={o['conf'][2]}",
                  o["results"][li]) for o in outs]
        lerrs = {r["lang_error"] for _, r in runs}
        if lerrs != {None}:
            dist["language_rejected"] += 1
            if None in lerrs:
                failing.append((0, f"{pre}language_{li}", {"kind": "oracle", "spec": j["spec"],
                    "what": "the language definition is accepted in one interpreter and rejected in another",
                    "outcomes": sorted(map(str, lerrs))}, None))
            continue
        dist["languages"] += 1
        canons = {json.dumps(r["canon"]) for _, r in runs} | {json.dumps(r["canon_again"]) for _, r in runs}
        n_eval += 1
        if len(canons) != 1:
            failing.append((0, f"{pre}canon_{li}", {"kind": "oracle", "spec": j["spec"], "cases": j["cases"],
                "how": "build the language, generate the graphs of 'cases' from it (any order) and compare "
                       "sorted(t.text() for t in language.canon) before and after, and between interpreters",
                "what": "Language.canon differs between interpreters or grows when graphs are generated",
                "canon_sets": [json.loads(c) for c in sorted(canons)][:3]}, None))
        for ci, case in enumerate(j["cases"]):
            kind = case["kind"]
            obs = []
            for name, r in runs:
                for ps in ("first", "again", "tau0", "tau1", "rebuilt"):
                    obs.append((f"{name} pass={ps}", r[ps][ci]))
            for (ao, so), x in sched_obs.get((li, ci), []):
                obs.append((f"this-process tool_outputs order={ao} sources order={so}", x))
            n_eval += len(obs)
            base_name, base = obs[0]
            keys = {}
            for name, x in obs:
                keys.setdefault(obs_key(x), (name, x))
                if x["status"] == "error":
                    err_classes[f"{kind}:{x['cls']}/{x.get('cause')}"] += 1
            status = "ok" if base["status"] == "ok" else "rejected"
            dist[f"{kind}:{status}"] += 1
            if base["status"] == "ok":
                n_graphs += 1
                dist["triples"] += base["n"]
                dist["max_triples"] = max(dist["max_triples"], base["n"])
                if base["canon"] == "invariant":
                    dist["compared_by_invariant_only"] += 1
                if any(t[2].startswith('"') and "τ" in t[2] for t in base["form"]):
                    dist["graphs_with_unresolved_variables_in_literals"] += 1
                if any("_:" in t[0] or "_:" in t[2] for t in base["form"]):
                    dist["graphs_with_blank_nodes"] += 1
                if kind == "vocab" and any(t[1].endswith("#signature>") and "[" in t[2] and "," in t[2].split("[")[-1]
                                           for t in base["form"]):
                    dist["vocab_with_multi_constraint_signature"] += 1
                distinct.add(obs_key(base))
                if all(s["kind"] != kind for s in samples):
                    samples.append({"kind": kind, "spec": j["spec"], "case": case, "n_triples": base["n"],
                                    "observations_compared": len(obs)})
            if kind == "workflow":
                dist["workflow_shared_source"] += any(
                    sum(1 for _, _, ins in case["tools"] if s in ins) > 1 for s in case["sources"])
                dist["passthrough_off"] += not case["passthrough"]
            if kind == "expr":
                dist["multi_expr"] += len(case["exprs"]) > 1
            if "minimal" not in (case.get("flags") or {}) and len(case.get("flags") or {}) <= 1:
                dist["default_flags"] += 1
            if len(keys) == 1:
                continue
            # ---- a violation: classify the root cause
            (n1, x1), (n2, x2) = list(keys.values())[:2]
            sig = None
            pl = {"kind": "oracle", "spec": j["spec"], "case": case, "how": howto(case),
                  "first": n1, "second": n2, "distinct_outcomes": len(keys),
                  "outcomes": {k: v[0] for k, v in list(keys.items())[:4]}}
            if x1["status"] == "ok" and x2["status"] == "ok":
                pl["what"] = "the same case yields non-isomorphic graphs"
                pl["difference"] = diff_summary(x1["form"], x2["form"])
                if all(literal_order_only(x1["form"], v[1]["form"]) for k, v in list(keys.items())[1:]
                       if v[1]["status"] == "ok") and all(v[1]["status"] == "ok" for v in keys.values()):
                    sig = SIG_TEXT
            else:
                pl["what"] = "the same case yields a graph in one run and an exception in another"
                bad = x1 if x1["status"] == "error" else x2
                pl["exception"] = {k: bad.get(k) for k in ("cls", "cause", "msg", "frames")}
            if kind == "workflow" and sig is None and li in built:
                orders = [o for o, _ in sched_obs.get((li, ci), [])]
                st = source_types_by_order(built[li], case, orders)
                if len({json.dumps(v, sort_keys=True) for v in st.values()}) > 1:
                    sig = SIG_SRC
                    pl["source_types_by_listing_order"] = dict(list(st.items())[:6])
            size = len(json.dumps(case)) + len(json.dumps(j["spec"])) // 4
            failing.append((size, f"{pre}nondeterministic_{kind}_{li}_{ci}", pl, sig))

    # ---- the canonical forms against rdflib.compare.isomorphic, both ways, on a sample
    xrng = random.Random(seed + 2)
    xc = Counter()
    pool = []
    for li, j in enumerate(jobs):
        for ci, case in enumerate(j["cases"]):
            a = parent[li]["first"][ci] if not parent[li]["lang_error"] else None
            if a and a["status"] == "ok" and a["canon"] == "exact" and 8 <= a["n"] <= 160 and outs:
                b = outs[0]["results"][li]["first"][ci]
                if b["status"] == "ok":
                    pool.append((a["form"], b["form"]))
    xrng.shuffle(pool)
    for fa, fb in pool[:(30 if tier == "quick" else 150)]:
        same = rdflib_iso(fa, fb)
        if same is None:
            xc["rdflib_timeout"] += 1
            continue
        xc["pairs_compared_with_rdflib"] += 1
        if same != (fa == fb):
            xc["disagree"] += 1
            rep.violation(f"{pre}canonical_form_vs_rdflib_{xc['disagree']}", {"kind": "harness",
                "what": "the harness's canonical form and rdflib.compare.isomorphic disagree",
                "rdflib_isomorphic": same, "forms_equal": fa == fb, "first": fa[:40], "second": fb[:40]},
                has_input=False)
        pf = perturb(xrng, fa)
        if pf is not None:
            k1, c1 = I.canonical(pf)
            diff = rdflib_iso(fa, pf)
            if diff is None:
                xc["rdflib_timeout"] += 1
            else:
                xc["perturbed_compared_with_rdflib"] += 1
                xc["perturbed_non_isomorphic"] += not diff
                if diff != (c1 == fa):
                    xc["disagree"] += 1
                    rep.violation(f"{pre}canonical_form_vs_rdflib_{xc['disagree']}", {"kind": "harness",
                        "what": "the harness's canonical form and rdflib.compare.isomorphic disagree on a perturbed graph",
                        "rdflib_isomorphic": diff, "forms_equal": c1 == fa, "first": fa[:40], "second": pf[:40]},
                        has_input=False)

    failing.sort(key=lambda t: t[0])
    by_sig = Counter()
    for size, name, pl, sig in failing:
        by_sig[sig] += 1
        if by_sig[sig] <= 2:
            rep.violation(name, pl, has_input=True, signature=sig)

    # ---- correspondence: the scheduled models against the implementation
    corr = Counter()
    disagree = []
    if not replay:
        blocks, meta = [], []
        cap = 60 if tier == "quick" else 90
        want = 110 if tier == "quick" else 700
        crng = random.Random(seed + 1)
        cand = [(li, ci) for li, j in enumerate(jobs) for ci, c in enumerate(j["cases"])
                if c["kind"] == "expr" and li in built]
        crng.shuffle(cand)
        pool = []
        for li, ci in cand[:4 * want]:
            case = jobs[li]["cases"][ci]
            dep = crng.random() < 0.75
            try:
                terms, form, size, opnames = impl_expr_corr(built[li], case, dep)
            except Exception:      # noqa: BLE001 - rejected input
                corr["expr_rejected"] += 1
                continue
            if size > cap:
                corr["expr_too_large_for_model_evaluation"] += 1
                continue
            nfn = sum(t.count(" true)") for t in terms)          # function-typed arguments
            pool.append((nfn, li, ci, dep, terms, form, size, opnames))
        # half of the sample: the cases with most function-typed arguments (where the wiring
        # loops visit several objects and the schedules really differ), the rest as drawn
        rich = [t for t in pool if jobs[t[1]]["fixed"]]
        rich += sorted([t for t in pool if t not in rich], key=lambda t: -t[0])[:want // 2]
        rest = [t for t in pool if t not in rich][:want - len(rich)]
        for nfn, li, ci, dep, terms, form, size, opnames in rich + rest:
            text = (f"Eval vm_compute in run3 {'true' if dep else 'false'} "
                    f"{C.coq_list(terms)}.\n")
            blocks.append((text, 1))
            meta.append(("expr", li, ci, dep, form, opnames, size))
            corr["expr_function_typed_arguments"] += nfn
        ncanon = 40 if tier == "quick" else 400
        for _ in range(ncanon):
            cl = gen_canon_lang(crng)
            try:
                got, text = canon_impl(cl)
            except Exception:      # noqa: BLE001
                corr["canon_rejected"] += 1
                continue
            blocks.append((text, 1))
            meta.append(("canon", cl, got))
        # (a tag of its own: several checks of this property may run at the same time,
        # e.g. against different worktrees)
        tag = f"{PID}_{tier}_{os.getpid()}"
        try:
            vals = C.coq_eval_blocks(tag, HDR, blocks, nfiles=4) if blocks else []
        finally:
            for f in (C.BUILD / "cases").glob(f"{tag}_*"):
                try:
                    f.unlink()
                except OSError:
                    pass
            for f in (C.BUILD / "cases").glob(f".{tag}_*"):
                try:
                    f.unlink()
                except OSError:
                    pass
        for m, v in zip(meta, vals):
            v = v[0]
            if m[0] == "expr":
                _, li, ci, dep, form, opnames, size = m
                corr["expr_cases"] += 1
                corr["expr_with_dependencies"] += dep
                forms = [model_form(x, opnames) for x in v]
                raw = [None if x is None else sorted(map(tuple, x[1])) for x in v]
                if any(x is None for x in v):
                    corr["expr_outside_model_domain"] += 1      # add_expr asserts; the implementation did not
                    if not all(x is None for x in v):
                        disagree.append((f"model_schedules_{li}_{ci}", {"kind": "correspondence",
                            "what": "the scheduled model fails under one schedule only", "case": jobs[li]["cases"][ci]}))
                    continue
                if len({json.dumps(r) for r in raw if r is not None}) > 1 and \
                        len({json.dumps(sorted(set(r))) for r in raw}) > 1:
                    disagree.append((f"model_schedules_{li}_{ci}", {"kind": "correspondence",
                        "what": "the scheduled model yields different triple sets under different schedules "
                                "(contradicts C19_add_exprs_any_schedule: harness or model evaluation is wrong)",
                        "case": jobs[li]["cases"][ci]}))
                # as lists the three runs usually differ (the schedules do reorder calls)
                corr["expr_store_lists_differ_between_schedules"] += len({json.dumps(x[1]) for x in v}) > 1
                n_eval += 3
                if any(f != form for f in forms):
                    k = next(i for i, f in enumerate(forms) if f != form)
                    disagree.append((f"disagree_expr_{li}_{ci}", {"kind": "correspondence",
                        "what": "K_C19a: from/internal/via/depends triples of add_expr differ from the scheduled model "
                                f"(schedule #{k})", "spec": jobs[li]["spec"], "case": jobs[li]["cases"][ci],
                        "with_dependencies": dep,
                        "difference": diff_summary(form[1], forms[k][1])}))
            else:
                _, cl, got = m
                corr["canon_cases"] += 1
                sets = [None if x is None else {dec_enc(t) for t in x} for x in v]
                n_eval += 2
                corr["canon_types"] += len(got)
                if any(s is None for s in sets):
                    disagree.append((f"canon_fuel_{corr['canon_cases']}", {"kind": "correspondence",
                        "what": "expand_canon_s ran out of fuel", "language": cl}))
                    continue
                corr["canon_lists_differ_between_schedules"] += v[0] != v[1]
                if sets[0] != got or sets[1] != got:
                    again = canon_impl(cl)[0]
                    disagree.append((f"disagree_canon_{corr['canon_cases']}", {"kind": "correspondence",
                        "what": "K_C19b: Language.canon differs from expand_canon_s under some discipline",
                        "language": cl, "impl_only": sorted(map(str, got - sets[0]))[:5],
                        "model_only": sorted(map(str, sets[0] - got))[:5],
                        "impl_canon": sorted(map(str, got)), "impl_canon_recomputed": sorted(map(str, again)),
                        "disciplines_agree": sets[0] == sets[1]}))
        for name, pl in disagree[:4]:
            rep.violation(name, pl, has_input=False)

    ncases = sum(len(j["cases"]) for j in jobs)
    rep.coverage.update({
        "evaluations": n_eval,
        "distinct_nontrivial": len(distinct),
        "rule": "one evaluation = one generation of one case in one interpreter/pass/listing order, or one model "
                "evaluation under one schedule; non-trivial = distinct accepted graphs (by canonical form) that "
                "were generated in every configuration and compared",
        "cases": ncases, "graphs_accepted": n_graphs,
        "interpreters": [f"hashseed={c[0]} {C.GUARD}={c[1]} junk_objects={c[2]}" for c in confs]
                        + [THIS],
        "passes_per_interpreter": ["first (fresh language)", "again (same language, after all other cases, reverse order)",
                                   "rebuilt (language built a second time in the same process)"],
        "workflow_listing_orders_tried": n_orders,
        "nondeterministic_cases": len(failing), "by_signature": {str(k): v for k, v in by_sig.items()},
        "input_distribution": dict(dist),
        "mean_triples_per_graph": round(dist["triples"] / max(1, n_graphs), 1),
        "rejected_inputs_by_exception": dict(err_classes.most_common(8)),
        "correspondence": dict(corr), "disagreements": len(disagree),
        "canonical_form_crosscheck": dict(xc),
        "samples": samples, "exhaustive": False,
        "wall_after_proof_s": round(time.time() - t_start, 1)})
    rep.assumptions = [
        "CPython has no source of nondeterminism on these paths other than hash randomisation (str/bytes hashes, "
        "hence the iteration order of sets of URIRefs and names) and object addresses (the iteration order of "
        "sets of objects hashed by identity); both are varied, not enumerated",
        "the schedules quantifier of the theorems is over ALL iteration orders; the implementation side samples "
        "hash seeds, allocation patterns and explicit listing orders",
        "rdflib's store is modelled as a set of triples whose objects() lists in an arbitrary order",
        "canonical forms: colour refinement with individualisation; when the search budget is exceeded only an "
        "isomorphism invariant is compared (counted as compared_by_invariant_only)",
    ]
    rc = rep.finish(C.TRUSTED)
    if replay:
        print(f"replayed {ncases} case(s): nondeterministic {len(failing)}")
        if old_evidence is not None:
            (C.EVID / f"{PID}.json").write_text(old_evidence)
    try:
        import shutil
        shutil.rmtree(workdir, ignore_errors=True)
    except Exception:      # noqa: BLE001
        pass
    return rc
