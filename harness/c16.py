"""C16  Using an operator or type never changes what it means later.

proof stage     coq/props/C16.v (Infer/Frame.v): on the engine model, running a program in a
                store left behind by any history gives the shifted image of running it in
                the empty store, and leaves the old store untouched
correspondence  the probe's typed tree on /repo vs the engine model (as C04)
oracle          one Language object is put through a random history (valid parses, failing
                parses, validate, printing, instantiating, graph building, query building);
                the probe parsed afterwards must equal - structurally, node by node, or in
                its error - the probe parsed in a freshly built identical language
"""
from __future__ import annotations

import random

from . import common as C
from . import engine as E
from . import c04


def history_step(rng, h, lang, names, ops, kind):
    """One operation on the shared Language; every exception is swallowed -
    only the probe is observed."""
    import transforge as tf
    try:
        if kind in ("parse", "parsefail"):
            ninputs = rng.choice([0, 1, 2])
            input_types = [("o", rng.randrange(5, 5 + h.nbase), []) for _ in range(ninputs)]
            tree = c04.gen_expr(rng, h, ops, None, 3, ninputs)
            text = c04.render(tree, names)
            if kind == "parsefail":
                text = rng.choice([text + " )", "( " + text, text + " : Nope", text.replace("-", "9", 1),
                    text + " " + text, ": " + text])
            inputs = [tf.Source(c04.build_conc(h, t)) for t in input_types]
            e = lang.parse(text, *inputs)
            e.fix()
            str(e)
            e.tree()
        elif kind == "use_data":
            # use a constant at one particular type: `(d : K(B))`, or as an argument next to a B
            data = [o for o in ops if not o[2]]
            if data:
                d = rng.choice(data)
                b = names[rng.randrange(5, 5 + h.nbase)]
                if d[3][0] == "o" and d[3][2]:
                    lang.parse(f"({d[0]} : {names[d[3][1]]}({', '.join([b] * len(d[3][2]))}))").fix()
                else:
                    lang.parse(f"({d[0]} : {b})").fix()
        elif kind == "use_wild":
            # an operator applied to a source whose annotation leaves a parameter open: `f (- : K(_))`
            fs = [o for o in ops if o[2] and any(p_[0] == "o" and p_[2] for p_ in o[2])]
            if fs:
                f = rng.choice(fs)
                tree, inner = ("op", f[0]), {}
                for p_ in f[2]:
                    a = c04.gen_expr(rng, h, ops, p_, 0, 0, inner)
                    if a[0] == "src" and a[1] is not None and a[1][0] == "o" and a[1][2] and not c04.has_hole(a[1]):
                        a = ("src", c04.punch_hole(rng, a[1]))
                    tree = ("app", tree, a)
                lang.parse(c04.render(tree, names)).fix()
        elif kind == "use_op":
            # use one operator once, with arguments made for its parameters (constrained ones first:
            # their constraints are instantiated, filtered and resolved by the use)
            fs = [o for o in ops if o[2]]
            f = rng.choices(fs, [4 if o[1][2] else 1 for o in fs])[0]
            tree, inner = ("op", f[0]), {}
            for p_ in f[2]:
                tree = ("app", tree, c04.gen_expr(rng, h, ops, p_, 1, 0, inner))
            lang.parse(c04.render(tree, names)).fix()
        elif kind == "validate":
            lang.validate()
        elif kind == "print":
            for op in lang.operators.values():
                str(op.type)
        elif kind == "instantiate":
            for op in lang.operators.values():
                t = op.type.instance()
                if rng.random() < 0.5:
                    t.fix(prefer_lower=rng.random() < 0.5)
        elif kind == "apply":
            op = rng.choice(list(lang.operators.values()))
            t = op.type.instance()
            a = c04.build_conc(h, (rng.randrange(5, 5 + h.nbase), []))
            t.apply(a)
        elif kind == "parse_type":
            lang.parse_type(rng.choice(["_", "Top", names[5], f"{names[5]} * _", "Bottom"]))
        elif kind == "graph":
            from rdflib import BNode
            tree = c04.gen_expr(rng, h, ops, None, 2, 0)
            e = lang.parse(c04.render(tree, names))
            g = tf.TransformationGraph(lang, with_noncanonical_types=True)
            g.add_expr(e, BNode())
        elif kind == "vocab":
            g = tf.TransformationGraph(lang, with_canonical_types=True)
            g.add_vocabulary()
        elif kind == "query":
            t = lang.types[names[5]]
            q = tf.TransformationQuery.from_list(lang, [t(), [t()]])
            q.sparql()
    except Exception:  # noqa: BLE001
        pass


KINDS = ["parse", "parse", "parse", "parsefail", "parsefail", "use_data", "use_op", "use_op", "use_wild", "validate", "print", "instantiate",
         "apply", "parse_type", "graph", "vocab", "query"]


def probe(h, lang, names, tree, input_types):
    err, expr, inputs, text = c04.impl_values(h, lang, names, tree, input_types, None)
    if err is not None:
        return {"err": list(err[:2])}, text
    vals = [t.type for t in inputs]
    c04.collect_values(expr, tree, inputs, h, vals)
    c04.collect_fix(expr, tree, vals)
    return {"err": None, **E.canon(E.snap_impl(h, vals))}, text


def composite_language(h):
    """base types of h, one unary compound F, primitives wrap / unwrap / idp and polymorphic
    COMPOSITE operators defined from them (expanded by Expr.primitive())"""
    import transforge as tf
    import transforge.type as T
    hh = C.Hierarchy.from_json(h.to_json())
    ops = hh.build()
    Fop = T.TypeOperator("Fc", params=1)
    scope = {str(ops[i]): ops[i] for i in range(5, 5 + hh.nbase)}
    scope["Fc"] = Fop
    wrap = tf.Operator(type=lambda x: x ** Fop(x))
    unwrap = tf.Operator(type=lambda x: Fop(x) ** x)
    idp = tf.Operator(type=lambda x: x ** x)
    scope.update(wrap=wrap, unwrap=unwrap, idp=idp)
    scope["roundtrip"] = tf.Operator(type=lambda x: x ** x, body=lambda v: unwrap(wrap(v)))
    scope["twice"] = tf.Operator(type=lambda x: (x ** x) ** x ** x, body=lambda f, v: f(f(v)))
    scope["wrap2"] = tf.Operator(type=lambda x: x ** Fop(Fop(x)), body=lambda v: wrap(wrap(v)))
    lang = tf.Language(scope=scope, namespace="https://example.com/c16c#")
    return lang, [str(ops[i]) for i in range(5, 5 + hh.nbase)]


def alias_language(h):
    """a parameterised type alias with a wildcard in its body, Rel(x) = G2(x, _), and operators
    that read the second parameter at different types"""
    import transforge as tf
    import transforge.type as T
    hh = C.Hierarchy.from_json(h.to_json())
    ops = hh.build()
    G2 = T.TypeOperator("G2", params=2)
    bases = [ops[i] for i in range(5, 5 + hh.nbase)]
    scope = {str(b): b for b in bases}
    scope["G2"] = G2
    scope["Rel"] = T.TypeAlias(lambda x: G2(x, T._))
    scope["Pair"] = T.TypeAlias(lambda x: G2(x, x))
    for j, b in enumerate(bases):
        scope[f"take{j}"] = tf.Operator(type=(lambda b0, bj: G2(b0(), bj()) ** bj())(bases[0], b))
    lang = tf.Language(scope=scope, namespace="https://example.com/c16a#")
    return lang, [str(b) for b in bases]


def alias_histories(rep, rng, h, n, stats):
    """the same alias written several times at the same parameter: each writing stands for a
    fresh expansion, whatever was inferred about an earlier one"""
    import re
    for _ in range(n):
        lang, bases = alias_language(h)
        texts = lambda: rng.choice([f"take{rng.randrange(len(bases))} (- : Rel({bases[0]}))",
                                    f"take0 (- : Pair({bases[0]}))", f"(- : Rel({rng.choice(bases)}))"])
        hist = [texts() for _ in range(rng.randint(1, 4))]
        for t in hist:
            try:
                lang.parse(t).fix()
            except Exception:   # noqa: BLE001
                pass
        probe = texts()

        def run(L):
            try:
                e = L.parse(probe)
                return str(e.type), str(e)
            except Exception as ex:   # noqa: BLE001
                return ("error", type(ex).__name__)
        norm = lambda x: re.sub(r"[τx][0-9₀-₉]+", "v", str(x))
        after, fresh = run(lang), run(alias_language(h)[0])
        stats["alias_probes"] = stats.get("alias_probes", 0) + 1
        if norm(after) != norm(fresh):
            rep.violation(f"alias_{stats['alias_probes']}", {"kind": "oracle",
                "what": "a type alias written again after a history expands differently than in a fresh identical language",
                "hierarchy": h.to_json(), "aliases": "Rel(x) = G2(x, _); Pair(x) = G2(x, x); take<j> : G2(B0, B<j>) ** B<j>",
                "history": hist, "probe": probe, "after_history": str(after), "fresh": str(fresh)}, has_input=True)


def composite_texts(rng, bases):
    b = rng.choice(bases)
    return rng.choice([f"roundtrip (- : {b})", f"twice idp (- : {b})", f"wrap2 (- : {b})",
                       f"twice roundtrip (- : {b})", f"unwrap (wrap2 (- : {b}))",
                       f"roundtrip (- : Fc({b}))", f"wrap (roundtrip (- : {b}))"])


def typed_expansion(lang, text):
    """the expanded expression with the type of every node, or the error class"""
    try:
        e = lang.parse(text).primitive()
        e.fix()
        return e.tree() if hasattr(e, "tree") else str(e)
    except Exception as ex:   # noqa: BLE001
        return ("error", type(ex).__name__)


def composite_histories(rep, rng, h, n, stats):
    """histories that EXPAND composite operators (validate, primitive() at some type, graphs),
    then a probe expansion at another type: as in a fresh identical language"""
    import re
    for _ in range(n):
        lang, bases = composite_language(h)
        hist = []
        for _ in range(rng.randint(1, 5)):
            k = rng.choice(["validate", "expand", "expand", "expand", "parse_only"])
            t = composite_texts(rng, bases)
            hist.append((k, t))
            try:
                if k == "validate":
                    lang.validate()
                elif k == "expand":
                    lang.parse(t).primitive().fix()
                else:
                    lang.parse(t)
            except Exception:   # noqa: BLE001
                pass
        probe = composite_texts(rng, bases)
        after = typed_expansion(lang, probe)
        fresh = typed_expansion(composite_language(h)[0], probe)
        norm = lambda x: re.sub(r"[τx][0-9₀-₉]+", "v", str(x))
        stats["composite_probes"] = stats.get("composite_probes", 0) + 1
        if norm(after) != norm(fresh):
            rep.violation(f"composite_{stats['composite_probes']}", {"kind": "oracle",
                "what": "the typed expansion of a composite operator after a history differs from the one in a "
                        "fresh identical language",
                "hierarchy": h.to_json(), "operators": "wrap : x ** Fc(x); unwrap : Fc(x) ** x; idp : x ** x; "
                    "roundtrip = \\v. unwrap (wrap v) : x ** x; twice = \\f v. f (f v) : (x ** x) ** x ** x; "
                    "wrap2 = \\v. wrap (wrap v) : x ** Fc(Fc(x))",
                "history": hist, "probe": probe, "after_history": str(after), "fresh": str(fresh)}, has_input=True)


def main(tier: str, seed: int, replay: str | None = None) -> int:
    C.force_repo_on_path()
    rep = C.Report("C16", tier, seed)
    import os
    rep.proof_stage("C16" if (C.COQ / "props" / "C16.v").exists() else "C17_engine")
    rng = random.Random(seed)
    nlang, nprobe = (32, 12) if tier == "quick" else (150, 25)
    items = []
    metas = []
    n = 0
    stats = {"probe_ok": 0, "probe_err": 0, "history_ops": {}, "history_lengths": {}}
    distinct = set()
    samples = []
    for _ in range(nlang):
        h = E.gen_engine_hier(rng)
        h.build()
        ops = c04.gen_language(rng, h)
        try:
            lang, names = c04.build_language(h, ops)
        except Exception as e:  # noqa: BLE001 - a generated schema may be inconsistent at declaration
            if isinstance(e, (NameError, AttributeError, KeyError, SyntaxError)):
                raise
            continue
        progs = []
        for _ in range(nprobe):
            ninputs = rng.choice([0, 0, 1])
            input_types = [("o", rng.randrange(5, 5 + h.nbase), []) for _ in range(ninputs)]
            tree = c04.gen_expr(rng, h, ops, None, 3, ninputs)
            if rng.random() < 0.35:
                # a shallow probe of one operator with arguments made for its parameters
                fs = [o for o in ops if o[2]]
                f = rng.choices(fs, [4 if o[1][2] else 1 for o in fs])[0]
                tree, inner = ("op", f[0]), {}
                for p_ in f[2]:
                    tree = ("app", tree, c04.gen_expr(rng, h, ops, p_, 1, ninputs, inner))
            if tree[0] != "app":
                continue
            if rng.random() < 0.25:
                # the probe leaves a type parameter open somewhere: `- : K(_)`
                done = [False]

                def open_one(t):
                    if t[0] == "app":
                        return ("app", open_one(t[1]), open_one(t[2]))
                    if (not done[0] and t[0] == "src" and t[1] is not None and t[1][0] == "o" and t[1][2]
                            and not c04.has_hole(t[1])):
                        done[0] = True
                        return ("src", c04.punch_hole(rng, t[1]))
                    return t
                tree = open_one(tree)
            # a history on the shared language, then the probe
            hist = [rng.choice(KINDS) for _ in range(rng.randint(1, 12))]
            for k in hist:
                history_step(rng, h, lang, names, ops, k)
                stats["history_ops"][k] = stats["history_ops"].get(k, 0) + 1
            stats["history_lengths"][str(len(hist))] = stats["history_lengths"].get(str(len(hist)), 0) + 1
            after, text = probe(h, lang, names, tree, input_types)
            # the same probe in a freshly built identical language
            h2 = C.Hierarchy.from_json(h.to_json())
            h2.build()
            lang2, names2 = c04.build_language(h2, ops)
            fresh, _ = probe(h2, lang2, names2, tree, input_types)
            n += 1
            stats["probe_ok" if after["err"] is None else "probe_err"] += 1
            if len(hist) >= 3:
                distinct.add(text + repr(hist))
            if after != fresh:
                rep.violation(f"history_{n}", {"kind": "oracle",
                    "what": "the probe's typed expression (or error) after a history differs from the one in a fresh identical language",
                    "hierarchy": h.to_json(), "history": hist, "probe": text, "inputs": input_types,
                    "operators": {o[0]: E.schema_py(o[1], names) for o in ops},
                    "after_history": after, "fresh": fresh}, has_input=True)
            comp, root = c04.compile_case(ops, tree, input_types)
            progs.append((comp.cmds, []))
            metas.append((h.to_json(), text, after))
            if len(samples) < 3 and len(hist) >= 4 and after["err"] is None:
                samples.append({"history": hist, "probe": text, "root_type": repr(after["vals"][-1])})
        items.append((h, progs))
        composite_histories(rep, rng, h, 6 if tier == "quick" else 20, stats)
        alias_histories(rep, rng, h, 6 if tier == "quick" else 20, stats)
    dumps = E.model_eval(f"C16_{tier}", items, check=False)
    dis = 0
    for (hj, text, after), rows in zip(metas, [r for rl in dumps for r in rl]):
        mo = E.observe_model(rows)
        same = (after["err"] is None) == (mo["err"] is None) and (
            after["err"] is not None or {k: after[k] for k in ("vals", "vars", "cons")} ==
            {k: mo[k] for k in ("vals", "vars", "cons")})
        if not same:
            dis += 1
            if dis <= 5:
                rep.violation(f"K_{dis}", {"kind": "correspondence",
                    "what": "probe after a history differs from the engine model run in an empty store (K_C16)",
                    "hierarchy": hj, "probe": text, "impl": after, "model": mo}, has_input=False)
    rep.coverage.update({
        "evaluations": n, "distinct_nontrivial": len(distinct), "disagreements": dis,
        "rule": "one Language per generated language; before each probe a history of 1-12 operations drawn from "
                "valid parses, failing parses (bracket, unknown token, missing input, duplicated text, leading colon), "
                "using a constant at one particular type, using one operator on arguments made for its parameters, validate, printing signatures, instantiating/fixing operator types, applying them, parse_type with "
                "wildcards, add_expr, add_vocabulary, query construction; histories accumulate over the probes of a "
                "language; non-trivial = history of >= 3 operations; plus, per hierarchy, histories over a language with "
                "polymorphic COMPOSITE operators (validate, primitive() at some type) and a probe expansion at another type, and "
                "histories that write a parameterised type alias with a wildcard in its body several times",
        "outcome_distribution": stats, "samples": samples, "exhaustive": False})
    rep.assumptions = [
        "the model has no shared mutable definitions by construction; history independence of the model's store is the theorem, "
        "agreement of the code with the model is tested",
    ]
    return rep.finish(C.TRUSTED)
