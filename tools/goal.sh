#!/bin/bash
# usage: goal.sh file.v LINE  -- show goals after executing up to LINE (inclusive)
f=$1; n=$2
cd /verif/coq
( head -n $n $f; echo; echo "Show." ) | timeout 120 coqtop -Q theories TF -Q props TFP 2>&1 | tail -n ${3:-40}
