#!/bin/bash
# usage: recheck_seeded.sh <seed-name> <check ids...>  -- re-run checks against a stored seeded change, update meta.json
name=$1; shift
d=/verif/seeded/$name
cd /verif
git -C /repo apply $d/patch.diff || { echo "does not apply to /repo"; exit 2; }
results=""
for id in "$@"; do
  timeout 1500 ./check $id --tier quick > /tmp/recheck_$id.out 2>&1; rc=$?
  v=$(grep -E "^VIOLATION" /tmp/recheck_$id.out | head -1)
  echo "$id exit=$rc $v"
  results="$results{\"check\":\"$id\",\"exit\":$rc,\"line\":\"$v\"},"
done
git -C /repo checkout -- .
python3 - <<PY
import json
p='$d/meta.json'
m=json.load(open(p))
new=json.loads('['+'''$results'''.rstrip(',')+']')
old={c['check']:c for c in m.get('checks',[])}
for c in new: old[c['check']]=c
m['checks']=list(old.values())
json.dump(m,open(p,'w'),indent=1)
PY
