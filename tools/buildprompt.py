#!/usr/bin/env python3
import sys
pid = sys.argv[1]
extra = sys.argv[2] if len(sys.argv) > 2 else ""
print(f"""You are one of several engineers building a verification framework in /verif for the Python library quangis/transforge (checked out read-only at /repo). The technique is fixed: machine-checked proof in Coq 8.16 (installed: coqc, coqtop; stdlib only) about hand-written executable Gallina models, tied to the real code on every run by a correspondence check that runs model and implementation on the same generated inputs, plus a property oracle evaluated on the implementation.

Your job: build the complete check for property {pid}, working alone on that property.

Read first, in this order:
  1. /verif/BUILDING.md            (conventions - follow them exactly; other people work in /verif at the same time)
  2. the property {pid} in /verif/properties.jsonl (statement, quantifier, anchors) - the property text is fixed and decides what is right
  3. /verif/DESIGN.md section 2 (architecture), 2.3 (what one check does), and the plan '### {pid}' in section 4 plus the row for {pid} in section 5 (defects already seen by hand-probing; re-establish them yourself)
  4. the worked examples named in BUILDING.md (coq/theories/Sub/*.v, coq/props/C01.v, harness/c01.py, harness/c02.py, harness/common.py)
  5. the anchored code in /repo/transforge/*.py (read only; never edit /repo)

Deliver:
  * the Gallina model(s) and proofs under /verif/coq/theories/<Area>/, the property file /verif/coq/props/{pid}.v (theorems closed by `exact`, each followed by Print Assumptions, plus non-vacuity Examples), all compiling with coqc with NO axioms/Admitted (Print Assumptions must say 'Closed under the global context');
  * /verif/harness/{pid.lower()}.py with main(tier, seed, replay) as in the examples: proof stage, correspondence model-vs-/repo, oracle on the implementation, evidence; `cd /verif && ./check {pid} --tier quick` must print OK and exit 0 on the tree the property holds on, in under about a minute, and `--tier thorough` in under about 10 minutes;
  * if the pinned code genuinely violates the property: a minimal repair as /verif/proposed_fixes/{pid}.diff (tested in a scratch worktree as BUILDING.md describes: pinned test-suite baseline unchanged, your check passes with VERIF_REPO pointing at the fixed worktree and reports a VIOLATION with a concrete replay on the unfixed /repo), the model describing the FIXED code, and a proposed known_findings entry (JSON object with property, signature, what, example) in your final report. If a repair would not be small and safe, say so and propose a known-finding entry instead, and make the check recognise exactly that finding by a root-cause signature (pass signature=... to rep.violation) so that different violations still fail;
  * evidence that the check detects realistic regressions: in a scratch worktree (never /repo) try at least 4 plausible small mutations of the anchored code that keep the test-suite green, run your check with VERIF_REPO=<worktree>, and report which are caught and by which stage; strengthen the generators/oracle where one is missed. Remove scratch worktrees when done.
{extra}
Strength matters more than breadth of prose: the theorems must be the property's real universally-quantified content (all hierarchies / all types of any depth / all insertion histories ... as the property says), not examples; the correspondence must exercise the modelled code paths with mostly-valid structured inputs and report a measured input distribution; and the check must never alarm on a tree where the property holds.

Do not commit, do not edit files outside your property's own new files (see BUILDING.md). When finished, reply with: (a) new files in dependency order for _CoqProject, (b) the exported theorem names with one line each, (c) defects found with reproduction and disposition, (d) the mutation trials and results, (e) anything partial or assumed, stated plainly.""")
