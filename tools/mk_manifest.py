#!/usr/bin/env python3
"""Regenerate MANIFEST.json from the table below (kept next to the checks)."""
import json
from pathlib import Path

V = Path(__file__).resolve().parent.parent
BASELINE_OFF = ("cd /repo && env -u TRANSFORGE_VERIF /venv/bin/python -m pytest -ra -q -p no:cacheprovider "
    "--timeout=900 --continue-on-collection-errors")

NOTE = ("Trusted: Coq 8.16.1 kernel (vm_compute, no native_compute), no axioms (Print Assumptions closed under "
    "every property theorem), the hand-written Gallina model tied to /repo by the correspondence run "
    "(tested, not proved), the Python harness, CPython/rdflib.")

CHECKS = {
 "C01": ("match3/is_subtype model proved equal to the declarative order Sub (exact, total, reflexive, transitive, "
         "antisymmetric, strict) for every well-formed hierarchy and all concrete types of any depth; model run "
         "against Type.is_subtype/match/TypeOperator.subtype of /repo on generated and exhaustive small cases",
         "4 C01", "Coq proof (nested induction on types) + model/implementation correspondence"),
 "C02": ("apply_c proved to accept exactly Sub x a and return b, reject with a mismatch-family error otherwise, Top and "
         "non-function cases; unify proved equivalent to match; run against Type.apply of /repo",
         "4 C02", "Coq proof + model/implementation correspondence"),
 "C03": ("faithful fuelled Gallina model of the whole inference engine (unify/bind/above/below/check_constraints/"
         "fulfill/minimize/fix/instance/apply), tied to /repo by comparing the complete canonical store after every "
         "generated program; a witness checker proved sound w.r.t. Sub validates every accepted case (all groundings "
         "of unresolved variables from a finite pool, resolved constraints, bounded variables); C03_core_sound proves "
         "the statement unconditionally (every satisfying grounding, satisfiability, boundedness) for constraint-free "
         "schemas and C03_sub_sound extends it to schemas with subtype constraints x <= A / x < A and C03_elim_sound to elimination constraints over base-type alternatives, "
         "including 'every resolved constraint holds' (attachment invariant through bind's set merging, re-check rounds "
         "nested through fulfill -> below -> check_constraints); C03_gen_sound/_bounded/_extend/_satisfiable prove the "
         "main clause (witnessing instantiation for every accepted application, any type within the reported bounds, "
         "bounded variables never compound) for ARBITRARY constraints; C03_conc_constraints_hold extends 'every resolved "
         "constraint holds' to concrete targets/alternatives of any shape (compound, function types; strictness; "
         "pending-but-resolved); only alternatives or targets that mention variables or wildcards remain per-instance "
         "(verified checker)",
         "4 C03", "Coq proof (soundness of the engine model for arbitrary constraints) + verified per-instance checker + engine model correspondence"),
 "C05": ("on the faithful engine model: lub / permutation invariance / monotonicity proved for every hierarchy and "
         "any number of chain arguments (identity and nested covariant contexts, Top/Bottom included), glb for the "
         "contravariant reading, and C05_*_octx for ARBITRARY one-hole contexts of any arity, variance and depth with "
         "concrete siblings (polarity decides lub vs glb); C05_mixed_iff/_success/_perm/_mono: a different context and polarity per "
         "parameter and any result context r - accepted iff the greatest covariant argument is below the least "
         "contravariant one, x resolved to it by r's polarity, result r(L) / r(U), invariant under permuting the arguments; above/below characterised; C05_fix_least: fix() of any single-polarity type binds "
         "exactly the polarity-appropriate bounds and is below every instantiation within the bounds; explicit fuel "
         "bounds; remaining argument contexts decided per generated case on model and implementation",
         "4 C05", "Coq proof by induction over the argument list on the engine model + correspondence + oracle"),
 "C06": ("declarative Fits (exists instantiation with x <= alt) and a matcher proved equivalent for linear "
         "alternatives (refuted for non-linear), monotone, = Sub for concrete alternatives; engine model proved to "
         "accept iff fits for any list of base alternatives (C06_list) and, for the pattern alternatives F(b) and "
         "C(b) | R(b, _), to select the unique fitting alternative and resolve b by it, with the exact final store "
         "(C06_pat; boundary: Bottom fits every alternative and leaves b open); C06_engine_conc: accept iff fits, exact "
         "outcome and between-ness for concrete alternatives of any shape; every generated case's accept/reject compared with the verified "
         "matcher, unique-fit and between-ness oracles",
         "4 C06", "Coq proof of the fits decision procedure + engine correspondence + oracle"),
 "C07": ("annotation half of add_expr and add_type with the type_nodes memo under all nine switches, on top of the "
         "add_expr, URI and canon models: one node per concept, type = node of the inferred type (URI iff Language.uri "
         "has one), subtypeOf = exactly the canonical supertypes incl. itself, via, containsType/containsOperation = "
         "exactly the unions over the nodes, type nodes once per type with parameters in order, nothing else described; "
         "vocabulary agreement decided on predicate names read at run time from the produced graphs, the query text and "
         "vocab/transforge.ttl",
         "4 C07", "Coq proof (exact triple sets for every event list and switch combination) + correspondence + run-time vocabulary agreement"),
 "C08": ("add_expr wiring modelled over an abstract add_from: for every well-formed expression of any depth the "
         "from/internal/via triples are exactly the declaratively built flow graph of its application tree (sources "
         "shared by identity, one internal node per function-typed argument fed by every other input and by sibling "
         "operations, nested internals fed by the enclosing one), first-order case = plain tree; run against "
         "TransformationGraph.add_expr of /repo with an own isomorphism check",
         "4 C08", "Coq proof by induction on expressions + correspondence + independently built graph oracle"),
 "C10": ("expand_canon as a worklist closure (any stack order) and the repaired Language.successors modelled: canon = "
         "least closed set containing every allowed subtype of the listed types, links sound, mirrored, reachability "
         "= strict subtype among canonical types, transitive listings and subClassOf triples (and closure) exact; "
         "expand_canon proved to terminate within an explicit fuel bound over a finite universe (C10_total); "
         "pinned algorithm refuted; run against Language.canon/subtypes/supertypes/add_taxonomy/add_vocabulary",
         "4 C10", "Coq proof (worklist closure, chain lemma) + correspondence + order oracle"),
 "C09": ("add_from model: depends = transitive closure of from after every call list (any order, cycles, both "
         "flags), every prefix closed, order irrelevant; verified closure decider used as oracle on every generated "
         "expression/workflow graph and direct call history of /repo",
         "4 C09", "Coq proof by induction over insertion histories + correspondence + verified closure oracle"),
 "C04": ("expression trees are compiled to the engine program of their construction sequence; Language.parse + "
         "Expr.fix of /repo is compared with the faithful engine model on the complete typed tree; every application "
         "node of every accepted expression is validated by the checker proved sound w.r.t. Sub (all groundings from a "
         "finite pool), operator leaves are matched against their declared signature, annotations against Sub; "
         "C04_full / C04_sub_full prove the statement unconditionally (every application node, every leaf an instance "
         "of its signature, every annotation, the re-fixed tree, and every declared subtype constraint of a leaf) for "
         "operators that are constraint-free or carry subtype constraints x <= A / x < A, and C04_elim / C04_elim_full "
         "for operators that also carry elimination constraints over base-type alternatives (a resolved constrained "
         "variable lies under a declared alternative); C04_gen / C04_gen_full / C04_gen_annotations prove node typing, leaf "
         "instances, annotations and the re-fixed tree for operators with ARBITRARY constraints; C04_conc adds 'the declared "
         "constraints of a leaf hold' for concrete targets/alternatives of any shape; only alternatives that mention "
         "variables or wildcards remain per instance (verified checker)",
         "4 C04", "Coq proof (every node of every accepted expression, arbitrary operator constraints) + verified per-node checker + engine model correspondence through the real parser"),
 "C15": ("de Bruijn lambda-terms with composite operators: primitive() modelled as unfold + applicative-order "
         "normalisation; result has no composite operator and no redex, equals every normal form reachable by any "
         "reduction order (confluence proved), equals an independent leftmost-outermost evaluator, is idempotent and "
         "fuel-independent; subject reduction for a declarative typing with subsumption gives 'same or more specific "
         "type' and 'validated languages expand without type error'; run against Expr.primitive of /repo with node-level "
         "typing oracles (termination of the model is fuel-relative; typed half relies on the declarative discipline)",
         "4 C15", "Coq proof (confluence, subject reduction) + specification-model correspondence + typing oracles"),
 "C16": ("histories of parses, failed parses, validate, printing, instantiation, graph/query construction on one "
         "Language, then a probe compared with a fresh identical language and with the engine model run in an empty "
         "store; on the model C16_history proves for EVERY prior store and every well-scoped program that the run is the "
         "shifted image of the run in the empty store and leaves the old store untouched (frame), incl. after failures",
         "4 C16", "Coq proof on the engine model (frame/freshness) + history differential testing"),
 "C19": ("schedule independence of the graph models: for add_from histories, add_expr's three wiring loops under any "
         "objects() order, expand_canon under any children/stack/push order, successors, taxonomy, add_workflow under any "
         "tool_outputs order, the produced triple set is the same (15 theorems over the C08/C09/C10/C12 models); on the "
         "implementation every case is generated in fresh interpreters with different PYTHONHASHSEED (guard unset and "
         "set), again in-process after unrelated graphs, and compared up to isomorphism including all literals",
         "4 C19", "Coq proof (permutation invariance of every modelled iteration) + multi-interpreter isomorphism oracle"),
 "C20": ("TypeUnion.add / Bag.add / the emitted containsType lines modelled branch by branch over a decidable order "
         "instantiated with C01's is_subtype: union = exactly the minimal (maximal) inserted elements for every "
         "insertion sequence and permutation; for every history and every up-set P the reduced bag and the emitted "
         "pre-filter are satisfied iff every inserted requirement is; run against bag.py/query.types() of /repo with "
         "all up-sets generated by <= 3 types as oracle",
         "4 C20", "Coq proof by induction over insertion histories + correspondence + up-set oracle"),
 "C11": ("query generation modelled (assign_variables incl. unfold_tree, the chronology worklist, :depends vs "
         ":depends?, via/subtypeOf unions, TypeUnion/Bag reductions reused from C20) together with a set semantics of "
         "the generated BGP fragment and a verified matcher: for tree and DAG tasks the query matches iff the task's "
         "steps can be assigned as the property says (C11_query_spec, C11_task_spec), self-match, monotonicity incl. "
         "dropping an inner step on graphs whose depends is transitive (C11_mono_inner, tied to C09's closure), absent "
         "operator/type never match, every tested predicate is emitted; on /repo the generated SPARQL text is read back "
         "into a pattern list, evaluated by the verified matcher, by rdflib on the flattened pattern and by rdflib on the "
         "deployed query, in URI, nested-list and string-shortcut notations under the by_* switches",
         "4 C11", "Coq proof (gen = declarative assignment; Kahn completeness) + correspondence + three-way verdict oracle"),
 "C12": ("add_workflow modelled on top of the add_expr model: for every well-formed workflow (any sharing, any listing "
         "order, passthrough on/off) the map covers every resource with one node each, every tool's subgraph is the flow "
         "of its expression fed by its producers (own source nodes with passthrough off), inputs/outputs marked, and with "
         "passthrough on the graph is the flow of the inlined expression (C12_plugged, C12_inline); C12_handon_plugged "
         "extends this to tools that hand an input on (`1`, `1: T`; resources share a node exactly along hand-on chains), "
         "C12_handon_inline does the same for C12_inline - "
         "proving it exposed two KeyErrors of add_workflow, repaired in 5e78fd2/1f88f3e and refuted for the pinned model; source_types "
         "order-independent and = the Sub-least annotation (C12_source_types_perm/spec); typed half (node types vs the "
         "inlined expression, WorkflowDict vs WorkflowGraph, every listing order) is implementation-vs-implementation "
         "testing; one known finding (inference order across tools)",
         "4 C12", "Coq proof (wiring/sharing by induction on the workflow) + correspondence + isomorphism oracles"),
 "C13": ("tokenizer and the parse_expr/parse_type stack machine modelled as one structurally recursive token machine "
         "over an abstract type checker: every rendering (f x y, f(x,y), (f x) y, redundant brackets, blanks, newlines, "
         "comments, annotations) of every tree parses to the same construction sequence as programmatic building "
         "(same objects, same checker calls, same result or error); numbers, fresh sources, annotations keep the tree; "
         "Expr.match characterised; node types of parsed vs programmatically built expressions compared on /repo "
         "(typed half is tested, not proved)",
         "4 C13", "Coq proof by induction on renderings over an abstract checker + parser correspondence + typed differential oracle"),
 "C14": ("text printer + tokenizer + parse_type stack machine and uri/parse_type_uri modelled at character level: "
         "parse(print t) = t for all concrete non-function types of any depth, aliases denote their expansion, URI "
         "decode inverts URI encode, URIs injective on types and operators, names kept distinct by every Language.add "
         "history; run against /repo exhaustively to depth 3 over small languages",
         "4 C14", "Coq proof (prefix-code / stack-machine induction) + correspondence + round-trip oracle"),
 "C17": ("engine half: every Python assert of the engine is a Crash outcome of the faithful model and "
         "C17_engine_nocrash proves, for every hierarchy, fuel, schedule and program, that no run reaches one "
         "(store invariant preserved by all eight mutually recursive operations); pure readers proved to fail only by "
         "fuel and to terminate under a depth bound; C17_term_sub_prog: every program whose schemas are constraint-free "
         "or carry subtype constraints x <= A ends, within an explicit fuel bound, with a result or one of the five declared "
         "typing errors, C17_term_elim_prog: the same for schemas with elimination constraints over base-type "
         "alternatives (nested re-check rounds bounded by the number of unfulfilled elimination constraints); parser half: C17_parse_total - the fixed parser never crashes on "
         "any token list; harness: undeclared exception classes, printing, per-case time bound, token-level fuzzing of "
         "/repo against the parser model; termination with compound or variable alternatives is observed (per-case time bound), not proved",
         "4 C17", "Coq proof (invariant by induction on fuel; parser totality) + correspondence + exception-class oracle + fuzzing"),
 "C18": ("schedules proved to only permute the pending constraints (C18_permute); the property itself is REFUTED on "
         "the faithful model and on the code for the error kind (C18_refuted) and for the result when elimination "
         "constraints interact (C18_refuted_result) - two known findings, a third instance (match on bounded "
         "variables) was repaired; for the base-alternative class progE: C18_elim_kind_refuted / C18_elim_ref_refuted "
         "(error kind and the raw reference field still depend on the order) and C18_elim_round(_fuel) (one complete "
         "re-check round, nested rounds included, is order-independent on cells, constraint sets, alternatives and "
         "fulfilled flags from any store satisfying RoundPre), C18_elim_whole_reach_round (every store reachable by a progE "
         "program satisfies RoundPre), lockstep congruence, and C18_elim_final: for every progE program and any two schedules "
         "the runs fail at the same command or succeed with equal values and eqk-related stores (C18_elim_final_k); where it is true it is proved: C18_pure_checks_partial - for programs whose "
         "constraints are subtype constraints of a variable against a base type, any two schedules give the same "
         "success/failure, failing command, values and store (error kinds equal up to TypeMismatch/ConstraintViolation); for every generated program all permutations at every re-check point are imposed on "
         "/repo through the guarded hook and on the model, which must agree per schedule on the full store; divergences "
         "outside the two recorded classes are violations",
         "4 C18", "Coq refutation witnesses + permutation lemma (partial) + exhaustive schedule search via hook + per-schedule correspondence"),
}

NOT_YET = {}

def main():
    props = [json.loads(l) for l in (V / "properties.jsonl").read_text().splitlines() if l.strip()]
    checks = []
    na = []
    for p in props:
        pid = p["id"]
        if pid in CHECKS:
            text, ref, tech = CHECKS[pid]
            checks.append({
                "property_id": pid,
                "quick_cmd": f"./check {pid} --tier quick",
                "thorough_cmd": f"./check {pid} --tier thorough",
                "evidence_file": f"/verif/evidence/{pid}.json",
                "replay_cmd_template": f"./check {pid} --replay {{path}}",
                "engine": "coq-model+correspondence",
                "level_claimed": {"category": "proof", "text": text, "design_ref": f"DESIGN.md section {ref}"},
                "level_note": NOTE,
                "technique": tech,
            })
        else:
            na.append({"property_id": pid, "reason": NOT_YET.get(pid,
                "not claimed yet: Coq model and correspondence check for this property are still being built (see DESIGN.md section 8)")})
    m = {
        "version": 1,
        "setup_cmd": "cd /verif/coq && coq_makefile -f _CoqProject -o Makefile && make -j16",
        "hooks": {
            "guard": "TRANSFORGE_VERIF",
            "enable": "checks set TRANSFORGE_VERIF=1 in the environment before importing transforge from /repo (pure Python, nothing to build)",
            "baseline_off_cmd": BASELINE_OFF,
            "source_commits": [],
            "add_only": True,
        },
        "engines": [{"name": "coq-model+correspondence", "path": "/verif/check",
            "serves_properties": sorted(CHECKS),
            "kind_free_text": "Coq 8.16 theorems about hand-written Gallina models (coq/), tied to /repo by per-run "
                              "differential evaluation (harness/), property oracles on the implementation"}],
        "checks": checks,
        "not_applicable": na,
        "notes": "See DESIGN.md. known_findings.json lists genuine defects (findings and fixed).",
    }
    hooks_file = V / "hooks.json"
    if hooks_file.exists():
        m["hooks"]["source_commits"] = json.loads(hooks_file.read_text())
    (V / "MANIFEST.json").write_text(json.dumps(m, indent=1) + "\n")

if __name__ == "__main__":
    main()
