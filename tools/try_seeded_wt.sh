#!/bin/bash
# usage: try_seeded.sh <worktree-tag> <seed-name> <check ids...>
# confirms a sub-agent's mutation in its scratch worktree, stores it under seeded/, runs the checks against that
# worktree (VERIF_REPO; /repo itself is not touched, evidence of these runs goes to _build), removes the worktree.
tag=$1; name=$2; shift 2
wt=/tmp/wt_$tag
set -u
cd $wt || exit 2
[ -f MUTATION/patch.diff ] || { echo "no patch"; exit 2; }
git checkout -q -- transforge
echo "== demo on untouched tree"; PYTHONPATH=$wt timeout 300 /venv/bin/python MUTATION/demo.py > /tmp/demo_clean.out 2>&1; rc_clean=$?; tail -2 /tmp/demo_clean.out; echo "rc=$rc_clean"
git apply MUTATION/patch.diff || { echo "patch does not apply"; exit 2; }
echo "== demo with change"; PYTHONPATH=$wt timeout 300 /venv/bin/python MUTATION/demo.py > /tmp/demo_mut.out 2>&1; rc_mut=$?; tail -3 /tmp/demo_mut.out; echo "rc=$rc_mut"
echo "== test suite with change"; PYTHONPATH=$wt timeout 900 /venv/bin/python -m pytest -q -p no:cacheprovider --timeout=900 --continue-on-collection-errors tests 2>&1 | tail -4 > /tmp/suite.out; cat /tmp/suite.out
suite=$(grep -E "passed|failed" /tmp/suite.out | tail -1)
mkdir -p /verif/seeded/$name
cp MUTATION/patch.diff MUTATION/demo.py /verif/seeded/$name/
cp MUTATION/meta.json /verif/seeded/$name/agent_meta.json 2>/dev/null
cd /verif
results=""
[ "$(git -C $wt rev-parse HEAD)" = "$(git -C /repo rev-parse HEAD)" ] || { echo "worktree is not at /repo HEAD"; exit 2; }
for id in "$@"; do
  echo "== ./check $id (quick) against the change"
  VERIF_REPO=$wt timeout 1200 ./check $id --tier quick > /tmp/check_$id.out 2>&1; rc=$?
  grep -E "^(VIOLATION|OK|KNOWN)" /tmp/check_$id.out | head -3
  v=$(grep -E "^VIOLATION" /tmp/check_$id.out | head -1)
  results="$results{\"check\":\"$id\",\"exit\":$rc,\"line\":\"$v\"},"
done
python3 - <<PY
import json,os
d='/verif/seeded/$name'
a={}
try: a=json.load(open(d+'/agent_meta.json'))
except Exception: pass
m={"property":a.get("property","$name"[:3]),"summary":a.get("summary"),"needs_to_manifest":a.get("needs_to_manifest"),
   "why_tests_miss_it":a.get("why_tests_miss_it"),
   "confirmed":{"demo_rc_untouched":$rc_clean,"demo_rc_with_change":$rc_mut,"suite_with_change":"$suite".strip()},
   "what_i_ran":["demo.py on untouched worktree","demo.py with patch","pinned pytest suite with patch","VERIF_REPO=<scratch worktree with the patch> ./check <id> --tier quick"],
   "checks":json.loads('['+'''$results'''.rstrip(',')+']')}
json.dump(m,open(d+'/meta.json','w'),indent=1)
os.path.exists(d+'/agent_meta.json') and os.remove(d+'/agent_meta.json')
print(json.dumps(m["confirmed"]), json.dumps(m["checks"]))
PY
git -C /repo worktree remove --force $wt
