#!/usr/bin/env python3
"""Print the prompt for a mutation sub-agent: property text + scratch worktree only."""
import json, sys, subprocess
pid = sys.argv[1]; tag = sys.argv[2] if len(sys.argv) > 2 else pid
wt = f"/tmp/wt_{tag}"
subprocess.run(["git", "-C", "/repo", "worktree", "add", "--detach", wt, "HEAD", "-q"], check=False)
p = [json.loads(l) for l in open("/verif/properties.jsonl") if l.strip()]
p = [x for x in p if x["id"] == pid][0]
extra = sys.argv[3] if len(sys.argv) > 3 else ""
print(f"""You are testing how well a semantic property of a Python library is protected by its test suite.

Work ONLY inside the scratch git worktree {wt} (a checkout of the library quangis/transforge: a subtyping Hindley-Milner-style type inferencer, expression parser and RDF/SPARQL graph generator). Do not read or write anything under /repo or /verif, and do not commit.

Run things with:  cd {wt} && PYTHONPATH={wt} /venv/bin/python ...
Test suite:       cd {wt} && PYTHONPATH={wt} /venv/bin/python -m pytest -q -p no:cacheprovider tests
Baseline on the untouched tree: 113 passed, 2 failed (tests/test_query.py::TestAlgebra::test_multiple_outputs and ::test_sensible_order fail already) and tests/test_expr.py does not collect. That baseline must be unchanged by your change (same tests pass, same tests fail).

THE PROPERTY ({pid}: {p['title']}):
{p['statement']}
It is meant to hold over: {p['quantifier']['text']}
Code it is anchored in: {json.dumps(p['anchors']['mechanism'])}

YOUR TASK: make a small, realistic change to the library source (files under {wt}/transforge/) that BREAKS this property while the library still imports and the existing test suite gives exactly the baseline result. Realistic = the kind of regression a maintainer could introduce by a refactoring, an optimisation, a tidy-up, an off-by-one, a swapped argument, a dropped special case, a cache, a changed iteration order. It must need something SPECIFIC to manifest - an unusual input shape, a particular nesting or variance, a multi-step sequence of calls, a particular insertion order, two sites that each look fine alone - not something that ordinary use would expose at once. Do not add dead code, random behaviour, environment checks or anything that is obviously sabotage. {extra}

Then write a demonstration: a small standalone script that uses only the library's public behaviour, exits 0 (prints PASS) on the untouched tree and exits non-zero (prints FAIL and what went wrong) with your change applied. Verify both yourself (save your change with `git diff > MUTATION/patch.diff`, switch with `git checkout -- transforge` and `git apply MUTATION/patch.diff`; do NOT use `git stash` - the stash is shared with other worktrees), and verify the test-suite baseline with the change applied.

Deliver exactly these files (create the directory):
  {wt}/MUTATION/patch.diff   - output of `git diff` for the library change only (must apply with `git apply` on the untouched tree)
  {wt}/MUTATION/demo.py      - the demonstration script
  {wt}/MUTATION/meta.json    - {{"property": "{pid}", "summary": "...", "needs_to_manifest": "...", "why_tests_miss_it": "...", "commands_run": ["..."]}}
Leave the worktree with the change applied. In your final message give a 5-line summary: what you changed, the triggering input, and the observed outputs with and without the change.""")
