#!/bin/bash
# like recheck_seeded.sh but in a scratch worktree (VERIF_REPO) so that /repo itself is not touched
name=$1; shift
d=/verif/seeded/$name
wt=/tmp/rs_$name
cd /verif
git -C /repo worktree add --detach $wt HEAD -q || exit 2
git -C $wt apply $d/patch.diff || { echo "$name: patch does not apply to HEAD"; git -C /repo worktree remove --force $wt; exit 3; }
results=""
for id in "$@"; do
  VERIF_REPO=$wt timeout 1500 ./check $id --tier quick > /tmp/recheck_$id.out 2>&1; rc=$?
  v=$(grep -E "^VIOLATION" /tmp/recheck_$id.out | head -1)
  echo "$name $id exit=$rc $v"
  results="$results{\"check\":\"$id\",\"exit\":$rc,\"line\":\"$v\"},"
done
git -C /repo worktree remove --force $wt
python3 - <<PY
import json
p='$d/meta.json'
m=json.load(open(p))
new=json.loads('['+'''$results'''.rstrip(',')+']')
old={c['check']:c for c in m.get('checks',[])}
for c in new: old[c['check']]=c
m['checks']=list(old.values())
json.dump(m,open(p,'w'),indent=1)
PY
