theories/Base/Hier.vo theories/Base/Hier.glob theories/Base/Hier.v.beautified theories/Base/Hier.required_vo: theories/Base/Hier.v 
theories/Base/Hier.vio: theories/Base/Hier.v 
theories/Base/Hier.vos theories/Base/Hier.vok theories/Base/Hier.required_vos: theories/Base/Hier.v 
theories/Base/Ty.vo theories/Base/Ty.glob theories/Base/Ty.v.beautified theories/Base/Ty.required_vo: theories/Base/Ty.v theories/Base/Hier.vo
theories/Base/Ty.vio: theories/Base/Ty.v theories/Base/Hier.vio
theories/Base/Ty.vos theories/Base/Ty.vok theories/Base/Ty.required_vos: theories/Base/Ty.v theories/Base/Hier.vos
theories/Sub/Match.vo theories/Sub/Match.glob theories/Sub/Match.v.beautified theories/Sub/Match.required_vo: theories/Sub/Match.v theories/Base/Hier.vo theories/Base/Ty.vo
theories/Sub/Match.vio: theories/Sub/Match.v theories/Base/Hier.vio theories/Base/Ty.vio
theories/Sub/Match.vos theories/Sub/Match.vok theories/Sub/Match.required_vos: theories/Sub/Match.v theories/Base/Hier.vos theories/Base/Ty.vos
theories/Sub/SubSpec.vo theories/Sub/SubSpec.glob theories/Sub/SubSpec.v.beautified theories/Sub/SubSpec.required_vo: theories/Sub/SubSpec.v theories/Base/Hier.vo theories/Base/Ty.vo
theories/Sub/SubSpec.vio: theories/Sub/SubSpec.v theories/Base/Hier.vio theories/Base/Ty.vio
theories/Sub/SubSpec.vos theories/Sub/SubSpec.vok theories/Sub/SubSpec.required_vos: theories/Sub/SubSpec.v theories/Base/Hier.vos theories/Base/Ty.vos
theories/Sub/SubProofs.vo theories/Sub/SubProofs.glob theories/Sub/SubProofs.v.beautified theories/Sub/SubProofs.required_vo: theories/Sub/SubProofs.v theories/Base/Hier.vo theories/Base/Ty.vo theories/Sub/Match.vo theories/Sub/SubSpec.vo
theories/Sub/SubProofs.vio: theories/Sub/SubProofs.v theories/Base/Hier.vio theories/Base/Ty.vio theories/Sub/Match.vio theories/Sub/SubSpec.vio
theories/Sub/SubProofs.vos theories/Sub/SubProofs.vok theories/Sub/SubProofs.required_vos: theories/Sub/SubProofs.v theories/Base/Hier.vos theories/Base/Ty.vos theories/Sub/Match.vos theories/Sub/SubSpec.vos
props/C01.vo props/C01.glob props/C01.v.beautified props/C01.required_vo: props/C01.v theories/Base/Hier.vo theories/Base/Ty.vo theories/Sub/Match.vo theories/Sub/SubSpec.vo theories/Sub/SubProofs.vo
props/C01.vio: props/C01.v theories/Base/Hier.vio theories/Base/Ty.vio theories/Sub/Match.vio theories/Sub/SubSpec.vio theories/Sub/SubProofs.vio
props/C01.vos props/C01.vok props/C01.required_vos: props/C01.v theories/Base/Hier.vos theories/Base/Ty.vos theories/Sub/Match.vos theories/Sub/SubSpec.vos theories/Sub/SubProofs.vos
props/C02.vo props/C02.glob props/C02.v.beautified props/C02.required_vo: props/C02.v theories/Base/Hier.vo theories/Base/Ty.vo theories/Sub/Match.vo theories/Sub/SubSpec.vo theories/Sub/SubProofs.vo
props/C02.vio: props/C02.v theories/Base/Hier.vio theories/Base/Ty.vio theories/Sub/Match.vio theories/Sub/SubSpec.vio theories/Sub/SubProofs.vio
props/C02.vos props/C02.vok props/C02.required_vos: props/C02.v theories/Base/Hier.vos theories/Base/Ty.vos theories/Sub/Match.vos theories/Sub/SubSpec.vos theories/Sub/SubProofs.vos
