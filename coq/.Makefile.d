theories/Base/Hier.vo theories/Base/Hier.glob theories/Base/Hier.v.beautified theories/Base/Hier.required_vo: theories/Base/Hier.v 
theories/Base/Hier.vio: theories/Base/Hier.v 
theories/Base/Hier.vos theories/Base/Hier.vok theories/Base/Hier.required_vos: theories/Base/Hier.v 
theories/Base/Ty.vo theories/Base/Ty.glob theories/Base/Ty.v.beautified theories/Base/Ty.required_vo: theories/Base/Ty.v theories/Base/Hier.vo
theories/Base/Ty.vio: theories/Base/Ty.v theories/Base/Hier.vio
theories/Base/Ty.vos theories/Base/Ty.vok theories/Base/Ty.required_vos: theories/Base/Ty.v theories/Base/Hier.vos
theories/Sub/Match.vo theories/Sub/Match.glob theories/Sub/Match.v.beautified theories/Sub/Match.required_vo: theories/Sub/Match.v theories/Base/Hier.vo theories/Base/Ty.vo
theories/Sub/Match.vio: theories/Sub/Match.v theories/Base/Hier.vio theories/Base/Ty.vio
theories/Sub/Match.vos theories/Sub/Match.vok theories/Sub/Match.required_vos: theories/Sub/Match.v theories/Base/Hier.vos theories/Base/Ty.vos
theories/Sub/SubSpec.vo theories/Sub/SubSpec.glob theories/Sub/SubSpec.v.beautified theories/Sub/SubSpec.required_vo: theories/Sub/SubSpec.v theories/Base/Hier.vo theories/Base/Ty.vo
theories/Sub/SubSpec.vio: theories/Sub/SubSpec.v theories/Base/Hier.vio theories/Base/Ty.vio
theories/Sub/SubSpec.vos theories/Sub/SubSpec.vok theories/Sub/SubSpec.required_vos: theories/Sub/SubSpec.v theories/Base/Hier.vos theories/Base/Ty.vos
theories/Sub/SubProofs.vo theories/Sub/SubProofs.glob theories/Sub/SubProofs.v.beautified theories/Sub/SubProofs.required_vo: theories/Sub/SubProofs.v theories/Base/Hier.vo theories/Base/Ty.vo theories/Sub/Match.vo theories/Sub/SubSpec.vo
theories/Sub/SubProofs.vio: theories/Sub/SubProofs.v theories/Base/Hier.vio theories/Base/Ty.vio theories/Sub/Match.vio theories/Sub/SubSpec.vio
theories/Sub/SubProofs.vos theories/Sub/SubProofs.vok theories/Sub/SubProofs.required_vos: theories/Sub/SubProofs.v theories/Base/Hier.vos theories/Base/Ty.vos theories/Sub/Match.vos theories/Sub/SubSpec.vos
theories/Infer/Store.vo theories/Infer/Store.glob theories/Infer/Store.v.beautified theories/Infer/Store.required_vo: theories/Infer/Store.v theories/Base/Hier.vo theories/Base/Ty.vo
theories/Infer/Store.vio: theories/Infer/Store.v theories/Base/Hier.vio theories/Base/Ty.vio
theories/Infer/Store.vos theories/Infer/Store.vok theories/Infer/Store.required_vos: theories/Infer/Store.v theories/Base/Hier.vos theories/Base/Ty.vos
theories/Infer/Engine.vo theories/Infer/Engine.glob theories/Infer/Engine.v.beautified theories/Infer/Engine.required_vo: theories/Infer/Engine.v theories/Base/Hier.vo theories/Base/Ty.vo theories/Infer/Store.vo
theories/Infer/Engine.vio: theories/Infer/Engine.v theories/Base/Hier.vio theories/Base/Ty.vio theories/Infer/Store.vio
theories/Infer/Engine.vos theories/Infer/Engine.vok theories/Infer/Engine.required_vos: theories/Infer/Engine.v theories/Base/Hier.vos theories/Base/Ty.vos theories/Infer/Store.vos
theories/Infer/Run.vo theories/Infer/Run.glob theories/Infer/Run.v.beautified theories/Infer/Run.required_vo: theories/Infer/Run.v theories/Base/Hier.vo theories/Base/Ty.vo theories/Infer/Store.vo theories/Infer/Engine.vo
theories/Infer/Run.vio: theories/Infer/Run.v theories/Base/Hier.vio theories/Base/Ty.vio theories/Infer/Store.vio theories/Infer/Engine.vio
theories/Infer/Run.vos theories/Infer/Run.vok theories/Infer/Run.required_vos: theories/Infer/Run.v theories/Base/Hier.vos theories/Base/Ty.vos theories/Infer/Store.vos theories/Infer/Engine.vos
theories/Infer/Witness.vo theories/Infer/Witness.glob theories/Infer/Witness.v.beautified theories/Infer/Witness.required_vo: theories/Infer/Witness.v theories/Base/Hier.vo theories/Base/Ty.vo theories/Sub/Match.vo theories/Sub/SubSpec.vo theories/Sub/SubProofs.vo theories/Infer/Store.vo theories/Infer/Engine.vo
theories/Infer/Witness.vio: theories/Infer/Witness.v theories/Base/Hier.vio theories/Base/Ty.vio theories/Sub/Match.vio theories/Sub/SubSpec.vio theories/Sub/SubProofs.vio theories/Infer/Store.vio theories/Infer/Engine.vio
theories/Infer/Witness.vos theories/Infer/Witness.vok theories/Infer/Witness.required_vos: theories/Infer/Witness.v theories/Base/Hier.vos theories/Base/Ty.vos theories/Sub/Match.vos theories/Sub/SubSpec.vos theories/Sub/SubProofs.vos theories/Infer/Store.vos theories/Infer/Engine.vos
theories/Infer/Check.vo theories/Infer/Check.glob theories/Infer/Check.v.beautified theories/Infer/Check.required_vo: theories/Infer/Check.v theories/Base/Hier.vo theories/Base/Ty.vo theories/Sub/Match.vo theories/Infer/Store.vo theories/Infer/Engine.vo theories/Infer/Run.vo theories/Infer/Witness.vo
theories/Infer/Check.vio: theories/Infer/Check.v theories/Base/Hier.vio theories/Base/Ty.vio theories/Sub/Match.vio theories/Infer/Store.vio theories/Infer/Engine.vio theories/Infer/Run.vio theories/Infer/Witness.vio
theories/Infer/Check.vos theories/Infer/Check.vok theories/Infer/Check.required_vos: theories/Infer/Check.v theories/Base/Hier.vos theories/Base/Ty.vos theories/Sub/Match.vos theories/Infer/Store.vos theories/Infer/Engine.vos theories/Infer/Run.vos theories/Infer/Witness.vos
theories/Infer/Sched.vo theories/Infer/Sched.glob theories/Infer/Sched.v.beautified theories/Infer/Sched.required_vo: theories/Infer/Sched.v theories/Base/Hier.vo theories/Base/Ty.vo theories/Infer/Store.vo theories/Infer/Engine.vo theories/Infer/Run.vo
theories/Infer/Sched.vio: theories/Infer/Sched.v theories/Base/Hier.vio theories/Base/Ty.vio theories/Infer/Store.vio theories/Infer/Engine.vio theories/Infer/Run.vio
theories/Infer/Sched.vos theories/Infer/Sched.vok theories/Infer/Sched.required_vos: theories/Infer/Sched.v theories/Base/Hier.vos theories/Base/Ty.vos theories/Infer/Store.vos theories/Infer/Engine.vos theories/Infer/Run.vos
theories/Infer/Lub.vo theories/Infer/Lub.glob theories/Infer/Lub.v.beautified theories/Infer/Lub.required_vo: theories/Infer/Lub.v theories/Base/Hier.vo theories/Base/Ty.vo theories/Infer/Store.vo theories/Infer/Engine.vo theories/Infer/Run.vo
theories/Infer/Lub.vio: theories/Infer/Lub.v theories/Base/Hier.vio theories/Base/Ty.vio theories/Infer/Store.vio theories/Infer/Engine.vio theories/Infer/Run.vio
theories/Infer/Lub.vos theories/Infer/Lub.vok theories/Infer/Lub.required_vos: theories/Infer/Lub.v theories/Base/Hier.vos theories/Base/Ty.vos theories/Infer/Store.vos theories/Infer/Engine.vos theories/Infer/Run.vos
theories/Infer/Fits.vo theories/Infer/Fits.glob theories/Infer/Fits.v.beautified theories/Infer/Fits.required_vo: theories/Infer/Fits.v theories/Base/Hier.vo theories/Base/Ty.vo theories/Sub/Match.vo theories/Sub/SubSpec.vo theories/Sub/SubProofs.vo theories/Infer/Store.vo theories/Infer/Engine.vo
theories/Infer/Fits.vio: theories/Infer/Fits.v theories/Base/Hier.vio theories/Base/Ty.vio theories/Sub/Match.vio theories/Sub/SubSpec.vio theories/Sub/SubProofs.vio theories/Infer/Store.vio theories/Infer/Engine.vio
theories/Infer/Fits.vos theories/Infer/Fits.vok theories/Infer/Fits.required_vos: theories/Infer/Fits.v theories/Base/Hier.vos theories/Base/Ty.vos theories/Sub/Match.vos theories/Sub/SubSpec.vos theories/Sub/SubProofs.vos theories/Infer/Store.vos theories/Infer/Engine.vos
theories/Infer/FitsEngine.vo theories/Infer/FitsEngine.glob theories/Infer/FitsEngine.v.beautified theories/Infer/FitsEngine.required_vo: theories/Infer/FitsEngine.v theories/Base/Hier.vo theories/Base/Ty.vo theories/Sub/Match.vo theories/Sub/SubSpec.vo theories/Sub/SubProofs.vo theories/Infer/Store.vo theories/Infer/Engine.vo theories/Infer/Run.vo theories/Infer/Fits.vo
theories/Infer/FitsEngine.vio: theories/Infer/FitsEngine.v theories/Base/Hier.vio theories/Base/Ty.vio theories/Sub/Match.vio theories/Sub/SubSpec.vio theories/Sub/SubProofs.vio theories/Infer/Store.vio theories/Infer/Engine.vio theories/Infer/Run.vio theories/Infer/Fits.vio
theories/Infer/FitsEngine.vos theories/Infer/FitsEngine.vok theories/Infer/FitsEngine.required_vos: theories/Infer/FitsEngine.v theories/Base/Hier.vos theories/Base/Ty.vos theories/Sub/Match.vos theories/Sub/SubSpec.vos theories/Sub/SubProofs.vos theories/Infer/Store.vos theories/Infer/Engine.vos theories/Infer/Run.vos theories/Infer/Fits.vos
theories/Infer/Inv.vo theories/Infer/Inv.glob theories/Infer/Inv.v.beautified theories/Infer/Inv.required_vo: theories/Infer/Inv.v theories/Base/Hier.vo theories/Base/Ty.vo theories/Infer/Store.vo theories/Infer/Engine.vo theories/Infer/Run.vo
theories/Infer/Inv.vio: theories/Infer/Inv.v theories/Base/Hier.vio theories/Base/Ty.vio theories/Infer/Store.vio theories/Infer/Engine.vio theories/Infer/Run.vio
theories/Infer/Inv.vos theories/Infer/Inv.vok theories/Infer/Inv.required_vos: theories/Infer/Inv.v theories/Base/Hier.vos theories/Base/Ty.vos theories/Infer/Store.vos theories/Infer/Engine.vos theories/Infer/Run.vos
theories/Infer/Frame.vo theories/Infer/Frame.glob theories/Infer/Frame.v.beautified theories/Infer/Frame.required_vo: theories/Infer/Frame.v theories/Base/Hier.vo theories/Base/Ty.vo theories/Infer/Store.vo theories/Infer/Engine.vo theories/Infer/Run.vo theories/Infer/Inv.vo
theories/Infer/Frame.vio: theories/Infer/Frame.v theories/Base/Hier.vio theories/Base/Ty.vio theories/Infer/Store.vio theories/Infer/Engine.vio theories/Infer/Run.vio theories/Infer/Inv.vio
theories/Infer/Frame.vos theories/Infer/Frame.vok theories/Infer/Frame.required_vos: theories/Infer/Frame.v theories/Base/Hier.vos theories/Base/Ty.vos theories/Infer/Store.vos theories/Infer/Engine.vos theories/Infer/Run.vos theories/Infer/Inv.vos
theories/Graph/Closure.vo theories/Graph/Closure.glob theories/Graph/Closure.v.beautified theories/Graph/Closure.required_vo: theories/Graph/Closure.v 
theories/Graph/Closure.vio: theories/Graph/Closure.v 
theories/Graph/Closure.vos theories/Graph/Closure.vok theories/Graph/Closure.required_vos: theories/Graph/Closure.v 
theories/Graph/AddExpr.vo theories/Graph/AddExpr.glob theories/Graph/AddExpr.v.beautified theories/Graph/AddExpr.required_vo: theories/Graph/AddExpr.v 
theories/Graph/AddExpr.vio: theories/Graph/AddExpr.v 
theories/Graph/AddExpr.vos theories/Graph/AddExpr.vok theories/Graph/AddExpr.required_vos: theories/Graph/AddExpr.v 
theories/Graph/AddExprSpec.vo theories/Graph/AddExprSpec.glob theories/Graph/AddExprSpec.v.beautified theories/Graph/AddExprSpec.required_vo: theories/Graph/AddExprSpec.v theories/Graph/AddExpr.vo
theories/Graph/AddExprSpec.vio: theories/Graph/AddExprSpec.v theories/Graph/AddExpr.vio
theories/Graph/AddExprSpec.vos theories/Graph/AddExprSpec.vok theories/Graph/AddExprSpec.required_vos: theories/Graph/AddExprSpec.v theories/Graph/AddExpr.vos
theories/Graph/AddExprProofs.vo theories/Graph/AddExprProofs.glob theories/Graph/AddExprProofs.v.beautified theories/Graph/AddExprProofs.required_vo: theories/Graph/AddExprProofs.v theories/Graph/AddExpr.vo theories/Graph/AddExprSpec.vo
theories/Graph/AddExprProofs.vio: theories/Graph/AddExprProofs.v theories/Graph/AddExpr.vio theories/Graph/AddExprSpec.vio
theories/Graph/AddExprProofs.vos theories/Graph/AddExprProofs.vok theories/Graph/AddExprProofs.required_vos: theories/Graph/AddExprProofs.v theories/Graph/AddExpr.vos theories/Graph/AddExprSpec.vos
theories/Bag/Union.vo theories/Bag/Union.glob theories/Bag/Union.v.beautified theories/Bag/Union.required_vo: theories/Bag/Union.v 
theories/Bag/Union.vio: theories/Bag/Union.v 
theories/Bag/Union.vos theories/Bag/Union.vok theories/Bag/Union.required_vos: theories/Bag/Union.v 
theories/Bag/Bag.vo theories/Bag/Bag.glob theories/Bag/Bag.v.beautified theories/Bag/Bag.required_vo: theories/Bag/Bag.v theories/Bag/Union.vo
theories/Bag/Bag.vio: theories/Bag/Bag.v theories/Bag/Union.vio
theories/Bag/Bag.vos theories/Bag/Bag.vok theories/Bag/Bag.required_vos: theories/Bag/Bag.v theories/Bag/Union.vos
theories/Bag/BagTy.vo theories/Bag/BagTy.glob theories/Bag/BagTy.v.beautified theories/Bag/BagTy.required_vo: theories/Bag/BagTy.v theories/Base/Hier.vo theories/Base/Ty.vo theories/Sub/Match.vo theories/Sub/SubSpec.vo theories/Sub/SubProofs.vo theories/Bag/Union.vo theories/Bag/Bag.vo
theories/Bag/BagTy.vio: theories/Bag/BagTy.v theories/Base/Hier.vio theories/Base/Ty.vio theories/Sub/Match.vio theories/Sub/SubSpec.vio theories/Sub/SubProofs.vio theories/Bag/Union.vio theories/Bag/Bag.vio
theories/Bag/BagTy.vos theories/Bag/BagTy.vok theories/Bag/BagTy.required_vos: theories/Bag/BagTy.v theories/Base/Hier.vos theories/Base/Ty.vos theories/Sub/Match.vos theories/Sub/SubSpec.vos theories/Sub/SubProofs.vos theories/Bag/Union.vos theories/Bag/Bag.vos
theories/Parse/Lang.vo theories/Parse/Lang.glob theories/Parse/Lang.v.beautified theories/Parse/Lang.required_vo: theories/Parse/Lang.v theories/Base/Hier.vo theories/Base/Ty.vo
theories/Parse/Lang.vio: theories/Parse/Lang.v theories/Base/Hier.vio theories/Base/Ty.vio
theories/Parse/Lang.vos theories/Parse/Lang.vok theories/Parse/Lang.required_vos: theories/Parse/Lang.v theories/Base/Hier.vos theories/Base/Ty.vos
theories/Parse/Tok.vo theories/Parse/Tok.glob theories/Parse/Tok.v.beautified theories/Parse/Tok.required_vo: theories/Parse/Tok.v theories/Parse/Lang.vo
theories/Parse/Tok.vio: theories/Parse/Tok.v theories/Parse/Lang.vio
theories/Parse/Tok.vos theories/Parse/Tok.vok theories/Parse/Tok.required_vos: theories/Parse/Tok.v theories/Parse/Lang.vos
theories/Parse/TypeText.vo theories/Parse/TypeText.glob theories/Parse/TypeText.v.beautified theories/Parse/TypeText.required_vo: theories/Parse/TypeText.v theories/Base/Hier.vo theories/Base/Ty.vo theories/Parse/Lang.vo theories/Parse/Tok.vo
theories/Parse/TypeText.vio: theories/Parse/TypeText.v theories/Base/Hier.vio theories/Base/Ty.vio theories/Parse/Lang.vio theories/Parse/Tok.vio
theories/Parse/TypeText.vos theories/Parse/TypeText.vok theories/Parse/TypeText.required_vos: theories/Parse/TypeText.v theories/Base/Hier.vos theories/Base/Ty.vos theories/Parse/Lang.vos theories/Parse/Tok.vos
theories/Parse/TypeTextProofs.vo theories/Parse/TypeTextProofs.glob theories/Parse/TypeTextProofs.v.beautified theories/Parse/TypeTextProofs.required_vo: theories/Parse/TypeTextProofs.v theories/Base/Hier.vo theories/Base/Ty.vo theories/Parse/Lang.vo theories/Parse/Tok.vo theories/Parse/TypeText.vo
theories/Parse/TypeTextProofs.vio: theories/Parse/TypeTextProofs.v theories/Base/Hier.vio theories/Base/Ty.vio theories/Parse/Lang.vio theories/Parse/Tok.vio theories/Parse/TypeText.vio
theories/Parse/TypeTextProofs.vos theories/Parse/TypeTextProofs.vok theories/Parse/TypeTextProofs.required_vos: theories/Parse/TypeTextProofs.v theories/Base/Hier.vos theories/Base/Ty.vos theories/Parse/Lang.vos theories/Parse/Tok.vos theories/Parse/TypeText.vos
theories/Uri/Uri.vo theories/Uri/Uri.glob theories/Uri/Uri.v.beautified theories/Uri/Uri.required_vo: theories/Uri/Uri.v theories/Base/Hier.vo theories/Base/Ty.vo theories/Parse/Lang.vo theories/Parse/TypeText.vo
theories/Uri/Uri.vio: theories/Uri/Uri.v theories/Base/Hier.vio theories/Base/Ty.vio theories/Parse/Lang.vio theories/Parse/TypeText.vio
theories/Uri/Uri.vos theories/Uri/Uri.vok theories/Uri/Uri.required_vos: theories/Uri/Uri.v theories/Base/Hier.vos theories/Base/Ty.vos theories/Parse/Lang.vos theories/Parse/TypeText.vos
theories/Uri/UriProofs.vo theories/Uri/UriProofs.glob theories/Uri/UriProofs.v.beautified theories/Uri/UriProofs.required_vo: theories/Uri/UriProofs.v theories/Base/Hier.vo theories/Base/Ty.vo theories/Parse/Lang.vo theories/Parse/TypeText.vo theories/Uri/Uri.vo
theories/Uri/UriProofs.vio: theories/Uri/UriProofs.v theories/Base/Hier.vio theories/Base/Ty.vio theories/Parse/Lang.vio theories/Parse/TypeText.vio theories/Uri/Uri.vio
theories/Uri/UriProofs.vos theories/Uri/UriProofs.vok theories/Uri/UriProofs.required_vos: theories/Uri/UriProofs.v theories/Base/Hier.vos theories/Base/Ty.vos theories/Parse/Lang.vos theories/Parse/TypeText.vos theories/Uri/Uri.vos
theories/Parse/ExTok.vo theories/Parse/ExTok.glob theories/Parse/ExTok.v.beautified theories/Parse/ExTok.required_vo: theories/Parse/ExTok.v 
theories/Parse/ExTok.vio: theories/Parse/ExTok.v 
theories/Parse/ExTok.vos theories/Parse/ExTok.vok theories/Parse/ExTok.required_vos: theories/Parse/ExTok.v 
theories/Parse/ExParser.vo theories/Parse/ExParser.glob theories/Parse/ExParser.v.beautified theories/Parse/ExParser.required_vo: theories/Parse/ExParser.v theories/Parse/ExTok.vo
theories/Parse/ExParser.vio: theories/Parse/ExParser.v theories/Parse/ExTok.vio
theories/Parse/ExParser.vos theories/Parse/ExParser.vok theories/Parse/ExParser.required_vos: theories/Parse/ExParser.v theories/Parse/ExTok.vos
theories/Parse/ExTotal.vo theories/Parse/ExTotal.glob theories/Parse/ExTotal.v.beautified theories/Parse/ExTotal.required_vo: theories/Parse/ExTotal.v theories/Parse/ExTok.vo theories/Parse/ExParser.vo
theories/Parse/ExTotal.vio: theories/Parse/ExTotal.v theories/Parse/ExTok.vio theories/Parse/ExParser.vio
theories/Parse/ExTotal.vos theories/Parse/ExTotal.vok theories/Parse/ExTotal.required_vos: theories/Parse/ExTotal.v theories/Parse/ExTok.vos theories/Parse/ExParser.vos
theories/Parse/ExSpec.vo theories/Parse/ExSpec.glob theories/Parse/ExSpec.v.beautified theories/Parse/ExSpec.required_vo: theories/Parse/ExSpec.v theories/Parse/ExTok.vo theories/Parse/ExParser.vo
theories/Parse/ExSpec.vio: theories/Parse/ExSpec.v theories/Parse/ExTok.vio theories/Parse/ExParser.vio
theories/Parse/ExSpec.vos theories/Parse/ExSpec.vok theories/Parse/ExSpec.required_vos: theories/Parse/ExSpec.v theories/Parse/ExTok.vos theories/Parse/ExParser.vos
theories/Parse/ExRender.vo theories/Parse/ExRender.glob theories/Parse/ExRender.v.beautified theories/Parse/ExRender.required_vo: theories/Parse/ExRender.v theories/Parse/ExTok.vo theories/Parse/ExParser.vo theories/Parse/ExTotal.vo theories/Parse/ExSpec.vo
theories/Parse/ExRender.vio: theories/Parse/ExRender.v theories/Parse/ExTok.vio theories/Parse/ExParser.vio theories/Parse/ExTotal.vio theories/Parse/ExSpec.vio
theories/Parse/ExRender.vos theories/Parse/ExRender.vok theories/Parse/ExRender.required_vos: theories/Parse/ExRender.v theories/Parse/ExTok.vos theories/Parse/ExParser.vos theories/Parse/ExTotal.vos theories/Parse/ExSpec.vos
theories/Parse/ExFacts.vo theories/Parse/ExFacts.glob theories/Parse/ExFacts.v.beautified theories/Parse/ExFacts.required_vo: theories/Parse/ExFacts.v theories/Parse/ExTok.vo theories/Parse/ExParser.vo theories/Parse/ExTotal.vo theories/Parse/ExSpec.vo theories/Parse/ExRender.vo
theories/Parse/ExFacts.vio: theories/Parse/ExFacts.v theories/Parse/ExTok.vio theories/Parse/ExParser.vio theories/Parse/ExTotal.vio theories/Parse/ExSpec.vio theories/Parse/ExRender.vio
theories/Parse/ExFacts.vos theories/Parse/ExFacts.vok theories/Parse/ExFacts.required_vos: theories/Parse/ExFacts.v theories/Parse/ExTok.vos theories/Parse/ExParser.vos theories/Parse/ExTotal.vos theories/Parse/ExSpec.vos theories/Parse/ExRender.vos
theories/Parse/ExMatch.vo theories/Parse/ExMatch.glob theories/Parse/ExMatch.v.beautified theories/Parse/ExMatch.required_vo: theories/Parse/ExMatch.v theories/Base/Hier.vo theories/Base/Ty.vo theories/Sub/Match.vo theories/Sub/SubSpec.vo theories/Sub/SubProofs.vo
theories/Parse/ExMatch.vio: theories/Parse/ExMatch.v theories/Base/Hier.vio theories/Base/Ty.vio theories/Sub/Match.vio theories/Sub/SubSpec.vio theories/Sub/SubProofs.vio
theories/Parse/ExMatch.vos theories/Parse/ExMatch.vok theories/Parse/ExMatch.required_vos: theories/Parse/ExMatch.v theories/Base/Hier.vos theories/Base/Ty.vos theories/Sub/Match.vos theories/Sub/SubSpec.vos theories/Sub/SubProofs.vos
props/C01.vo props/C01.glob props/C01.v.beautified props/C01.required_vo: props/C01.v theories/Base/Hier.vo theories/Base/Ty.vo theories/Sub/Match.vo theories/Sub/SubSpec.vo theories/Sub/SubProofs.vo
props/C01.vio: props/C01.v theories/Base/Hier.vio theories/Base/Ty.vio theories/Sub/Match.vio theories/Sub/SubSpec.vio theories/Sub/SubProofs.vio
props/C01.vos props/C01.vok props/C01.required_vos: props/C01.v theories/Base/Hier.vos theories/Base/Ty.vos theories/Sub/Match.vos theories/Sub/SubSpec.vos theories/Sub/SubProofs.vos
props/C02.vo props/C02.glob props/C02.v.beautified props/C02.required_vo: props/C02.v theories/Base/Hier.vo theories/Base/Ty.vo theories/Sub/Match.vo theories/Sub/SubSpec.vo theories/Sub/SubProofs.vo
props/C02.vio: props/C02.v theories/Base/Hier.vio theories/Base/Ty.vio theories/Sub/Match.vio theories/Sub/SubSpec.vio theories/Sub/SubProofs.vio
props/C02.vos props/C02.vok props/C02.required_vos: props/C02.v theories/Base/Hier.vos theories/Base/Ty.vos theories/Sub/Match.vos theories/Sub/SubSpec.vos theories/Sub/SubProofs.vos
props/C03.vo props/C03.glob props/C03.v.beautified props/C03.required_vo: props/C03.v theories/Base/Hier.vo theories/Base/Ty.vo theories/Sub/Match.vo theories/Sub/SubSpec.vo theories/Infer/Store.vo theories/Infer/Engine.vo theories/Infer/Run.vo theories/Infer/Witness.vo theories/Infer/Check.vo
props/C03.vio: props/C03.v theories/Base/Hier.vio theories/Base/Ty.vio theories/Sub/Match.vio theories/Sub/SubSpec.vio theories/Infer/Store.vio theories/Infer/Engine.vio theories/Infer/Run.vio theories/Infer/Witness.vio theories/Infer/Check.vio
props/C03.vos props/C03.vok props/C03.required_vos: props/C03.v theories/Base/Hier.vos theories/Base/Ty.vos theories/Sub/Match.vos theories/Sub/SubSpec.vos theories/Infer/Store.vos theories/Infer/Engine.vos theories/Infer/Run.vos theories/Infer/Witness.vos theories/Infer/Check.vos
props/C18.vo props/C18.glob props/C18.v.beautified props/C18.required_vo: props/C18.v theories/Base/Hier.vo theories/Base/Ty.vo theories/Infer/Store.vo theories/Infer/Engine.vo theories/Infer/Run.vo theories/Infer/Sched.vo
props/C18.vio: props/C18.v theories/Base/Hier.vio theories/Base/Ty.vio theories/Infer/Store.vio theories/Infer/Engine.vio theories/Infer/Run.vio theories/Infer/Sched.vio
props/C18.vos props/C18.vok props/C18.required_vos: props/C18.v theories/Base/Hier.vos theories/Base/Ty.vos theories/Infer/Store.vos theories/Infer/Engine.vos theories/Infer/Run.vos theories/Infer/Sched.vos
props/C17.vo props/C17.glob props/C17.v.beautified props/C17.required_vo: props/C17.v theories/Base/Hier.vo theories/Base/Ty.vo theories/Infer/Store.vo theories/Infer/Engine.vo theories/Infer/Run.vo
props/C17.vio: props/C17.v theories/Base/Hier.vio theories/Base/Ty.vio theories/Infer/Store.vio theories/Infer/Engine.vio theories/Infer/Run.vio
props/C17.vos props/C17.vok props/C17.required_vos: props/C17.v theories/Base/Hier.vos theories/Base/Ty.vos theories/Infer/Store.vos theories/Infer/Engine.vos theories/Infer/Run.vos
props/C17_engine.vo props/C17_engine.glob props/C17_engine.v.beautified props/C17_engine.required_vo: props/C17_engine.v theories/Base/Hier.vo theories/Base/Ty.vo theories/Infer/Store.vo theories/Infer/Engine.vo theories/Infer/Run.vo theories/Infer/Inv.vo
props/C17_engine.vio: props/C17_engine.v theories/Base/Hier.vio theories/Base/Ty.vio theories/Infer/Store.vio theories/Infer/Engine.vio theories/Infer/Run.vio theories/Infer/Inv.vio
props/C17_engine.vos props/C17_engine.vok props/C17_engine.required_vos: props/C17_engine.v theories/Base/Hier.vos theories/Base/Ty.vos theories/Infer/Store.vos theories/Infer/Engine.vos theories/Infer/Run.vos theories/Infer/Inv.vos
props/C05.vo props/C05.glob props/C05.v.beautified props/C05.required_vo: props/C05.v theories/Base/Hier.vo theories/Base/Ty.vo theories/Infer/Store.vo theories/Infer/Engine.vo theories/Infer/Run.vo theories/Infer/Lub.vo
props/C05.vio: props/C05.v theories/Base/Hier.vio theories/Base/Ty.vio theories/Infer/Store.vio theories/Infer/Engine.vio theories/Infer/Run.vio theories/Infer/Lub.vio
props/C05.vos props/C05.vok props/C05.required_vos: props/C05.v theories/Base/Hier.vos theories/Base/Ty.vos theories/Infer/Store.vos theories/Infer/Engine.vos theories/Infer/Run.vos theories/Infer/Lub.vos
props/C06.vo props/C06.glob props/C06.v.beautified props/C06.required_vo: props/C06.v theories/Base/Hier.vo theories/Base/Ty.vo theories/Sub/Match.vo theories/Sub/SubSpec.vo theories/Sub/SubProofs.vo theories/Infer/Store.vo theories/Infer/Engine.vo theories/Infer/Run.vo theories/Infer/Fits.vo theories/Infer/FitsEngine.vo
props/C06.vio: props/C06.v theories/Base/Hier.vio theories/Base/Ty.vio theories/Sub/Match.vio theories/Sub/SubSpec.vio theories/Sub/SubProofs.vio theories/Infer/Store.vio theories/Infer/Engine.vio theories/Infer/Run.vio theories/Infer/Fits.vio theories/Infer/FitsEngine.vio
props/C06.vos props/C06.vok props/C06.required_vos: props/C06.v theories/Base/Hier.vos theories/Base/Ty.vos theories/Sub/Match.vos theories/Sub/SubSpec.vos theories/Sub/SubProofs.vos theories/Infer/Store.vos theories/Infer/Engine.vos theories/Infer/Run.vos theories/Infer/Fits.vos theories/Infer/FitsEngine.vos
props/C09.vo props/C09.glob props/C09.v.beautified props/C09.required_vo: props/C09.v theories/Graph/Closure.vo
props/C09.vio: props/C09.v theories/Graph/Closure.vio
props/C09.vos props/C09.vok props/C09.required_vos: props/C09.v theories/Graph/Closure.vos
props/C04.vo props/C04.glob props/C04.v.beautified props/C04.required_vo: props/C04.v theories/Base/Hier.vo theories/Base/Ty.vo theories/Sub/Match.vo theories/Sub/SubSpec.vo theories/Infer/Store.vo theories/Infer/Engine.vo theories/Infer/Run.vo theories/Infer/Witness.vo theories/Infer/Check.vo
props/C04.vio: props/C04.v theories/Base/Hier.vio theories/Base/Ty.vio theories/Sub/Match.vio theories/Sub/SubSpec.vio theories/Infer/Store.vio theories/Infer/Engine.vio theories/Infer/Run.vio theories/Infer/Witness.vio theories/Infer/Check.vio
props/C04.vos props/C04.vok props/C04.required_vos: props/C04.v theories/Base/Hier.vos theories/Base/Ty.vos theories/Sub/Match.vos theories/Sub/SubSpec.vos theories/Infer/Store.vos theories/Infer/Engine.vos theories/Infer/Run.vos theories/Infer/Witness.vos theories/Infer/Check.vos
props/C20.vo props/C20.glob props/C20.v.beautified props/C20.required_vo: props/C20.v theories/Base/Hier.vo theories/Base/Ty.vo theories/Sub/Match.vo theories/Sub/SubSpec.vo theories/Sub/SubProofs.vo theories/Bag/Union.vo theories/Bag/Bag.vo theories/Bag/BagTy.vo
props/C20.vio: props/C20.v theories/Base/Hier.vio theories/Base/Ty.vio theories/Sub/Match.vio theories/Sub/SubSpec.vio theories/Sub/SubProofs.vio theories/Bag/Union.vio theories/Bag/Bag.vio theories/Bag/BagTy.vio
props/C20.vos props/C20.vok props/C20.required_vos: props/C20.v theories/Base/Hier.vos theories/Base/Ty.vos theories/Sub/Match.vos theories/Sub/SubSpec.vos theories/Sub/SubProofs.vos theories/Bag/Union.vos theories/Bag/Bag.vos theories/Bag/BagTy.vos
props/C14.vo props/C14.glob props/C14.v.beautified props/C14.required_vo: props/C14.v theories/Base/Hier.vo theories/Base/Ty.vo theories/Parse/Lang.vo theories/Parse/Tok.vo theories/Parse/TypeText.vo theories/Parse/TypeTextProofs.vo theories/Uri/Uri.vo theories/Uri/UriProofs.vo
props/C14.vio: props/C14.v theories/Base/Hier.vio theories/Base/Ty.vio theories/Parse/Lang.vio theories/Parse/Tok.vio theories/Parse/TypeText.vio theories/Parse/TypeTextProofs.vio theories/Uri/Uri.vio theories/Uri/UriProofs.vio
props/C14.vos props/C14.vok props/C14.required_vos: props/C14.v theories/Base/Hier.vos theories/Base/Ty.vos theories/Parse/Lang.vos theories/Parse/Tok.vos theories/Parse/TypeText.vos theories/Parse/TypeTextProofs.vos theories/Uri/Uri.vos theories/Uri/UriProofs.vos
props/C13.vo props/C13.glob props/C13.v.beautified props/C13.required_vo: props/C13.v theories/Base/Hier.vo theories/Base/Ty.vo theories/Sub/Match.vo theories/Parse/ExTok.vo theories/Parse/ExParser.vo theories/Parse/ExSpec.vo theories/Parse/ExRender.vo theories/Parse/ExFacts.vo theories/Parse/ExMatch.vo
props/C13.vio: props/C13.v theories/Base/Hier.vio theories/Base/Ty.vio theories/Sub/Match.vio theories/Parse/ExTok.vio theories/Parse/ExParser.vio theories/Parse/ExSpec.vio theories/Parse/ExRender.vio theories/Parse/ExFacts.vio theories/Parse/ExMatch.vio
props/C13.vos props/C13.vok props/C13.required_vos: props/C13.v theories/Base/Hier.vos theories/Base/Ty.vos theories/Sub/Match.vos theories/Parse/ExTok.vos theories/Parse/ExParser.vos theories/Parse/ExSpec.vos theories/Parse/ExRender.vos theories/Parse/ExFacts.vos theories/Parse/ExMatch.vos
props/C17_parser.vo props/C17_parser.glob props/C17_parser.v.beautified props/C17_parser.required_vo: props/C17_parser.v theories/Parse/ExTok.vo theories/Parse/ExParser.vo theories/Parse/ExTotal.vo
props/C17_parser.vio: props/C17_parser.v theories/Parse/ExTok.vio theories/Parse/ExParser.vio theories/Parse/ExTotal.vio
props/C17_parser.vos props/C17_parser.vok props/C17_parser.required_vos: props/C17_parser.v theories/Parse/ExTok.vos theories/Parse/ExParser.vos theories/Parse/ExTotal.vos
props/C16.vo props/C16.glob props/C16.v.beautified props/C16.required_vo: props/C16.v theories/Base/Hier.vo theories/Base/Ty.vo theories/Infer/Store.vo theories/Infer/Engine.vo theories/Infer/Run.vo theories/Infer/Inv.vo theories/Infer/Frame.vo
props/C16.vio: props/C16.v theories/Base/Hier.vio theories/Base/Ty.vio theories/Infer/Store.vio theories/Infer/Engine.vio theories/Infer/Run.vio theories/Infer/Inv.vio theories/Infer/Frame.vio
props/C16.vos props/C16.vok props/C16.required_vos: props/C16.v theories/Base/Hier.vos theories/Base/Ty.vos theories/Infer/Store.vos theories/Infer/Engine.vos theories/Infer/Run.vos theories/Infer/Inv.vos theories/Infer/Frame.vos
props/C08.vo props/C08.glob props/C08.v.beautified props/C08.required_vo: props/C08.v theories/Graph/AddExpr.vo theories/Graph/AddExprSpec.vo theories/Graph/AddExprProofs.vo
props/C08.vio: props/C08.v theories/Graph/AddExpr.vio theories/Graph/AddExprSpec.vio theories/Graph/AddExprProofs.vio
props/C08.vos props/C08.vok props/C08.required_vos: props/C08.v theories/Graph/AddExpr.vos theories/Graph/AddExprSpec.vos theories/Graph/AddExprProofs.vos
