(* Proofs about the URI model: decoding inverts encoding on every canonical
   type, hence URIs identify types; operator URIs identify operators; and the
   pinned decoder is refuted by a concrete type. *)
From Coq Require Import List Arith Bool Lia.
Import ListNotations.
From TF Require Import Base.Hier Base.Ty Parse.Lang Parse.TypeText Uri.Uri.

(* ------------------------------------------------------------------ *)
(* join / split *)

Lemma join_app {A} (sep : list A) l1 : forall l2, l1 <> [] -> l2 <> [] ->
  join sep (l1 ++ l2) = join sep l1 ++ sep ++ join sep l2.
Proof.
  induction l1 as [|x l1 IH]; intros l2 H1 H2; [congruence|].
  destruct l1 as [|y l1].
  - cbn [app join]. destruct l2; [congruence | reflexivity].
  - change (join sep ((x :: y :: l1) ++ l2)) with (x ++ sep ++ join sep ((y :: l1) ++ l2)).
    rewrite IH by (auto; discriminate).
    change (join sep (x :: y :: l1)) with (x ++ sep ++ join sep (y :: l1)).
    now rewrite <- !app_assoc.
Qed.

Lemma join_flat {A B C} (sep : list C) (f : B -> list C) (g : A -> list B) l :
  Forall (fun x => g x <> []) l ->
  join sep (map f (flat_map g l)) = join sep (map (fun x => join sep (map f (g x))) l).
Proof.
  induction 1 as [|x l Hx Hl IH]; [reflexivity|].
  cbn [flat_map map]. destruct l as [|y l].
  - cbn [flat_map map join]. now rewrite app_nil_r.
  - rewrite map_app. rewrite join_app.
    + rewrite IH. reflexivity.
    + destruct (g x); [congruence | discriminate].
    + inversion Hl; subst. cbn [flat_map]. destruct (g y); [congruence | discriminate].
Qed.

Lemma split_on_nonempty c s : split_on c s <> [].
Proof.
  induction s as [|x s IH]; cbn [split_on]; [discriminate|].
  destruct (x =? c); [discriminate|]. destruct (split_on c s); discriminate.
Qed.

Lemma split_app c a : forall b, split_on c (a ++ c :: b) = split_on c a ++ split_on c b.
Proof.
  induction a as [|x a IH]; intros b.
  - cbn [app split_on]. now rewrite Nat.eqb_refl.
  - cbn [app split_on]. destruct (x =? c); [now rewrite IH|].
    rewrite IH. destruct (split_on c a) eqn:E; [now apply split_on_nonempty in E | reflexivity].
Qed.

Lemma split_nochar c s : nochar c s = true -> split_on c s = [s].
Proof.
  unfold nochar. induction s as [|x s IH]; intros H; [reflexivity|].
  cbn [forallb] in H. apply andb_true_iff in H as [Hx Hs].
  cbn [split_on]. apply negb_true_iff in Hx. rewrite Hx. now rewrite IH.
Qed.

Lemma split_join c names : names <> [] -> forallb (nochar c) names = true ->
  split_on c (join [c] names) = names.
Proof.
  induction names as [|x names IH]; intros Hne H; [congruence|].
  cbn [forallb] in H. apply andb_true_iff in H as [Hx Hn].
  destruct names as [|y names].
  - cbn [join]. now apply split_nochar.
  - change (join [c] (x :: y :: names)) with (x ++ [c] ++ join [c] (y :: names)).
    cbn [app]. rewrite split_app, (split_nochar c x Hx), IH by (auto; discriminate). reflexivity.
Qed.

Lemma last_seg_app c a b : nochar c b = true -> last_seg c (a ++ c :: b) = b.
Proof.
  intros H. unfold last_seg. rewrite split_app, (split_nochar c b H). apply last_last.
Qed.

Lemma last_seg_nochar c s : nochar c s = true -> last_seg c s = s.
Proof. intros H. unfold last_seg. now rewrite (split_nochar c s H). Qed.

Lemma nochar_app c a b : nochar c (a ++ b) = nochar c a && nochar c b.
Proof. apply forallb_app. Qed.

Lemma nochar_join c sep names : nochar c sep = true -> forallb (nochar c) names = true ->
  nochar c (join sep names) = true.
Proof.
  intros Hs. induction names as [|x names IH]; intros H; [reflexivity|].
  cbn [forallb] in H. apply andb_true_iff in H as [Hx Hn].
  destruct names as [|y names]; [exact Hx|].
  change (join sep (x :: y :: names)) with (x ++ sep ++ join sep (y :: names)).
  rewrite !nochar_app, Hx, Hs, IH by auto. reflexivity.
Qed.

Lemma name_eqb_longer (l p : list nat) : p <> [] -> name_eqb l (p ++ l) = false.
Proof.
  intros Hp. apply name_eqb_neq. intros E. apply (f_equal (@length nat)) in E.
  rewrite app_length in E. destruct p; [congruence | cbn in E; lia].
Qed.

(* shorten recovers the local part of a namespaced URI *)
Lemma shorten_ns ns l : wf_nsb ns = true -> l <> [] ->
  nochar c_hash l = true -> nochar c_slash l = true -> shorten (ns ++ l) = l.
Proof.
  unfold wf_nsb. intros W Hl H1 H2.
  destruct (rev ns) as [|c r] eqn:E; [discriminate|].
  assert (Hns : ns = rev r ++ [c]).
  { apply (f_equal (@rev nat)) in E. rewrite rev_involutive in E. exact E. }
  assert (Hnil : is_nil l = false) by (destruct l; [congruence | reflexivity]).
  unfold shorten. apply orb_true_iff in W as [W|W].
  - apply Nat.eqb_eq in W. subst c. rewrite Hns, <- app_assoc. cbn [app].
    rewrite (last_seg_app c_hash (rev r) l H1).
    replace (rev r ++ c_hash :: l) with ((rev r ++ [c_hash]) ++ l) by now rewrite <- app_assoc.
    rewrite name_eqb_longer by (destruct (rev r); discriminate). now rewrite Hnil.
  - apply andb_true_iff in W as [W Wn]. apply Nat.eqb_eq in W. subst c.
    rewrite (last_seg_nochar c_hash (ns ++ l)) by (rewrite nochar_app, Wn, H1; reflexivity).
    rewrite name_eqb_refl. rewrite Hns, <- app_assoc. cbn [app].
    rewrite (last_seg_app c_slash (rev r) l H2). now rewrite Hnil.
Qed.

(* ------------------------------------------------------------------ *)
(* names *)

Definition op_okb (L : lang) (o : nat) : bool :=
  (o <? 3) || (o =? Product) || (5 <=? o) && (o - 5 <? length (l_types L)).

Lemma lang_uri_ok_spec L : lang_uri_okb L = true ->
  NoDup (all_names L) /\ forall n, In n (all_names L) -> uri_nameb n = true.
Proof.
  unfold lang_uri_okb. intros H. apply andb_true_iff in H as [H1 H2].
  split; [now apply nodupb_NoDup|]. now rewrite forallb_forall in H2.
Qed.

Lemma uri_nameb_spec n : uri_nameb n = true ->
  n <> [] /\ nochar c_dash n = true /\ nochar c_hash n = true /\ nochar c_slash n = true
  /\ ~ In n builtin_names.
Proof.
  unfold uri_nameb. intros H.
  apply andb_true_iff in H as [H H5]. apply andb_true_iff in H as [H H4].
  apply andb_true_iff in H as [H H3]. apply andb_true_iff in H as [H1 H2].
  repeat split; auto.
  - intros ->. discriminate.
  - apply negb_true_iff in H5. now apply existsb_name_notIn.
Qed.

Lemma types_in_all L n : In n (map fst (l_types L)) -> In n (all_names L).
Proof. intros H. unfold all_names. apply in_or_app. now left. Qed.

Lemma ops_in_all L n : In n (l_ops L) -> In n (all_names L).
Proof. intros H. unfold all_names. apply in_or_app. right. apply in_or_app. now right. Qed.

Lemma op_name_ok L : lang_uri_okb L = true -> forall o, op_okb L o = true ->
  uri_nameb (op_name L o) = true \/ In (op_name L o) [n_Top; n_Bottom; n_Unit; n_Product].
Proof.
  intros HL o Ho. unfold op_okb in Ho.
  apply orb_true_iff in Ho as [Ho|Ho]; [apply orb_true_iff in Ho as [Ho|Ho]|].
  - right. apply Nat.ltb_lt in Ho. destruct o as [|[|[|o]]]; cbn; auto. lia.
  - right. apply Nat.eqb_eq in Ho. subst o. cbn. auto.
  - left. apply andb_true_iff in Ho as [H5 Hlt]. apply Nat.leb_le in H5. apply Nat.ltb_lt in Hlt.
    replace o with (5 + (o - 5)) by lia.
    change (op_name L (5 + (o - 5))) with
      (match nth_error (l_types L) (o - 5) with Some (n, _) => n | None => [] end).
    destruct (nth_error (l_types L) (o - 5)) as [[n a]|] eqn:E.
    + apply lang_uri_ok_spec in HL as [_ Hn]. apply Hn, types_in_all.
      eapply nth_error_fst_In; eauto.
    + apply nth_error_None in E. lia.
Qed.

(* every operator name of the domain is non-empty and free of '-', '#', '/' *)
Lemma op_name_chars L : lang_uri_okb L = true -> forall o, op_okb L o = true ->
  op_name L o <> [] /\ nochar c_dash (op_name L o) = true
  /\ nochar c_hash (op_name L o) = true /\ nochar c_slash (op_name L o) = true.
Proof.
  intros HL o Ho. destruct (op_name_ok L HL o Ho) as [H|H].
  - apply uri_nameb_spec in H as (H1 & H2 & H3 & H4 & _). auto.
  - cbn [In] in H. destruct H as [<-|[<-|[<-|[<-|[]]]]]; repeat split; discriminate.
Qed.

Lemma resolve_op L : lang_uri_okb L = true -> forall o, op_okb L o = true ->
  resolve_name L (op_name L o) = Some o.
Proof.
  intros HL o Ho. unfold op_okb in Ho.
  apply orb_true_iff in Ho as [Ho|Ho]; [apply orb_true_iff in Ho as [Ho|Ho]|].
  - apply Nat.ltb_lt in Ho. destruct o as [|[|[|o]]]; try reflexivity. lia.
  - apply Nat.eqb_eq in Ho. subst o. reflexivity.
  - apply andb_true_iff in Ho as [H5 Hlt]. apply Nat.leb_le in H5. apply Nat.ltb_lt in Hlt.
    replace o with (5 + (o - 5)) by lia. set (i := o - 5) in *.
    change (op_name L (5 + i)) with
      (match nth_error (l_types L) i with Some (n, _) => n | None => [] end).
    destruct (nth_error (l_types L) i) as [[n a]|] eqn:E; [|apply nth_error_None in E; lia].
    pose proof (lang_uri_ok_spec L HL) as [ND Hn].
    assert (Hin : In n (map fst (l_types L))) by (eapply nth_error_fst_In; eauto).
    apply types_in_all, Hn, uri_nameb_spec in Hin as (_ & _ & _ & _ & NB).
    unfold resolve_name.
    rewrite !name_eqb_neq; try (intros ->; apply NB; cbn; tauto).
    unfold all_names in ND. apply NoDup_app_l in ND.
    rewrite (find_idx_nth (l_types L) ND i n a 5 E). reflexivity.
Qed.

Lemma resolve_all_app L a : forall b x y,
  resolve_all L a = Some x -> resolve_all L b = Some y -> resolve_all L (a ++ b) = Some (x ++ y).
Proof.
  induction a as [|n a IH]; intros b x y Ha Hb.
  - injection Ha as <-. exact Hb.
  - cbn [resolve_all app] in *. destruct (resolve_name L n); [|discriminate].
    destruct (resolve_all L a) as [xs|] eqn:E; [|discriminate].
    injection Ha as <-. now rewrite (IH b xs y eq_refl Hb).
Qed.

(* ------------------------------------------------------------------ *)
(* the domain *)

Lemma uri_domb_inv L o args : uri_domb L (TOp o args) = true ->
  op_okb L o = true /\ op_arity L o = length args /\ (o =? Function) = false
  /\ forallb (uri_domb L) args = true.
Proof.
  cbn [uri_domb]. intros H. apply andb_true_iff in H as [H Hall].
  repeat split; [| | |exact Hall]; unfold op_okb.
  - apply orb_true_iff in H as [H|H]; [apply orb_true_iff in H as [H|H]|].
    + apply andb_true_iff in H as [H _]. now rewrite H.
    + apply andb_true_iff in H as [H _]. rewrite H. now rewrite orb_true_r.
    + apply andb_true_iff in H as [H5 H]. rewrite H5.
      destruct (nth_error (l_types L) (o - 5)) eqn:E; [|discriminate].
      assert (o - 5 < length (l_types L)) as Hlt by (apply nth_error_Some; congruence).
      apply Nat.ltb_lt in Hlt. rewrite Hlt. now rewrite orb_true_r.
  - apply orb_true_iff in H as [H|H]; [apply orb_true_iff in H as [H|H]|].
    + apply andb_true_iff in H as [H1 H2]. apply Nat.ltb_lt in H1. apply Nat.eqb_eq in H2.
      rewrite H2. destruct o as [|[|[|o]]]; try reflexivity. lia.
    + apply andb_true_iff in H as [H1 H2]. apply Nat.eqb_eq in H1, H2. subst o. now rewrite H2.
    + apply andb_true_iff in H as [H5 H]. apply Nat.leb_le in H5.
      destruct (nth_error (l_types L) (o - 5)) as [[n a]|] eqn:E; [|discriminate].
      apply Nat.eqb_eq in H. replace o with (5 + (o - 5)) by lia.
      change (op_arity L (5 + (o - 5))) with
        (match nth_error (l_types L) (o - 5) with Some (_, a) => a | None => 0 end).
      rewrite E. auto.
  - apply orb_true_iff in H as [H|H]; [apply orb_true_iff in H as [H|H]|].
    + apply andb_true_iff in H as [H1 _]. apply Nat.ltb_lt in H1. apply Nat.eqb_neq. unfold Function. lia.
    + apply andb_true_iff in H as [H1 _]. apply Nat.eqb_eq in H1. now subst o.
    + apply andb_true_iff in H as [H5 _]. apply Nat.leb_le in H5. apply Nat.eqb_neq. unfold Function. lia.
Qed.

Lemma pre_nonempty t : pre t <> [].
Proof. destruct t. discriminate. Qed.

Lemma pre_ok L t : uri_domb L t = true -> forallb (op_okb L) (pre t) = true.
Proof.
  induction t as [o args IH] using ty_ind'. intros W.
  apply uri_domb_inv in W as (Ho & _ & _ & Hall). cbn [pre forallb]. rewrite Ho. cbn [andb].
  rewrite forallb_forall in Hall |- *. rewrite Forall_forall in IH.
  intros x Hx. apply in_flat_map in Hx as (a & Ha & Hx).
  specialize (IH a Ha (Hall a Ha)). rewrite forallb_forall in IH. auto.
Qed.

(* the URI text of a type is its operator names in prefix order, joined by '-' *)
Lemma uri_text_join L t : uri_domb L t = true ->
  uri_text L t = join [c_dash] (map (op_name L) (pre t)).
Proof.
  induction t as [o args IH] using ty_ind'. intros W.
  apply uri_domb_inv in W as (_ & _ & HF & Hall).
  unfold uri_text in *. cbn [text]. rewrite HF. cbn [is_nil negb]. rewrite andb_false_r.
  cbn [pre map].
  assert (HM : map (text L [c_dash] [c_dash] [] [32; 42; 42; 32] []) args
               = map (fun a => join [c_dash] (map (op_name L) (pre a))) args).
  { apply map_ext_in. intros a Ha. rewrite Forall_forall in IH. apply IH; auto.
    rewrite forallb_forall in Hall. auto. }
  destruct args as [|a args]; [reflexivity|].
  rewrite HM, app_nil_r. unfold name in *.
  rewrite <- (join_flat [c_dash] (op_name L) pre (a :: args))
    by (apply Forall_forall; intros; apply pre_nonempty).
  assert (flat_map pre (a :: args) <> []) as Hne.
  { cbn [flat_map]. destruct (pre a) eqn:E; [now apply pre_nonempty in E | discriminate]. }
  destruct (flat_map pre (a :: args)) eqn:E; [congruence|]. reflexivity.
Qed.

Lemma resolve_pre L : lang_uri_okb L = true -> forall ops, forallb (op_okb L) ops = true ->
  resolve_all L (map (op_name L) ops) = Some ops.
Proof.
  intros HL. induction ops as [|o ops IH]; intros H; [reflexivity|].
  cbn [forallb] in H. apply andb_true_iff in H as [Ho Hs].
  cbn [map resolve_all]. now rewrite (resolve_op L HL o Ho), (IH Hs).
Qed.

(* ------------------------------------------------------------------ *)
(* the decoder *)

(* the same machine with the list of decoded types held top-first *)
Fixpoint dec_s (L : lang) (rops : list nat) (S : list ty) : ures ty :=
  match rops with
  | [] => match S with [t] => UOk t | _ => UErr UAssert end
  | o :: r =>
      let k := op_arity L o in
      if length S <? k then UErr UAssert
      else dec_s L r (TOp o (firstn k S) :: skipn k S)
  end.

Lemma single_rev (ts : list ty) :
  match ts with [t] => UOk t | _ => UErr UAssert end
  = match rev ts with [t] => UOk t | _ => UErr UAssert end.
Proof.
  destruct ts as [|a [|b ts]]; try reflexivity.
  cbn [rev]. destruct (rev ts) as [|x [|y l]]; reflexivity.
Qed.

Lemma dec_dec_s L rops : forall ts, dec L rops ts = dec_s L rops (rev ts).
Proof.
  induction rops as [|o r IH]; intros ts; cbn [dec dec_s].
  - apply single_rev.
  - rewrite rev_length. destruct (length ts <? op_arity L o) eqn:E; [reflexivity|].
    apply Nat.ltb_ge in E. rewrite IH. rewrite rev_app_distr. cbn [rev app].
    rewrite firstn_rev, skipn_rev. reflexivity.
Qed.

Lemma firstn_app_len {A} (l1 l2 : list A) : firstn (length l1) (l1 ++ l2) = l1.
Proof. induction l1; cbn; [reflexivity | now f_equal]. Qed.

Lemma skipn_app_len {A} (l1 l2 : list A) : skipn (length l1) (l1 ++ l2) = l2.
Proof. induction l1; cbn; auto. Qed.

Definition dec_ok (L : lang) (t : ty) : Prop :=
  forall c S, dec_s L (rev (pre t) ++ c) S = dec_s L c (t :: S).

Lemma dec_s_args L args : Forall (dec_ok L) args ->
  forall c S, dec_s L (rev (flat_map pre args) ++ c) S = dec_s L c (args ++ S).
Proof.
  induction 1 as [|a args Ha _ IH]; intros c S; [reflexivity|].
  cbn [flat_map]. rewrite rev_app_distr, <- app_assoc, IH, Ha. reflexivity.
Qed.

Lemma dec_s_pre L t : uri_domb L t = true -> dec_ok L t.
Proof.
  induction t as [o args IH] using ty_ind'. intros W.
  apply uri_domb_inv in W as (_ & Har & _ & Hall).
  assert (HA : Forall (dec_ok L) args).
  { rewrite Forall_forall in IH |- *. rewrite forallb_forall in Hall. auto. }
  intros c S. cbn [pre rev]. rewrite <- app_assoc. rewrite (dec_s_args L args HA).
  cbn [app dec_s]. rewrite Har, app_length.
  replace (length args + length S <? length args) with false by (symmetry; apply Nat.ltb_ge; lia).
  now rewrite firstn_app_len, skipn_app_len.
Qed.

(* ------------------------------------------------------------------ *)
(* round trip *)

Lemma uri_shape L ns canon t u : wf_nsb ns = true -> uri_domb L t = true ->
  uri L ns canon t = Some u -> exists nsx, wf_nsb nsx = true /\ u = nsx ++ uri_text L t.
Proof.
  intros Wn W. destruct t as [o args]. cbn [uri].
  pose proof (uri_domb_inv L o args W) as (_ & Har & HF & _).
  destruct (op_arity L o =? 0) eqn:E0.
  - apply Nat.eqb_eq in E0. rewrite E0 in Har. destruct args; [|discriminate].
    intros [= <-].
    exists (if o <? 5 then TFns else ns). split; [destruct (o <? 5); [reflexivity | exact Wn]|].
    unfold uri_text. cbn [text]. rewrite HF. cbn [is_nil negb]. now rewrite andb_false_r.
  - destruct (canon_mem (TOp o args) canon); [|discriminate].
    intros [= <-]. exists ns. auto.
Qed.

Theorem uri_roundtrip L ns canon t u :
  lang_uri_okb L = true -> wf_nsb ns = true -> uri_domb L t = true ->
  uri L ns canon t = Some u -> parse_type_uri L u = UOk t.
Proof.
  intros HL Wn W Hu.
  destruct (uri_shape L ns canon t u Wn W Hu) as (nsx & Wx & ->).
  rewrite (uri_text_join L t W).
  pose proof (pre_ok L t W) as Hops.
  set (names := map (op_name L) (pre t)).
  assert (Hne : names <> []).
  { unfold names. destruct (pre t) eqn:E; [now apply pre_nonempty in E | discriminate]. }
  assert (Hch : forall c, c = c_dash \/ c = c_hash \/ c = c_slash -> forallb (nochar c) names = true).
  { intros c Hc. unfold names. rewrite forallb_forall. intros n Hn.
    apply in_map_iff in Hn as (o & <- & Ho). rewrite forallb_forall in Hops.
    destruct (op_name_chars L HL o (Hops o Ho)) as (_ & H1 & H2 & H3).
    destruct Hc as [->|[->| ->]]; assumption. }
  assert (Hl : join [c_dash] names <> []).
  { unfold names. destruct (pre t) as [|o ops] eqn:E'; [now apply pre_nonempty in E'|].
    cbn [forallb] in Hops. apply andb_true_iff in Hops as [Ho _].
    destruct (op_name_chars L HL o Ho) as (Hn & _). cbn [map].
    destruct (map (op_name L) ops); cbn [join]; [exact Hn|].
    destruct (op_name L o); [congruence | discriminate]. }
  unfold parse_type_uri, parse_type_uri_with.
  rewrite (shorten_ns nsx _ Wx Hl)
    by (apply nochar_join; [reflexivity | apply Hch; auto]).
  rewrite (split_join c_dash names Hne) by (apply Hch; auto).
  unfold names. rewrite (resolve_pre L HL (pre t) Hops).
  rewrite dec_dec_s. cbn [rev]. rewrite <- (app_nil_r (rev (pre t))).
  rewrite (dec_s_pre L t W). reflexivity.
Qed.

(* two canonical types with the same URI are the same type *)
Theorem uri_inj_types L ns canon t1 t2 u :
  lang_uri_okb L = true -> wf_nsb ns = true ->
  uri_domb L t1 = true -> uri_domb L t2 = true ->
  uri L ns canon t1 = Some u -> uri L ns canon t2 = Some u -> t1 = t2.
Proof.
  intros HL Wn W1 W2 H1 H2.
  pose proof (uri_roundtrip L ns canon t1 u HL Wn W1 H1) as R1.
  pose proof (uri_roundtrip L ns canon t2 u HL Wn W2 H2) as R2.
  congruence.
Qed.

(* ------------------------------------------------------------------ *)
(* operators *)

Definition global_names (L : lang) : list name :=
  [n_Top; n_Bottom; n_Unit; n_Function; n_Product] ++ all_names L.

Definition opref_idx (L : lang) (x : opref) : nat :=
  match x with
  | OTy o => o
  | OOp j => 5 + length (l_types L) + length (l_syns L) + j
  end.

Definition opref_name (L : lang) (x : opref) : name :=
  match x with OTy o => op_name L o | OOp j => nth j (l_ops L) [] end.

Lemma NoDup_app_intro {A} (l1 l2 : list A) : NoDup l1 -> NoDup l2 ->
  (forall x, In x l1 -> ~ In x l2) -> NoDup (l1 ++ l2).
Proof.
  induction l1 as [|x l1 IH]; intros N1 N2 D; [exact N2|].
  inversion N1 as [|? ? Hx N1']; subst. cbn [app]. constructor.
  - intros F. apply in_app_or in F as [F|F]; [auto | exact (D x (or_introl eq_refl) F)].
  - apply IH; auto. intros y Hy. apply D. now right.
Qed.

Lemma global_nodup L : lang_uri_okb L = true -> NoDup (global_names L).
Proof.
  intros HL. apply lang_uri_ok_spec in HL as [ND Hn]. unfold global_names.
  apply NoDup_app_intro; [| exact ND |].
  - apply nodupb_NoDup. reflexivity.
  - intros x Hx F. apply Hn, uri_nameb_spec in F as (_ & _ & _ & _ & NB). apply NB.
    cbn [In builtin_names] in *. tauto.
Qed.

Lemma opref_nth L x : opref_okb L x = true ->
  opref_idx L x < length (global_names L)
  /\ nth_error (global_names L) (opref_idx L x) = Some (opref_name L x).
Proof.
  destruct x as [o|j]; cbn [opref_okb opref_idx opref_name]; intros H; apply Nat.ltb_lt in H.
  - split.
    { unfold global_names, all_names. rewrite !app_length, !map_length. cbn [length]. lia. }
    destruct o as [|[|[|[|[|i]]]]]; try reflexivity.
    change (nth_error (global_names L) (S (S (S (S (S i)))))) with (nth_error (all_names L) i).
    change (op_name L (S (S (S (S (S i)))))) with
      (match nth_error (l_types L) i with Some (n, _) => n | None => [] end).
    assert (i < length (l_types L)) as Hi by lia.
    unfold all_names. rewrite nth_error_app1 by now rewrite map_length.
    destruct (nth_error (l_types L) i) as [[n a]|] eqn:E; [|apply nth_error_None in E; lia].
    now rewrite (map_nth_error fst i (l_types L) E).
  - split.
    { unfold global_names, all_names. rewrite !app_length, !map_length. cbn [length]. lia. }
    replace (5 + length (l_types L) + length (l_syns L) + j)
      with (5 + (length (l_types L) + (length (l_syns L) + j))) by lia.
    change (nth_error (global_names L) (5 + (length (l_types L) + (length (l_syns L) + j))))
      with (nth_error (all_names L) (length (l_types L) + (length (l_syns L) + j))).
    unfold all_names.
    rewrite nth_error_app2 by (rewrite map_length; lia). rewrite map_length.
    replace (length (l_types L) + (length (l_syns L) + j) - length (l_types L))
      with (length (l_syns L) + j) by lia.
    rewrite nth_error_app2 by (rewrite map_length; lia). rewrite map_length.
    replace (length (l_syns L) + j - length (l_syns L)) with j by lia.
    now apply nth_error_nth'.
Qed.

Lemma opref_idx_inj L x y : opref_okb L x = true -> opref_okb L y = true ->
  opref_idx L x = opref_idx L y -> x = y.
Proof.
  destruct x as [o|j], y as [o'|j']; cbn [opref_okb opref_idx]; intros Hx Hy E;
    apply Nat.ltb_lt in Hx, Hy; try (f_equal; lia); exfalso; lia.
Qed.

Lemma uri_op_shape L ns x : wf_nsb ns = true ->
  exists nsx, wf_nsb nsx = true /\ uri_op L ns x = nsx ++ opref_name L x.
Proof.
  intros Wn. destruct x as [o|j]; cbn [uri_op opref_name].
  - exists (if o <? 5 then TFns else ns). split; [destruct (o <? 5); [reflexivity | exact Wn] | reflexivity].
  - exists ns. auto.
Qed.

Lemma opref_name_chars L : lang_uri_okb L = true -> forall x, opref_okb L x = true ->
  opref_name L x <> [] /\ nochar c_hash (opref_name L x) = true
  /\ nochar c_slash (opref_name L x) = true.
Proof.
  intros HL x Hx. destruct (opref_nth L x Hx) as [_ Hn]. apply nth_error_In in Hn.
  unfold global_names in Hn. apply in_app_or in Hn as [Hn|Hn].
  - cbn [In] in Hn. destruct Hn as [<-|[<-|[<-|[<-|[<-|[]]]]]]; repeat split; discriminate.
  - apply lang_uri_ok_spec in HL as [_ H]. apply H, uri_nameb_spec in Hn as (H1 & _ & H3 & H4 & _). auto.
Qed.

(* two operators (type operators, built in or declared, and transformation
   operators) with the same URI are the same operator *)
Theorem uri_inj_ops L ns x y :
  lang_uri_okb L = true -> wf_nsb ns = true ->
  opref_okb L x = true -> opref_okb L y = true ->
  uri_op L ns x = uri_op L ns y -> x = y.
Proof.
  intros HL Wn Hx Hy E.
  destruct (uri_op_shape L ns x Wn) as (n1 & W1 & E1).
  destruct (uri_op_shape L ns y Wn) as (n2 & W2 & E2).
  destruct (opref_name_chars L HL x Hx) as (Ax & Bx & Cx).
  destruct (opref_name_chars L HL y Hy) as (Ay & By & Cy).
  assert (EN : opref_name L x = opref_name L y).
  { rewrite <- (shorten_ns n1 _ W1 Ax Bx Cx), <- (shorten_ns n2 _ W2 Ay By Cy). congruence. }
  destruct (opref_nth L x Hx) as [Lx Nx]. destruct (opref_nth L y Hy) as [_ Ny].
  apply (opref_idx_inj L x y Hx Hy).
  apply (proj1 (NoDup_nth_error (global_names L)) (global_nodup L HL)); [exact Lx|].
  congruence.
Qed.

(* ------------------------------------------------------------------ *)
(* the pinned decoder takes parameters from the wrong end of the list:
   with A=5 B=6 F=7 (unary) G=8 (binary),
   G-G-B-A-F-A decodes to G(G(A, F(A)), B) instead of G(G(B, A), F(A)) *)
Definition refL : lang := mkLang [([65], 0); ([66], 0); ([70], 1); ([71], 2)] [] [].
Definition refNs : list nat := [104; 116; 116; 112; 58; 47; 47; 120; 47; 35].   (* http://x/# *)
Definition refT : ty := TOp 8 [TOp 8 [TOp 6 []; TOp 5 []]; TOp 7 [TOp 5 []]].

Lemma uri_pinned_refuted :
  exists L ns t u t', lang_uri_okb L = true /\ wf_nsb ns = true /\ uri_domb L t = true /\
    uri L ns [t] t = Some u /\ parse_type_uri_pinned L u = UOk t' /\ t' <> t.
Proof.
  exists refL, refNs, refT, (refNs ++ [71; 45; 71; 45; 66; 45; 65; 45; 70; 45; 65]),
    (TOp 8 [TOp 8 [TOp 5 []; TOp 7 [TOp 5 []]]; TOp 6 []]).
  repeat split; try (vm_compute; reflexivity). discriminate.
Qed.
